#!/usr/bin/env python3
"""confirm a seeded change in a scratch worktree: patch applies, full suite passes with it, demo fails with it and
passes without it. usage: confirm_seed.py <seed dir> <worktree>  -> prints JSON"""
import json, os, re, subprocess, sys

seed, wt = sys.argv[1], sys.argv[2]
PKG = {'broker': 'aldrin-broker', 'core': 'aldrin-core', 'aldrin': 'aldrin', 'parser': 'aldrin-parser',
       'codegen': 'aldrin-codegen', 'macros': 'aldrin-macros', 'test': 'aldrin-test'}

def sh(cmd, **kw):
    return subprocess.run(cmd, shell=True, cwd=wt, capture_output=True, text=True, **kw)

def reset():
    sh('git checkout -- . && git clean -fdq -e target')

def suite():
    p = sh('cargo test --workspace --no-fail-fast --offline -j 8 2>&1')
    out = p.stdout
    passed = sum(int(m) for m in re.findall(r'test result: \w+\. (\d+) passed', out))
    failed = sum(int(m) for m in re.findall(r'test result: \w+\. \d+ passed; (\d+) failed', out))
    compiled = 'could not compile' not in out
    return dict(passed=passed, failed=failed, compiled=compiled, rc=p.returncode)

def demo_cmd():
    d = open(os.path.join(seed, 'demo.diff')).read()
    files = re.findall(r'^\+\+\+ b/(\S+)', d, re.M)
    for f in files:
        m = re.match(r'(\w+)/tests/(\w+)\.rs$', f)
        if m:
            return f'cargo test -p {PKG[m.group(1)]} --offline -j 8 --test {m.group(2)} 2>&1'
    for f in files:
        m = re.match(r'(\w+)/src/(?:.*/)?(\w+)\.rs$', f)
        if m and m.group(2) not in ('lib', 'mod'):
            return f'cargo test -p {PKG[m.group(1)]} --offline -j 8 --lib {m.group(2)} 2>&1'
    raise SystemExit('cannot derive demo command from ' + str(files))

def run_demo(cmd):
    p = sh(cmd)
    out = p.stdout
    passed = sum(int(m) for m in re.findall(r'test result: \w+\. (\d+) passed', out))
    failed = sum(int(m) for m in re.findall(r'test result: \w+\. \d+ passed; (\d+) failed', out))
    return dict(passed=passed, failed=failed, rc=p.returncode, tail=out[-600:] if p.returncode else '')

res = dict(seed=seed)
reset()
a = sh(f'git apply --check {seed}/patch.diff')
res['patch_applies'] = a.returncode == 0
if not res['patch_applies']:
    res['apply_err'] = a.stderr[-400:]
    print(json.dumps(res, indent=1)); sys.exit(1)
cmd = os.environ.get('DEMO_CMD') or demo_cmd()   # DEMO_CMD: explicit demo command (e.g. a feature-gated test)
res['demo_cmd'] = cmd
# demo on pristine
sh(f'git apply {seed}/demo.diff')
res['demo_pristine'] = run_demo(cmd)
reset()
# suite with patch only
sh(f'git apply {seed}/patch.diff')
res['suite_with_patch'] = suite()
# demo with patch
sh(f'git apply {seed}/demo.diff')
res['demo_with_patch'] = run_demo(cmd)
reset()
res['confirmed'] = bool(res['suite_with_patch']['compiled'] and res['suite_with_patch']['failed'] == 0
                        and res['suite_with_patch']['passed'] >= 512
                        and res['demo_pristine']['rc'] == 0 and res['demo_pristine']['passed'] > 0
                        and res['demo_with_patch']['rc'] != 0 and res['demo_with_patch']['failed'] > 0)
print(json.dumps(res, indent=1))
