#!/usr/bin/env python3
"""run the registered check of a seed's property against a scratch copy of /repo with the seed's patch applied.
usage: run_seed.py <seeded dir> [tier]   -> updates meta.json (detected_by)"""
import json, os, re, shutil, subprocess, sys, tempfile, time
sd = os.path.abspath(sys.argv[1].rstrip('/'))
tier = sys.argv[2] if len(sys.argv) > 2 else 'quick'
meta = json.load(open(os.path.join(sd, 'meta.json')))
prop = meta['property']
tmp = tempfile.mkdtemp(prefix='aldrin-seed-', dir='/tmp')
try:
    subprocess.run(['rsync', '-a', '--exclude', 'target', '/repo/', tmp + '/'], check=True)
    a = subprocess.run(['git', 'apply', os.path.join(sd, 'patch.diff')], cwd=tmp, capture_output=True, text=True)
    if a.returncode != 0:
        print('patch does not apply', a.stderr); sys.exit(2)
    t0 = time.time()
    env = dict(os.environ, VERIF_EVIDENCE_DIR=os.path.join(tmp, 'evidence-out'))
    p = subprocess.run([os.path.join(os.path.dirname(os.path.dirname(os.path.abspath(__file__))), 'check'), prop, '--tier', tier, '--repo', tmp], capture_output=True, text=True, cwd=os.path.dirname(os.path.dirname(os.path.abspath(__file__))), env=env)
    out = p.stdout + p.stderr
    viol = re.findall(r'VIOLATION property=\S+ replay=(\S+)(.*)', out)
    obligations = []
    for path, tail in viol:
        try:
            r = json.load(open(path))
            obligations.append(dict(obligation=r['obligation'], failed=str(r.get('failed'))[:300], clause=str(r.get('clause'))[:300],
                                    counterexample_replayed=r.get('found_input')))
        except Exception:
            obligations.append(dict(replay=path))
    meta['detected_by'] = dict(check=f'./check {prop} --tier {tier}', exit_code=p.returncode, detected=p.returncode == 1,
                               violations=obligations, undecided=re.findall(r'UNDECIDED[^\n]*', out)[:4],
                               wall_s=round(time.time() - t0, 1))
    json.dump(meta, open(os.path.join(sd, 'meta.json'), 'w'), indent=1)
    print(sd, 'rc=', p.returncode, [o.get('obligation') for o in obligations])
finally:
    shutil.rmtree(tmp, ignore_errors=True)
