#!/usr/bin/env python3
"""store a confirmed seed under /verif/seeded/<prop>-<k>/  (patch.diff, demo.diff, notes.md, meta.json)"""
import json, os, shutil, sys
src, prop, k = sys.argv[1], sys.argv[2], sys.argv[3]
dst = f'/verif/seeded/{prop}-{k}'
os.makedirs(dst, exist_ok=True)
for f in ('patch.diff', 'demo.diff', 'notes.md'):
    shutil.copy(os.path.join(src, f), os.path.join(dst, f))
c = json.load(open(os.path.join(src, 'confirm.json')))
notes = open(os.path.join(src, 'notes.md')).read()
meta = dict(property=prop, seed=k, source='independent sub-agent given only the property text and a scratch worktree',
            confirmed_by='tools/confirm_seed.py in scratch worktree /tmp/wt-confirm (repo HEAD d71e661)',
            what_i_ran=dict(demo_cmd=c.get('demo_cmd'), suite='cargo test --workspace --no-fail-fast --offline'),
            suite_with_patch=c.get('suite_with_patch'), demo_on_pristine=c.get('demo_pristine'),
            demo_with_patch={k2: v for k2, v in c.get('demo_with_patch', {}).items() if k2 != 'tail'},
            confirmed=c.get('confirmed'),
            needs_to_manifest=notes[:1200], detected_by=None)
json.dump(meta, open(os.path.join(dst, 'meta.json'), 'w'), indent=1)
print(dst)
