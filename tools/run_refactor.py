#!/usr/bin/env python3
"""apply a behaviour-preserving refactoring patch to a scratch copy of /repo and run the given checks; exit 1 from a
check is a FALSE ALARM of the machinery. usage: run_refactor.py <patch.diff> <Cxx> [<Cyy> ...]"""
import json, os, re, shutil, subprocess, sys, tempfile, time
patch = os.path.abspath(sys.argv[1])
props = sys.argv[2:]
tmp = tempfile.mkdtemp(prefix='aldrin-refactor-', dir='/tmp')
res = {}
try:
    subprocess.run(['rsync', '-a', '--exclude', 'target', '/repo/', tmp + '/'], check=True)
    a = subprocess.run(['git', 'apply', patch], cwd=tmp, capture_output=True, text=True)
    if a.returncode != 0:
        print('patch does not apply', a.stderr); sys.exit(2)
    for p in props:
        env = dict(os.environ, VERIF_EVIDENCE_DIR=os.path.join(tmp, 'evidence-out'))
        r = subprocess.run([os.path.join(os.path.dirname(os.path.dirname(os.path.abspath(__file__))), 'check'), p, '--repo', tmp], capture_output=True, text=True, cwd=os.path.dirname(os.path.dirname(os.path.abspath(__file__))), env=env)
        out = r.stdout + r.stderr
        res[p] = dict(rc=r.returncode, lines=[l for l in out.splitlines() if 'VIOLATION' in l or 'UNDECIDED' in l][:4])
        print(os.path.basename(os.path.dirname(patch)), p, 'rc=', r.returncode, res[p]['lines'])
finally:
    shutil.rmtree(tmp, ignore_errors=True)
json.dump(res, open(os.path.join(os.path.dirname(patch), 'check-results.json'), 'w'), indent=1)
