#!/bin/bash
# dev helper: extract a unit and run verus on it, printing a compact error summary
u=$1; shift
mkdir -p /tmp/vrun
python3 /verif/vp/extract.py /verif/units/$u/unit.rs ${VERIF_REPO:-/repo} > /tmp/vrun/$u.rs || exit 2
cd /tmp/vrun && verus $u.rs --multiple-errors ${VRUN_ERRS:-8} --triggers-mode silent "$@" > /tmp/vrun/$u.out 2>&1
python3 - /tmp/vrun/$u.out /tmp/vrun/$u.rs <<'PY'
import sys,re
out=open(sys.argv[1]).read(); src=open(sys.argv[2]).read().split('\n')
blocks=re.split(r'\n(?=error|warning|note: )', out)
for b in blocks:
    if b.startswith('warning') or b.startswith('note: recommendation') or b.startswith('note: but type'): continue
    first=b.split('\n')[0]
    locs=re.findall(r'--> [^:\n]+\.rs:(\d+):(\d+)', b)
    print(first[:200])
    for (l,c) in locs[:3]:
        l=int(l)
        c=int(c)
        if l-1 < len(src):
            line=src[l-1]
            if len(line) > 200: print(f'   {l}:{c}: ...{line[max(0,c-1):c+220]}')
            else: print(f'   {l}: {line.strip()[:170]}')
    if 'at this exit' in b or 'at the end of the function' in b:
        pass
PY
