#!/bin/bash
here=$(cd "$(dirname "$0")/.." && pwd)
cd "$here"
for k in 1 2 3 4 5 6; do echo $k; done | xargs -P 3 -I{} python3 tools/run_refactor.py refactors/session3/{}/patch.diff C10
JOBS=4 bash tools/rerun_seeds.sh
