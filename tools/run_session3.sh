#!/bin/bash
# runs the session-3 refactoring patches (false-alarm test) and the new seeds against the check next to this script
here=$(cd "$(dirname "$0")/.." && pwd)
cd "$here"
run() { k=$1; shift; python3 tools/run_refactor.py refactors/session3/$k/patch.diff "$@"; }
( run 1 C10; run 2 C10; run 3 C10 ) &
( run 4 C10; run 5 C10; run 6 C10 ) &
( run 7 C11; run 8 C11 ) &
( run 9 C03; run 10 C10 ) &
wait
for s in C10-5 C10-6 C10-7 C10-8; do python3 tools/run_seed.py seeded/$s; done
