#!/usr/bin/env python3
"""Generates units/core_messages/unit.rs. The table below is the hand-written part: per message kind the wire format
as a field sequence (`enc`), from the protocol's conventions (fields in declaration order, enum alternatives as a
one-byte discriminant followed by the alternative's fields). Repo text enters the unit only through //@item / //@fn."""
import os
HERE = os.path.dirname(os.path.dirname(os.path.abspath(__file__)))

def disc_result(st, res):
    return ('%s' % st, [('enum', res)], [res], 'seq![Field::U32(m.serial), Field::Disc(m.result.to_u8())]')

# value-less kinds: (file, struct, items, Disc enums, enc)
PLAIN = [
 ('abort_function_call', 'AbortFunctionCall', [], [], 'seq![Field::U32(m.serial)]'),
 ('create_bus_listener', 'CreateBusListener', [], [], 'seq![Field::U32(m.serial)]'),
 ('sync', 'Sync', [], [], 'seq![Field::U32(m.serial)]'),
 ('sync_reply', 'SyncReply', [], [], 'seq![Field::U32(m.serial)]'),
 ('shutdown', 'Shutdown', [], [], 'Seq::<Field>::empty()'),
 ('close_channel_end_reply',) + disc_result('CloseChannelEndReply', 'CloseChannelEndResult'),
 ('destroy_bus_listener_reply',) + disc_result('DestroyBusListenerReply', 'DestroyBusListenerResult'),
 ('destroy_object_reply',) + disc_result('DestroyObjectReply', 'DestroyObjectResult'),
 ('destroy_service_reply',) + disc_result('DestroyServiceReply', 'DestroyServiceResult'),
 ('start_bus_listener_reply',) + disc_result('StartBusListenerReply', 'StartBusListenerResult'),
 ('stop_bus_listener_reply',) + disc_result('StopBusListenerReply', 'StopBusListenerResult'),
 ('subscribe_all_events_reply',) + disc_result('SubscribeAllEventsReply', 'SubscribeAllEventsResult'),
 ('subscribe_event_reply',) + disc_result('SubscribeEventReply', 'SubscribeEventResult'),
 ('subscribe_service_reply',) + disc_result('SubscribeServiceReply', 'SubscribeServiceResult'),
 ('unsubscribe_all_events_reply',) + disc_result('UnsubscribeAllEventsReply', 'UnsubscribeAllEventsResult'),
 ('claim_channel_end_reply', 'ClaimChannelEndReply', [('enum', 'ClaimChannelEndResult'), ('enum', 'ClaimChannelEndReplyKind')],
  ['ClaimChannelEndReplyKind'],
  '''match m.result {
            ClaimChannelEndResult::SenderClaimed(c) => seq![Field::U32(m.serial), Field::Disc(ClaimChannelEndReplyKind::SenderClaimed.to_u8()), Field::U32(c)],
            ClaimChannelEndResult::ReceiverClaimed => seq![Field::U32(m.serial), Field::Disc(ClaimChannelEndReplyKind::ReceiverClaimed.to_u8())],
            ClaimChannelEndResult::InvalidChannel => seq![Field::U32(m.serial), Field::Disc(ClaimChannelEndReplyKind::InvalidChannel.to_u8())],
            ClaimChannelEndResult::AlreadyClaimed => seq![Field::U32(m.serial), Field::Disc(ClaimChannelEndReplyKind::AlreadyClaimed.to_u8())],
        }'''),
 ('query_service_version_reply', 'QueryServiceVersionReply',
  [('enum', 'QueryServiceVersionResult'), ('enum', 'QueryServiceVersionReplyKind')], ['QueryServiceVersionReplyKind'],
  '''match m.result {
            QueryServiceVersionResult::Ok(v) => seq![Field::U32(m.serial), Field::Disc(QueryServiceVersionReplyKind::Ok.to_u8()), Field::U32(v)],
            QueryServiceVersionResult::InvalidService => seq![Field::U32(m.serial), Field::Disc(QueryServiceVersionReplyKind::InvalidService.to_u8())],
        }'''),
 ('create_channel', 'CreateChannel', [], ['ChannelEnd'],
  '''match m.end {
            ChannelEndWithCapacity::Sender => seq![Field::U32(m.serial), Field::Disc(ChannelEnd::Sender.to_u8())],
            ChannelEndWithCapacity::Receiver(c) => seq![Field::U32(m.serial), Field::Disc(ChannelEnd::Receiver.to_u8()), Field::U32(c)],
        }'''),
 ('create_object_reply', 'CreateObjectReply', [('enum', 'CreateObjectResult'), ('enum', 'CreateObjectReplyKind')], ['CreateObjectReplyKind'],
  '''match m.result {
            CreateObjectResult::Ok(c) => seq![Field::U32(m.serial), Field::Disc(CreateObjectReplyKind::Ok.to_u8()), Field::Id(c.0)],
            CreateObjectResult::DuplicateObject => seq![Field::U32(m.serial), Field::Disc(CreateObjectReplyKind::DuplicateObject.to_u8())],
        }'''),
 ('create_service_reply', 'CreateServiceReply', [('enum', 'CreateServiceResult'), ('enum', 'CreateServiceReplyKind')], ['CreateServiceReplyKind'],
  '''match m.result {
            CreateServiceResult::Ok(c) => seq![Field::U32(m.serial), Field::Disc(CreateServiceReplyKind::Ok.to_u8()), Field::Id(c.0)],
            CreateServiceResult::DuplicateService => seq![Field::U32(m.serial), Field::Disc(CreateServiceReplyKind::DuplicateService.to_u8())],
            CreateServiceResult::InvalidObject => seq![Field::U32(m.serial), Field::Disc(CreateServiceReplyKind::InvalidObject.to_u8())],
            CreateServiceResult::ForeignObject => seq![Field::U32(m.serial), Field::Disc(CreateServiceReplyKind::ForeignObject.to_u8())],
        }'''),
 ('subscribe_event', 'SubscribeEvent', [], ['OptionKind'],
  '''match m.serial {
            None => seq![Field::Disc(OptionKind::None.to_u8()), Field::Id(m.service_cookie.0), Field::U32(m.event)],
            Some(s) => seq![Field::Disc(OptionKind::Some.to_u8()), Field::U32(s), Field::Id(m.service_cookie.0), Field::U32(m.event)],
        }'''),
 ('subscribe_all_events', 'SubscribeAllEvents', [], ['OptionKind'],
  '''match m.serial {
            None => seq![Field::Disc(OptionKind::None.to_u8()), Field::Id(m.service_cookie.0)],
            Some(s) => seq![Field::Disc(OptionKind::Some.to_u8()), Field::U32(s), Field::Id(m.service_cookie.0)],
        }'''),
 ('unsubscribe_all_events', 'UnsubscribeAllEvents', [], ['OptionKind'],
  '''match m.serial {
            None => seq![Field::Disc(OptionKind::None.to_u8()), Field::Id(m.service_cookie.0)],
            Some(s) => seq![Field::Disc(OptionKind::Some.to_u8()), Field::U32(s), Field::Id(m.service_cookie.0)],
        }'''),
]

# kinds with a value: (file, struct, items, Disc enums, enc_fields, enc_value)   enc_value: Option<SerializedValue> = the
# value the message carries (None: the alternative carries none; the serializer then writes the "none" value and the
# parser discards whatever value is there)
VALUED = [
 ('connect', 'Connect', [], [], 'seq![Field::U32(m.version)]', 'Some(m.value)'),
 ('register_introspection', 'RegisterIntrospection', [], [], 'Seq::<Field>::empty()', 'Some(m.value)'),
 ('query_service_info_reply', 'QueryServiceInfoReply', [('enum', 'QueryServiceInfoResult'), ('enum', 'QueryServiceInfoReplyKind')],
  ['QueryServiceInfoReplyKind'],
  '''match m.result {
            QueryServiceInfoResult::Ok(_) => seq![Field::U32(m.serial), Field::Disc(QueryServiceInfoReplyKind::Ok.to_u8())],
            QueryServiceInfoResult::InvalidService => seq![Field::U32(m.serial), Field::Disc(QueryServiceInfoReplyKind::InvalidService.to_u8())],
        }''',
  '''match m.result {
            QueryServiceInfoResult::Ok(v) => Some(v),
            QueryServiceInfoResult::InvalidService => None,
        }'''),
 ('query_introspection_reply', 'QueryIntrospectionReply',
  [('enum', 'QueryIntrospectionResult'), ('enum', 'QueryIntrospectionReplyKind')], ['QueryIntrospectionReplyKind'],
  '''match m.result {
            QueryIntrospectionResult::Ok(_) => seq![Field::U32(m.serial), Field::Disc(QueryIntrospectionReplyKind::Ok.to_u8())],
            QueryIntrospectionResult::Unavailable => seq![Field::U32(m.serial), Field::Disc(QueryIntrospectionReplyKind::Unavailable.to_u8())],
        }''',
  '''match m.result {
            QueryIntrospectionResult::Ok(v) => Some(v),
            QueryIntrospectionResult::Unavailable => None,
        }'''),
 ('call_function_reply', 'CallFunctionReply', [('enum', 'CallFunctionResult'), ('enum', 'CallFunctionReplyKind')],
  ['CallFunctionReplyKind'],
  '''match m.result {
            CallFunctionResult::Ok(_) => seq![Field::U32(m.serial), Field::Disc(CallFunctionReplyKind::Ok.to_u8())],
            CallFunctionResult::Err(_) => seq![Field::U32(m.serial), Field::Disc(CallFunctionReplyKind::Err.to_u8())],
            CallFunctionResult::Aborted => seq![Field::U32(m.serial), Field::Disc(CallFunctionReplyKind::Aborted.to_u8())],
            CallFunctionResult::InvalidService => seq![Field::U32(m.serial), Field::Disc(CallFunctionReplyKind::InvalidService.to_u8())],
            CallFunctionResult::InvalidFunction => seq![Field::U32(m.serial), Field::Disc(CallFunctionReplyKind::InvalidFunction.to_u8())],
            CallFunctionResult::InvalidArgs => seq![Field::U32(m.serial), Field::Disc(CallFunctionReplyKind::InvalidArgs.to_u8())],
        }''',
  '''match m.result {
            CallFunctionResult::Ok(v) => Some(v),
            CallFunctionResult::Err(v) => Some(v),
            _ => None,
        }'''),
 ('connect2', 'Connect2', [], [], 'seq![Field::U32(m.major_version), Field::U32(m.minor_version)]', 'Some(m.value)'),
 ('connect_reply2', 'ConnectReply2', [('enum', 'ConnectResult'), ('enum', 'ConnectReplyKind')], ['ConnectReplyKind'],
  '''match m.result {
            ConnectResult::Ok(v) => seq![Field::Disc(ConnectReplyKind::Ok.to_u8()), Field::U32(v)],
            ConnectResult::Rejected => seq![Field::Disc(ConnectReplyKind::Rejected.to_u8())],
            ConnectResult::IncompatibleVersion => seq![Field::Disc(ConnectReplyKind::IncompatibleVersion.to_u8())],
        }''', 'Some(m.value)'),
 ('call_function2', 'CallFunction2', [], ['OptionKind'],
  '''match m.version {
            None => seq![Field::U32(m.serial), Field::Id(m.service_cookie.0), Field::U32(m.function), Field::Disc(OptionKind::None.to_u8())],
            Some(v) => seq![Field::U32(m.serial), Field::Id(m.service_cookie.0), Field::U32(m.function), Field::Disc(OptionKind::Some.to_u8()), Field::U32(v)],
        }''', 'Some(m.value)'),
]


# kinds whose parsers use `.map(Constructor)?` (desugared by the extractor, N8):
# (file, struct, field spec list, has value)   field spec: u:<f> u32 field, id:<f> uuid newtype field,
# d:<f> one-byte discriminant enum field, cap:<f> ChannelEndWithCapacity field
SER_ONLY = [
 ('add_channel_capacity', 'AddChannelCapacity', ['id:cookie', 'u:capacity'], False),
 ('bus_listener_current_finished', 'BusListenerCurrentFinished', ['id:cookie'], False),
 ('call_function', 'CallFunction', ['u:serial', 'id:service_cookie', 'u:function'], True),
 ('clear_bus_listener_filters', 'ClearBusListenerFilters', ['id:cookie'], False),
 ('create_bus_listener_reply', 'CreateBusListenerReply', ['u:serial', 'id:cookie'], False),
 ('create_channel_reply', 'CreateChannelReply', ['u:serial', 'id:cookie'], False),
 ('create_object', 'CreateObject', ['u:serial', 'id:uuid'], False),
 ('destroy_bus_listener', 'DestroyBusListener', ['u:serial', 'id:cookie'], False),
 ('destroy_object', 'DestroyObject', ['u:serial', 'id:cookie'], False),
 ('destroy_service', 'DestroyService', ['u:serial', 'id:cookie'], False),
 ('emit_event', 'EmitEvent', ['id:service_cookie', 'u:event'], True),
 ('item_received', 'ItemReceived', ['id:cookie'], True),
 ('query_introspection', 'QueryIntrospection', ['u:serial', 'id:type_id'], False),
 ('query_service_info', 'QueryServiceInfo', ['u:serial', 'id:cookie'], False),
 ('query_service_version', 'QueryServiceVersion', ['u:serial', 'id:cookie'], False),
 ('send_item', 'SendItem', ['id:cookie'], True),
 ('service_destroyed', 'ServiceDestroyed', ['id:service_cookie'], False),
 ('stop_bus_listener', 'StopBusListener', ['u:serial', 'id:cookie'], False),
 ('subscribe_service', 'SubscribeService', ['u:serial', 'id:service_cookie'], False),
 ('unsubscribe_event', 'UnsubscribeEvent', ['id:service_cookie', 'u:event'], False),
 ('unsubscribe_service', 'UnsubscribeService', ['id:service_cookie'], False),
 ('create_service', 'CreateService', ['u:serial', 'id:object_cookie', 'id:uuid', 'u:version'], False),
 ('create_service2', 'CreateService2', ['u:serial', 'id:object_cookie', 'id:uuid'], True),
 ('channel_end_closed', 'ChannelEndClosed', ['id:cookie', 'd:end'], False),
 ('close_channel_end', 'CloseChannelEnd', ['u:serial', 'id:cookie', 'd:end'], False),
 ('start_bus_listener', 'StartBusListener', ['u:serial', 'id:cookie', 'd:scope'], False),
 ('channel_end_claimed', 'ChannelEndClaimed', ['id:cookie', 'cap:end'], False),
 ('claim_channel_end', 'ClaimChannelEnd', ['u:serial', 'id:cookie', 'cap:end'], False),
]

PRELUDE = open(os.path.join(HERE, 'units', '_shared', 'message_model.rs')).read() if os.path.exists(os.path.join(HERE, 'units', '_shared', 'message_model.rs')) else ''

out = []
out.append('''// unit: core_messages   property: C08 (per-kind message codecs at the level of the field sequence)
// GENERATED by tools/gen_core_messages.py from the table in that file; repo text enters only via //@item / //@fn.
// The per-kind `serialize_message` / `deserialize_message` functions are verified verbatim against ASSUMED contracts of
// the field primitives (MessageSerializer / Message{Without,With}ValueDeserializer), modelled as writers / readers of a
// sequence of typed fields plus an opaque value. Proved per kind: the serializer writes kind K, exactly enc(m) and the
// value of m unchanged; the parser accepts exactly the frames of kind K whose field sequence is enc(m) for some m, with
// nothing left over, and returns that m with the identical value (round trip + strictness). NOT proved here: the byte
// level (frame header / length prefix, varint and uuid bytes, splitting the value off the frame).
use vstd::prelude::*;

verus! {

//@include _shared/message_model.rs

//@item core/src/channel_end.rs enum ChannelEnd
//@item core/src/channel_end.rs enum ChannelEndWithCapacity
//@item core/src/message.rs enum OptionKind

''')
seen = {'ChannelEnd', 'ChannelEndWithCapacity', 'OptionKind'}
discs = set()
def items_text(f, items):
    t = ''
    for k, n in items:
        if n in seen:
            continue
        seen.add(n)
        t += f"//@item core/src/message/{f}.rs {k} {n}\n"
    return t
for f, st, items, dl, enc in PLAIN:
    discs.update(dl)
    out.append(f"// ---- {st} ({f}.rs) " + "-" * 60 + "\n")
    out.append(items_text(f, items))
    out.append(f"//@item core/src/message/{f}.rs struct {st}\n\n")
    out.append(f"""impl {st} {{
    // wire format of this kind as a field sequence
    spec fn enc(m: {st}) -> Seq<Field> {{
        {enc}
    }}

    //@fn core/src/message/{f}.rs MessageOps@{st}::serialize_message
        ensures
            r is Ok,
            frame_wf(r->Ok_0),
            frame_kind(r->Ok_0) == MessageKind::{st},
            frame_fields(r->Ok_0) == {st}::enc(self),
    //@end

    //@fn core/src/message/{f}.rs MessageOps@{st}::deserialize_message
        ensures
            // round trip: every frame the serializer can produce parses back to the same message
            forall|m: {st}| frame_wf(buf) && frame_kind(buf) == MessageKind::{st} && frame_fields(buf) == #[trigger] {st}::enc(m)
                ==> r == Ok::<{st}, MessageDeserializeError>(m),
            // strictness: only frames of this kind with a well-formed field sequence and nothing left over are accepted,
            // and what is accepted re-serializes to the same fields
            r is Ok ==> frame_wf(buf) && frame_kind(buf) == MessageKind::{st} && frame_fields(buf) == {st}::enc(r->Ok_0),
    //@end
}}

""")
for f, st, items, dl, encf, encv in VALUED:
    discs.update(dl)
    out.append(f"// ---- {st} ({f}.rs), carries a value " + "-" * 44 + "\n")
    out.append(items_text(f, items))
    out.append(f"//@item core/src/message/{f}.rs struct {st}\n\n")
    out.append(f"""impl {st} {{
    spec fn enc(m: {st}) -> Seq<Field> {{
        {encf}
    }}

    // the value the message carries (None: this alternative carries no value)
    spec fn enc_value(m: {st}) -> Option<SerializedValue> {{
        {encv}
    }}

    //@fn core/src/message/{f}.rs MessageOps@{st}::serialize_message
        ensures
            r is Ok ==> {{
                &&& frame_wf(r->Ok_0)
                &&& frame_kind(r->Ok_0) == MessageKind::{st}
                &&& frame_has_value(r->Ok_0)
                &&& frame_fields(r->Ok_0) == {st}::enc(self)
                // the payload is put into the frame unchanged
                &&& ({st}::enc_value(self) is Some ==> frame_value(r->Ok_0) == {st}::enc_value(self)->Some_0)
            }},
            // serialization can only fail for an invalid (empty) payload
            r is Err ==> {st}::enc_value(self) is Some,
    //@end

    //@fn core/src/message/{f}.rs MessageOps@{st}::deserialize_message
        ensures
            // round trip with identical payload
            forall|m: {st}| frame_wf(buf) && frame_kind(buf) == MessageKind::{st} && frame_has_value(buf)
                && frame_fields(buf) == #[trigger] {st}::enc(m)
                && ({st}::enc_value(m) is Some ==> frame_value(buf) == {st}::enc_value(m)->Some_0)
                ==> r == Ok::<{st}, MessageDeserializeError>(m),
            // strictness
            r is Ok ==> {{
                &&& frame_wf(buf)
                &&& frame_kind(buf) == MessageKind::{st}
                &&& frame_has_value(buf)
                &&& frame_fields(buf) == {st}::enc(r->Ok_0)
                &&& ({st}::enc_value(r->Ok_0) is Some ==> frame_value(buf) == {st}::enc_value(r->Ok_0)->Some_0)
            }},
    //@end
}}

""")

def enc_of(spec):
    head = []
    cap = None
    for f in spec:
        k, n = f.split(':')
        if k == 'u':
            head.append(f'Field::U32(m.{n})')
        elif k == 'id':
            head.append(f'Field::Id(m.{n}.0)')
        elif k == 'd':
            head.append(f'Field::Disc(m.{n}.to_u8())')
        elif k == 'cap':
            cap = n
    if cap is None:
        return 'seq![' + ', '.join(head) + ']' if head else 'Seq::<Field>::empty()'
    h = ', '.join(head)
    return (f"match m.{cap} {{\n            ChannelEndWithCapacity::Sender => seq![{h}, Field::Disc(ChannelEnd::Sender.to_u8())],\n"
            f"            ChannelEndWithCapacity::Receiver(c) => seq![{h}, Field::Disc(ChannelEnd::Receiver.to_u8()), Field::U32(c)],\n        }}")

out.append("// ==== kinds whose parser uses `.map(Constructor)?` (normalisation N8) ====\n")
out.append("//@item core/src/ids/bus_listener_cookie.rs struct BusListenerCookie\n//@item core/src/ids/channel_cookie.rs struct ChannelCookie\n"
           "//@item core/src/ids/object_cookie.rs struct ObjectCookie\n//@item core/src/ids/object_uuid.rs struct ObjectUuid\n"
           "//@item core/src/ids/service_cookie.rs struct ServiceCookie\n//@item core/src/ids/service_uuid.rs struct ServiceUuid\n"
           "//@item core/src/ids/type_id.rs struct TypeId\n//@item core/src/bus_listener.rs enum BusListenerScope\n\n")
discs.add('BusListenerScope')
for f, st, spec, hasv in SER_ONLY:
    out.append(f"// ---- {st} ({f}.rs) " + "-" * 60 + "\n")
    out.append(f"//@item core/src/message/{f}.rs struct {st}\n\n")
    val = (f"                &&& frame_has_value(r->Ok_0)\n                &&& frame_value(r->Ok_0) == self.value\n" if hasv else "")
    okc = "" if hasv else "            r is Ok,\n"
    out.append(f"""impl {st} {{
    spec fn enc(m: {st}) -> Seq<Field> {{
        {enc_of(spec)}
    }}

    //@fn core/src/message/{f}.rs MessageOps@{st}::serialize_message
        ensures
{okc}            r is Ok ==> {{
                &&& frame_wf(r->Ok_0)
                &&& frame_kind(r->Ok_0) == MessageKind::{st}
                &&& frame_fields(r->Ok_0) == {st}::enc(self)
{val}            }},
    //@end

    // (parser: `.map(Constructor)?` is desugared by the extractor, normalisation N8)
    //@fn core/src/message/{f}.rs MessageOps@{st}::deserialize_message
        ensures
            // round trip{' with identical payload' if hasv else ''}
            forall|m: {st}| frame_wf(buf) && frame_kind(buf) == MessageKind::{st}{' && frame_has_value(buf)' if hasv else ''}
                && frame_fields(buf) == #[trigger] {st}::enc(m){' && frame_value(buf) == m.value' if hasv else ''}
                ==> r == Ok::<{st}, MessageDeserializeError>(m),
            // strictness
            r is Ok ==> frame_wf(buf) && frame_kind(buf) == MessageKind::{st} && frame_fields(buf) == {st}::enc(r->Ok_0){' && frame_has_value(buf) && frame_value(buf) == r->Ok_0.value' if hasv else ''},
    //@end
}}

""")


discs.add('BusListenerFilterKind')
out.append("""// ==== bus listener filters (core/src/bus_listener.rs) and the two kinds that carry one ====
//@item core/src/bus_listener.rs enum BusListenerFilter
//@item core/src/bus_listener.rs struct BusListenerServiceFilter
//@item core/src/bus_listener.rs enum BusListenerFilterKind

impl BusListenerServiceFilter {
    //@fn core/src/bus_listener.rs BusListenerServiceFilter::any
        ensures r.object is None, r.service is None,
    //@end
    //@fn core/src/bus_listener.rs BusListenerServiceFilter::with_object
        ensures r.object == Some(object), r.service is None,
    //@end
    //@fn core/src/bus_listener.rs BusListenerServiceFilter::with_service
        ensures r.object is None, r.service == Some(service),
    //@end
    //@fn core/src/bus_listener.rs BusListenerServiceFilter::with_object_and_service
        ensures r.object == Some(object), r.service == Some(service),
    //@end
}

// `q` begins with the fields `p`
spec fn starts_with(q: Seq<Field>, p: Seq<Field>) -> bool {
    q.len() >= p.len() && forall|i: int| 0 <= i < p.len() ==> q[i] == p[i]
}

// wire format of a filter: a one-byte shape followed by the ids the shape names (object before service)
spec fn filter_enc(f: BusListenerFilter) -> Seq<Field> {
    match f {
        BusListenerFilter::Object(None) => seq![Field::Disc(BusListenerFilterKind::AnyObject.to_u8())],
        BusListenerFilter::Object(Some(o)) => seq![Field::Disc(BusListenerFilterKind::SpecificObject.to_u8()), Field::Id(o.0)],
        BusListenerFilter::Service(s) => match (s.object, s.service) {
            (None, None) => seq![Field::Disc(BusListenerFilterKind::AnyObjectAnyService.to_u8())],
            (Some(o), None) => seq![Field::Disc(BusListenerFilterKind::SpecificObjectAnyService.to_u8()), Field::Id(o.0)],
            (None, Some(v)) => seq![Field::Disc(BusListenerFilterKind::AnyObjectSpecificService.to_u8()), Field::Id(v.0)],
            (Some(o), Some(v)) => seq![Field::Disc(BusListenerFilterKind::SpecificObjectSpecificService.to_u8()), Field::Id(o.0), Field::Id(v.0)],
        },
    }
}

impl BusListenerFilter {
    //@fn core/src/bus_listener.rs BusListenerFilter::any_object
        ensures r == BusListenerFilter::Object(None),
    //@end
    //@fn core/src/bus_listener.rs BusListenerFilter::object
        ensures r == BusListenerFilter::Object(Some(object)),
    //@end
    //@fn core/src/bus_listener.rs BusListenerFilter::service
        ensures r == BusListenerFilter::Service(filter),
    //@end
    //@fn core/src/bus_listener.rs BusListenerFilter::any_object_any_service
        ensures r == BusListenerFilter::Service(BusListenerServiceFilter { object: None, service: None }),
    //@end
    //@fn core/src/bus_listener.rs BusListenerFilter::specific_object_any_service
        ensures r == BusListenerFilter::Service(BusListenerServiceFilter { object: Some(object), service: None }),
    //@end
    //@fn core/src/bus_listener.rs BusListenerFilter::any_object_specific_service
        ensures r == BusListenerFilter::Service(BusListenerServiceFilter { object: None, service: Some(service) }),
    //@end
    //@fn core/src/bus_listener.rs BusListenerFilter::specific_object_and_service
        ensures r == BusListenerFilter::Service(BusListenerServiceFilter { object: Some(object), service: Some(service) }),
    //@end

    //@fn core/src/bus_listener.rs BusListenerFilter::serialize_into_message
        ensures
            final(serializer).fields() == old(serializer).fields() + filter_enc(self),
            final(serializer).kind() == old(serializer).kind(), final(serializer).has_value() == old(serializer).has_value(),
            final(serializer).value() == old(serializer).value(),
    //@end

    //@fn core/src/bus_listener.rs BusListenerFilter::deserialize_from_message
        ensures
            // every encoded filter at the front of the remaining fields is read back, and exactly its fields are consumed
            forall|f: BusListenerFilter| #![trigger filter_enc(f)] starts_with(old(deserializer).rest(), filter_enc(f))
                ==> r == Ok::<BusListenerFilter, MessageDeserializeError>(f),
            // only encoded filters are accepted
            r is Ok ==> starts_with(old(deserializer).rest(), filter_enc(r->Ok_0))
                && final(deserializer).rest() == old(deserializer).rest().subrange(filter_enc(r->Ok_0).len() as int, old(deserializer).rest().len() as int),
    //@end
}

""")
for f, st in [('add_bus_listener_filter', 'AddBusListenerFilter'), ('remove_bus_listener_filter', 'RemoveBusListenerFilter')]:
    out.append(f"""//@item core/src/message/{f}.rs struct {st}

impl {st} {{
    // the listener cookie followed by the filter's fields
    spec fn enc(m: {st}) -> Seq<Field> {{
        seq![Field::Id(m.cookie.0)] + filter_enc(m.filter)
    }}

    //@fn core/src/message/{f}.rs MessageOps@{st}::serialize_message
        ensures
            r is Ok,
            frame_wf(r->Ok_0),
            frame_kind(r->Ok_0) == MessageKind::{st},
            frame_fields(r->Ok_0) == {st}::enc(self),
    //@end

    //@fn core/src/message/{f}.rs MessageOps@{st}::deserialize_message
        ensures
            forall|m: {st}| frame_wf(buf) && frame_kind(buf) == MessageKind::{st} && frame_fields(buf) == #[trigger] {st}::enc(m)
                ==> r == Ok::<{st}, MessageDeserializeError>(m),
            r is Ok ==> frame_wf(buf) && frame_kind(buf) == MessageKind::{st} && frame_fields(buf) == {st}::enc(r->Ok_0),
    //@end
}}

""")

out.append("// discriminant enums (one byte on the wire)\n")
for d in sorted(discs):
    out.append(f"impl Disc for {d} {{\n    uninterp spec fn to_u8(self) -> u8;\n    uninterp spec fn from_u8(b: u8) -> Option<Self>;\n}}\n")
out.append("\n} // verus!\n\nfn main() {}\n")
open(os.path.join(HERE, 'units', 'core_messages', 'unit.rs'), 'w').write(''.join(out))
print('kinds round trip:', len(PLAIN) + len(VALUED) + len(SER_ONLY) + 2)
