#!/usr/bin/env python3
"""Generates units/core_messages/unit.rs. The table below is the hand-written part: per message kind the wire format
as a field sequence (`enc`), from the protocol's conventions (fields in declaration order, enum alternatives as a
one-byte discriminant followed by the alternative's fields). Repo text enters the unit only through //@item / //@fn."""
import os
HERE = os.path.dirname(os.path.dirname(os.path.abspath(__file__)))

def disc_result(st, res):
    return ('%s' % st, [('enum', res)], [res], 'seq![Field::U32(m.serial), Field::Disc(m.result.to_u8())]')

# value-less kinds: (file, struct, items, Disc enums, enc)
PLAIN = [
 ('abort_function_call', 'AbortFunctionCall', [], [], 'seq![Field::U32(m.serial)]'),
 ('create_bus_listener', 'CreateBusListener', [], [], 'seq![Field::U32(m.serial)]'),
 ('sync', 'Sync', [], [], 'seq![Field::U32(m.serial)]'),
 ('sync_reply', 'SyncReply', [], [], 'seq![Field::U32(m.serial)]'),
 ('shutdown', 'Shutdown', [], [], 'Seq::<Field>::empty()'),
 ('close_channel_end_reply',) + disc_result('CloseChannelEndReply', 'CloseChannelEndResult'),
 ('destroy_bus_listener_reply',) + disc_result('DestroyBusListenerReply', 'DestroyBusListenerResult'),
 ('destroy_object_reply',) + disc_result('DestroyObjectReply', 'DestroyObjectResult'),
 ('destroy_service_reply',) + disc_result('DestroyServiceReply', 'DestroyServiceResult'),
 ('start_bus_listener_reply',) + disc_result('StartBusListenerReply', 'StartBusListenerResult'),
 ('stop_bus_listener_reply',) + disc_result('StopBusListenerReply', 'StopBusListenerResult'),
 ('subscribe_all_events_reply',) + disc_result('SubscribeAllEventsReply', 'SubscribeAllEventsResult'),
 ('subscribe_event_reply',) + disc_result('SubscribeEventReply', 'SubscribeEventResult'),
 ('subscribe_service_reply',) + disc_result('SubscribeServiceReply', 'SubscribeServiceResult'),
 ('unsubscribe_all_events_reply',) + disc_result('UnsubscribeAllEventsReply', 'UnsubscribeAllEventsResult'),
 ('claim_channel_end_reply', 'ClaimChannelEndReply', [('enum', 'ClaimChannelEndResult'), ('enum', 'ClaimChannelEndReplyKind')],
  ['ClaimChannelEndReplyKind'],
  '''match m.result {
            ClaimChannelEndResult::SenderClaimed(c) => seq![Field::U32(m.serial), Field::Disc(ClaimChannelEndReplyKind::SenderClaimed.to_u8()), Field::U32(c)],
            ClaimChannelEndResult::ReceiverClaimed => seq![Field::U32(m.serial), Field::Disc(ClaimChannelEndReplyKind::ReceiverClaimed.to_u8())],
            ClaimChannelEndResult::InvalidChannel => seq![Field::U32(m.serial), Field::Disc(ClaimChannelEndReplyKind::InvalidChannel.to_u8())],
            ClaimChannelEndResult::AlreadyClaimed => seq![Field::U32(m.serial), Field::Disc(ClaimChannelEndReplyKind::AlreadyClaimed.to_u8())],
        }'''),
 ('query_service_version_reply', 'QueryServiceVersionReply',
  [('enum', 'QueryServiceVersionResult'), ('enum', 'QueryServiceVersionReplyKind')], ['QueryServiceVersionReplyKind'],
  '''match m.result {
            QueryServiceVersionResult::Ok(v) => seq![Field::U32(m.serial), Field::Disc(QueryServiceVersionReplyKind::Ok.to_u8()), Field::U32(v)],
            QueryServiceVersionResult::InvalidService => seq![Field::U32(m.serial), Field::Disc(QueryServiceVersionReplyKind::InvalidService.to_u8())],
        }'''),
 ('create_channel', 'CreateChannel', [], ['ChannelEnd'],
  '''match m.end {
            ChannelEndWithCapacity::Sender => seq![Field::U32(m.serial), Field::Disc(ChannelEnd::Sender.to_u8())],
            ChannelEndWithCapacity::Receiver(c) => seq![Field::U32(m.serial), Field::Disc(ChannelEnd::Receiver.to_u8()), Field::U32(c)],
        }'''),
]

# kinds with a value: (file, struct, items, Disc enums, enc_fields, enc_value)   enc_value: Option<SerializedValue> = the
# value the message carries (None: the alternative carries none; the serializer then writes the "none" value and the
# parser discards whatever value is there)
VALUED = [
 ('connect', 'Connect', [], [], 'seq![Field::U32(m.version)]', 'Some(m.value)'),
 ('register_introspection', 'RegisterIntrospection', [], [], 'Seq::<Field>::empty()', 'Some(m.value)'),
 ('query_service_info_reply', 'QueryServiceInfoReply', [('enum', 'QueryServiceInfoResult'), ('enum', 'QueryServiceInfoReplyKind')],
  ['QueryServiceInfoReplyKind'],
  '''match m.result {
            QueryServiceInfoResult::Ok(_) => seq![Field::U32(m.serial), Field::Disc(QueryServiceInfoReplyKind::Ok.to_u8())],
            QueryServiceInfoResult::InvalidService => seq![Field::U32(m.serial), Field::Disc(QueryServiceInfoReplyKind::InvalidService.to_u8())],
        }''',
  '''match m.result {
            QueryServiceInfoResult::Ok(v) => Some(v),
            QueryServiceInfoResult::InvalidService => None,
        }'''),
 ('query_introspection_reply', 'QueryIntrospectionReply',
  [('enum', 'QueryIntrospectionResult'), ('enum', 'QueryIntrospectionReplyKind')], ['QueryIntrospectionReplyKind'],
  '''match m.result {
            QueryIntrospectionResult::Ok(_) => seq![Field::U32(m.serial), Field::Disc(QueryIntrospectionReplyKind::Ok.to_u8())],
            QueryIntrospectionResult::Unavailable => seq![Field::U32(m.serial), Field::Disc(QueryIntrospectionReplyKind::Unavailable.to_u8())],
        }''',
  '''match m.result {
            QueryIntrospectionResult::Ok(v) => Some(v),
            QueryIntrospectionResult::Unavailable => None,
        }'''),
 ('call_function_reply', 'CallFunctionReply', [('enum', 'CallFunctionResult'), ('enum', 'CallFunctionReplyKind')],
  ['CallFunctionReplyKind'],
  '''match m.result {
            CallFunctionResult::Ok(_) => seq![Field::U32(m.serial), Field::Disc(CallFunctionReplyKind::Ok.to_u8())],
            CallFunctionResult::Err(_) => seq![Field::U32(m.serial), Field::Disc(CallFunctionReplyKind::Err.to_u8())],
            CallFunctionResult::Aborted => seq![Field::U32(m.serial), Field::Disc(CallFunctionReplyKind::Aborted.to_u8())],
            CallFunctionResult::InvalidService => seq![Field::U32(m.serial), Field::Disc(CallFunctionReplyKind::InvalidService.to_u8())],
            CallFunctionResult::InvalidFunction => seq![Field::U32(m.serial), Field::Disc(CallFunctionReplyKind::InvalidFunction.to_u8())],
            CallFunctionResult::InvalidArgs => seq![Field::U32(m.serial), Field::Disc(CallFunctionReplyKind::InvalidArgs.to_u8())],
        }''',
  '''match m.result {
            CallFunctionResult::Ok(v) => Some(v),
            CallFunctionResult::Err(v) => Some(v),
            _ => None,
        }'''),
]

PRELUDE = open(os.path.join(HERE, 'units', '_shared', 'message_model.rs')).read() if os.path.exists(os.path.join(HERE, 'units', '_shared', 'message_model.rs')) else ''

out = []
out.append('''// unit: core_messages   property: C08 (per-kind message codecs at the level of the field sequence)
// GENERATED by tools/gen_core_messages.py from the table in that file; repo text enters only via //@item / //@fn.
// The per-kind `serialize_message` / `deserialize_message` functions are verified verbatim against ASSUMED contracts of
// the field primitives (MessageSerializer / Message{Without,With}ValueDeserializer), modelled as writers / readers of a
// sequence of typed fields plus an opaque value. Proved per kind: the serializer writes kind K, exactly enc(m) and the
// value of m unchanged; the parser accepts exactly the frames of kind K whose field sequence is enc(m) for some m, with
// nothing left over, and returns that m with the identical value (round trip + strictness). NOT proved here: the byte
// level (frame header / length prefix, varint and uuid bytes, splitting the value off the frame).
use vstd::prelude::*;

verus! {

//@include _shared/message_model.rs

//@item core/src/channel_end.rs enum ChannelEnd
//@item core/src/channel_end.rs enum ChannelEndWithCapacity

''')
seen = {'ChannelEnd', 'ChannelEndWithCapacity'}
discs = set()
def items_text(f, items):
    t = ''
    for k, n in items:
        if n in seen:
            continue
        seen.add(n)
        t += f"//@item core/src/message/{f}.rs {k} {n}\n"
    return t
for f, st, items, dl, enc in PLAIN:
    discs.update(dl)
    out.append(f"// ---- {st} ({f}.rs) " + "-" * 60 + "\n")
    out.append(items_text(f, items))
    out.append(f"//@item core/src/message/{f}.rs struct {st}\n\n")
    out.append(f"""impl {st} {{
    // wire format of this kind as a field sequence
    spec fn enc(m: {st}) -> Seq<Field> {{
        {enc}
    }}

    //@fn core/src/message/{f}.rs MessageOps@{st}::serialize_message
        ensures
            r is Ok,
            frame_kind(r->Ok_0) == MessageKind::{st},
            frame_fields(r->Ok_0) == {st}::enc(self),
    //@end

    //@fn core/src/message/{f}.rs MessageOps@{st}::deserialize_message
        ensures
            // round trip: every frame the serializer can produce parses back to the same message
            forall|m: {st}| frame_kind(buf) == MessageKind::{st} && frame_fields(buf) == #[trigger] {st}::enc(m)
                ==> r == Ok::<{st}, MessageDeserializeError>(m),
            // strictness: only frames of this kind with a well-formed field sequence and nothing left over are accepted,
            // and what is accepted re-serializes to the same fields
            r is Ok ==> frame_kind(buf) == MessageKind::{st} && frame_fields(buf) == {st}::enc(r->Ok_0),
    //@end
}}

""")
for f, st, items, dl, encf, encv in VALUED:
    discs.update(dl)
    out.append(f"// ---- {st} ({f}.rs), carries a value " + "-" * 44 + "\n")
    out.append(items_text(f, items))
    out.append(f"//@item core/src/message/{f}.rs struct {st}\n\n")
    out.append(f"""impl {st} {{
    spec fn enc(m: {st}) -> Seq<Field> {{
        {encf}
    }}

    // the value the message carries (None: this alternative carries no value)
    spec fn enc_value(m: {st}) -> Option<SerializedValue> {{
        {encv}
    }}

    //@fn core/src/message/{f}.rs MessageOps@{st}::serialize_message
        ensures
            r is Ok ==> {{
                &&& frame_kind(r->Ok_0) == MessageKind::{st}
                &&& frame_has_value(r->Ok_0)
                &&& frame_fields(r->Ok_0) == {st}::enc(self)
                // the payload is put into the frame unchanged
                &&& ({st}::enc_value(self) is Some ==> frame_value(r->Ok_0) == {st}::enc_value(self)->Some_0)
            }},
            // serialization can only fail for an invalid (empty) payload
            r is Err ==> {st}::enc_value(self) is Some,
    //@end

    //@fn core/src/message/{f}.rs MessageOps@{st}::deserialize_message
        ensures
            // round trip with identical payload
            forall|m: {st}| frame_kind(buf) == MessageKind::{st} && frame_has_value(buf)
                && frame_fields(buf) == #[trigger] {st}::enc(m)
                && ({st}::enc_value(m) is Some ==> frame_value(buf) == {st}::enc_value(m)->Some_0)
                ==> r == Ok::<{st}, MessageDeserializeError>(m),
            // strictness
            r is Ok ==> {{
                &&& frame_kind(buf) == MessageKind::{st}
                &&& frame_has_value(buf)
                &&& frame_fields(buf) == {st}::enc(r->Ok_0)
                &&& ({st}::enc_value(r->Ok_0) is Some ==> frame_value(buf) == {st}::enc_value(r->Ok_0)->Some_0)
            }},
    //@end
}}

""")
out.append("// discriminant enums (one byte on the wire)\n")
for d in sorted(discs):
    out.append(f"impl Disc for {d} {{\n    uninterp spec fn to_u8(self) -> u8;\n    uninterp spec fn from_u8(b: u8) -> Option<Self>;\n}}\n")
out.append("\n} // verus!\n\nfn main() {}\n")
open(os.path.join(HERE, 'units', 'core_messages', 'unit.rs'), 'w').write(''.join(out))
print('kinds:', len(PLAIN) + len(VALUED))
