#!/usr/bin/env python3
"""prints the markdown table of seeded changes from seeded/*/meta.json"""
import json, glob, os, re
rows = []
for d in sorted(glob.glob('/verif/seeded/*')):
    m = json.load(open(os.path.join(d, 'meta.json')))
    det = m.get('detected_by') or {}
    patch = open(os.path.join(d, 'patch.diff')).read()
    files = sorted(set(re.findall(r'^\+\+\+ b/(\S+)', patch, re.M)))
    fn = re.findall(r'^@@[^@]*@@\s*(.*)$', patch, re.M)
    where = ', '.join(files)
    if det.get('exit_code') == 1:
        obs = ', '.join('`%s`%s' % (v.get('obligation'), ' (counterexample replayed)' if v.get('counterexample_replayed') else '')
                        for v in det.get('violations', []))
        res = 'caught: ' + obs
    elif det.get('exit_code') == 2:
        res = 'undecided (exit 2): ' + (det.get('undecided') or ['?'])[0][:160]
    elif det.get('exit_code') == 0:
        res = '**missed**'
    else:
        res = 'not run'
    rows.append((os.path.basename(d), where, res))
print('| seed | file(s) changed | result of `./check <property> --tier quick` |')
print('|---|---|---|')
for r in rows:
    print('| %s | %s | %s |' % r)
