#!/bin/bash
# re-run the registered quick check of every stored seed whose property has Verus units (or all with ALL=1), 4 at a time
here=$(cd "$(dirname "$0")/.." && pwd)
cd "$here"
pat='^C(02|03|04|05|09|10|11|12)-'
[ -n "$ALL" ] && pat='^C'
ls seeded | grep -E "$pat" | xargs -P ${JOBS:-4} -I{} python3 tools/run_seed.py seeded/{}
