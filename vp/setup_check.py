#!/usr/bin/env python3
"""setup: nothing to build (python + installed verifiers); verify the tools answer, offline."""
import subprocess
import sys
import os
ok = True
for cmd in (['verus', '--version'], ['cargo', 'kani', '--version'], ['rsync', '--version']):
    try:
        p = subprocess.run(cmd, capture_output=True, text=True, timeout=120)
        print(' '.join(cmd), '->', (p.stdout or p.stderr).strip().splitlines()[0] if (p.stdout or p.stderr) else p.returncode)
        ok = ok and p.returncode == 0
    except Exception as e:
        print(' '.join(cmd), 'FAILED', e)
        ok = False
here = os.path.dirname(os.path.dirname(os.path.abspath(__file__)))
for d in ('evidence', 'replay', 'work'):
    os.makedirs(os.path.join(here, d), exist_ok=True)
sys.exit(0 if ok else 1)
