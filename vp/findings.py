"""known-findings.txt: one entry per line

  finding: property=<id> obligation=<obligation name> match=<substring of failing clause/message> :: <what fails>
  fixed: property=<id> <commit> <what failed>

`fixed:` lines suppress nothing. A `finding:` line turns exactly the violation it identifies into a
KNOWN-FINDING line; any other violation of the same property is still reported.
"""
import os
import re


def load(path):
    out = []
    if not os.path.exists(path):
        return out
    for ln in open(path):
        ln = ln.strip()
        if not ln.startswith('finding:'):
            continue
        m = re.match(r'finding:\s+property=(\S+)\s+obligation=(\S+)\s+match=(.*?)\s+::\s+(.*)$', ln)
        if m:
            out.append(dict(prop=m.group(1), obligation=m.group(2), match=m.group(3), what=m.group(4)))
    return out


def match(known, pid, v):
    d = v.get('detail', {})
    hay = ' '.join(str(d.get(k, '')) for k in ('clause', 'message', 'failed_checks', 'input'))
    for k in known:
        if k['prop'] == pid and k['obligation'] == v['obligation'] and k['match'] in hay:
            return f"{k['obligation']} {k['what']}"
    return None
