"""Which units decide which property. Per property: Verus units, Kani groups, trusted base, undecided clauses."""

TB_VERUS = [
    'Verus 0.2026.09.13 + Z3 (SMT encoding, rustc front end)',
    'vp/extract.py lexical normalisations N1-N4 and the desugarings N5-N13 (ref patterns -> bind + deref; `impl Iterator` return '
    'type of an assumed accessor -> CopyIter; `break v` in a tail loop -> return; `.map(Ctor)?`; assert_eq -> assert; bool `|=`/`&=` '
    '-> if; Option/Result::map and and_then closures inlined; `.iter()/.values()[.copied()].any/all(..)` -> the short-circuit loop; '
    '`Pin::new(&mut s).poll_next(cx)` -> `s.poll_next_unpin(cx)`) preserve meaning (DESIGN.md 3.1; counts reported per run); ghost '
    'text (loop invariants, proof blocks) is spliced into bodies in place and is erased at compile time',
]
TB_REGISTRY = [
    'contracts of Object / Service / ConnectionState / SerialMap / State methods are imported verbatim from the leaf units '
    'that verify them (//@fn-from)',
    'iterator accessors Object::services, Service::function_calls, Service::subscribed_conn_ids, ConnectionState::{objects, '
    'senders, ...} (`self.<set>.iter().copied()` and friends: iterator adapters are outside Verus) are ASSUMED to enumerate '
    'their set, each element once',
    'ConnectionId / cookies / UUIDs are opaque keys obeying the hash-key model; ConnectionId equality is identity of the '
    'numeric id (unit broker_conn_id proves ids of live connections are pairwise distinct)',
    'random UUIDv4 cookies: ASSUMED not to collide with a live cookie at the creation sites (explicit assume(..) after '
    'ObjectCookie::new_v4() / ServiceCookie::new_v4())',
    'messages on the wire are not part of the state model (ConnectionState::send has a precondition only): which reply '
    'variant is sent is NOT decided; decided is what the tables and the deferred-work queues (State) hold afterwards',
    'ProtocolVersion constants and ordering are modelled in the prelude (lexicographic (major, minor)); cfg(feature = '
    '"introspection") code is dropped by the extraction, cfg(feature = "statistics") code is kept where the unit says so',
]
TB_KANI = [
    'Kani 0.68 + CBMC 6.11 + CaDiCaL (bit-precise symbolic execution of the compiled MIR)',
    'sequential semantics; harness modules compiled into a scratch copy of /repo under cfg(kani)',
]
TB_CONN = [
    'ConnectionId is opaque: == is equality of ids, clone preserves the id (broker/src/conn_id.rs not verified)',
]

KANI_CORE_BUF = ('core/src/buf_ext.rs', 'kani/core/buf_ext_harness.rs')
KANI_CORE_KEY = ('core/src/tags/key_impl.rs', 'kani/core/key_impl_harness.rs')
KANI_CORE_DESER = ('core/src/deserializer.rs', 'kani/core/deserializer_harness.rs')
KANI_CORE_CONT = ('core/src/serializer.rs', 'kani/core/containers_harness.rs')
KANI_CORE_CONV = ('core/src/convert_value.rs', 'kani/core/convert_harness.rs')
KANI_CORE_BUS = ('core/src/bus_listener.rs', 'kani/core/bus_listener_harness.rs')
KANI_CORE_MSG = ('core/src/message.rs', 'kani/core/message_harness.rs')
KANI_CORE_PKT = ('core/src/message/packetizer.rs', 'kani/core/packetizer_harness.rs')
KANI_BROKER_ACC = ('broker/src/acceptor.rs', 'kani/broker/acceptor_harness.rs')
TB_STUB = ['kani::stub of bytes::BytesMut::reserve_inner by a function that asserts false: sound (reachability of the '
           'real function is a proof obligation), used to keep the re-allocation path out of the formula']

PROPS = {
    'C19': dict(
        level='proof',
        verus_units=['client_discoverer'],
        trusted_base=TB_VERUS + [
            'ObjectUuid / ObjectCookie / ServiceUuid / ServiceCookie are opaque Copy keys with structural equality and the hash-key '
            'model; vstd specifications of HashMap; assumed std specification of HashMap::get_mut',
            'the event stream handed to an entry is one the bus admits (creations of things that do not exist, destructions of '
            'things that do, with their current cookie; a service lives inside its object): that is C10 for the broker side and is a '
            'PRECONDITION here',
        ],
        assumptions=[
            'PARTIAL claim. Decided: the entry kind "one specific object, no services required" completely (fold step over the '
            'abstract bus); for the kinds with required services the local contracts of AnyObject::{object_created, '
            'object_destroyed, service_destroyed, service_created} and SpecificObjectWithServices::{service_destroyed, '
            'service_created} and both handle_event dispatch functions; for the two service_created handlers only the SOUNDNESS half: an object is reported only if every '
            'required service is present (vstd specifies HashMap::values() in one direction only: every value is yielded)',
        ],
        undecided_clauses=[
            'entry kinds with required services: that an object IS reported as soon as it carries all required services '
            '(completeness of `.values().all(..)`), and the fold step "mirrors the bus" for these kinds',
            'convergence once activity stops, the Stream implementation (poll_next, restart, current-only mode), pending '
            'notifications, lifetimes (Lifetime / LifetimeScope futures), wait_for / find: async, schedules - outside this family',
            'the dispatch Discoverer::handle_event over several entries (iterator adapters)',
        ],
        explanation='safety core of the discoverer for the simplest entry kind, on the verbatim text of '
                    'aldrin/src/discoverer/specific_without_services.rs: for an abstract bus (live objects and services) and ANY event '
                    'the bus admits, if the entry mirrors the bus before the event it mirrors the bus after it (it reports its object, '
                    'with the current cookie, exactly while the object exists), and it emits a Created / Destroyed event for its key '
                    'and the object id exactly when what it reports changes; induction over the stream gives "reports exactly the '
                    'objects that currently exist and match, one event per transition, in order". Plus local contracts of three '
                    'AnyObject handlers.',
    ),
    'C11': dict(
        level='proof',
        verus_units=['broker_channel', 'broker_service', 'broker_conn_state', 'broker_object', 'broker_serial_map', 'broker_bus_listener',
                     'broker_introspection',
                     'broker_handlers_channel', 'broker_handlers_registry', 'broker_handlers_subs', 'broker_handlers_routing',
                     'broker_handlers_bus_listener', 'broker_handlers_shutdown'],
        trusted_base=TB_VERUS + TB_REGISTRY + TB_CONN + [
            'BusListener::{specific_objects, specific_services} are ASSUMED '
            'without contract (iterator adapters with closures returning iterators): the unreachable!() arms inside '
            'specific_objects()/specific_services() are guarded by the cached flags, whose correctness (BusListener::flags_ok) IS '
            'proved for every listener in every reachable table (part of bl_inv), but the arms themselves are not checked',
        ],
        assumptions=[
            'panic-freedom is decided per verified handler: Verus proves every expect("inconsistent state"), unreachable!(), '
            'debug_assert!() and arithmetic overflow unreachable for ALL request parameters (stale, foreign, duplicate cookies and '
            'serials included) in every state that satisfies the invariants; the invariants are preserved by every verified '
            'handler. Handlers not verified (and so not covered): handle_event, handle_message (the dispatch itself), '
            'process_loop_result, emit_bus_event, and the four introspection handlers of a broker built WITH the introspection '
            'feature (register_introspection, query_introspection, query_introspection_reply, remove_introspection_conn: they rest '
            'on invariants of broker/src/introspection.rs that are not modelled); the variants without the feature are verified',
            'query_service_info expects SerializedValue::serialize(ServiceInfo) to succeed: ASSUMED',
            'introspection database (unit broker_introspection): IntrospectionEntry (all 10 functions) and IntrospectionDatabase::{new, '
            'len, register, get_mut} are verified: the index structure conn_id_idxs <-> conn_ids stays a bijection with at least one '
            'registered connection, so swap_remove, slice indexing, expect("inconsistent state") and the random choice over a '
            'non-empty range cannot panic; IntrospectionDatabase::{remove_conn, query_replied} (a retain closure with side effects; '
            'an enum holding &mut) are outside Verus. Vec::retain is assumed with a deliberately weak contract, the random source is '
            'assumed to return a value inside its (proved non-empty) range, #[derive(Default)] of the entry is assumed',
            'hangs: termination of the loops is proved for the for-loops over finite collections (Verus decreases on the '
            'iterator); the broker loop itself (async) is not',
        ],
        undecided_clauses=[
            'panics / wrong state in the handlers listed as not verified; the message dispatch (handle_message) and the '
            'deferred-work loop (process_loop_result)',
            'whether the broker answers, ignores or closes is read off the handler\'s result (Err closes the connection) and the '
            'tables; the reply on the wire is not in the state model',
            'a well-behaved connection is still served correctly afterwards: follows from invariant preservation for the verified '
            'handlers only',
        ],
        explanation='for 34 handlers and helpers of broker.rs on their verbatim text (channel, registry, subscription, call '
                    'routing, bus-listener, teardown) and the leaf structures they delegate to: under the registry / channel / '
                    'bus-listener invariants no expect(), unreachable!(), debug_assert!() or overflow can fire for ANY request - '
                    'stale or foreign cookies and serials, duplicates, out-of-state requests are answered, ignored or close the '
                    'sender - the invariants hold again afterwards, and the frame conditions state that objects, calls and '
                    'channels of other connections change only in the ways the contracts spell out',
    ),
    'C09': dict(
        level='proof',
        verus_units=['broker_state', 'broker_conn_id', 'broker_statistics', 'broker_handlers_shutdown', 'broker_handlers_registry', 'broker_handlers_subs', 'broker_handlers_routing',
                     'broker_handlers_bus_listener', 'broker_handlers_channel'],
        trusted_base=TB_VERUS + TB_REGISTRY + [
            'the helper contracts used by shutdown_connection are imported verbatim from the units that verify the helpers '
            '(remove_object: registry unit; remove_event_subscription, remove_all_events_subscription, remove_subscription: '
            'subscription unit; remove_bus_listener: bus-listener unit)',
        ],
        assumptions=[
            'precondition of shutdown_connection: registry, channel and bus-listener invariants in their strong form (every owner '
            'and subscriber is a connected client). Established by Broker::new and preserved by every verified handler of the '
            'registry, subscription, routing, channel and bus-listener units (all of them are dependencies of this check)',
            'statistics counters: the registry, subscription, channel, bus-listener and teardown units are verified with the '
            'cfg(feature = "statistics") code KEPT (only the attribute is dropped); the counters saturate, equality with the table '
            'sizes is claimed below usize::MAX entries; num_connections on connect (handle_event) is not verified',
        ],
        undecided_clauses=[
            'how a connection ends (clean shutdown, transport error, forced, task dropped): conn.rs is async code; decided is what '
            'Broker::shutdown_connection does once the broker loop learns of it',
            'every affected peer is notified once: notifications on the wire are not in the state model; decided for the queued '
            'ones (ServiceDestroyed / InvalidService / unsubscribe / abort entries of the loop state)',
            'messages_sent / messages_received counting (send / receive paths); broker shutdown message to every connection; idle-shutdown request '
            'completes (Broker::run, handle_event: async / closures)',
        ],
        explanation='Broker::shutdown_connection on its verbatim text (eight loops over the removed connection\'s lists, loop '
                    'invariants spliced in place): afterwards the connection is gone and NOTHING refers to it any more - no bus '
                    'listener, no object (hence none of its services and their pending calls), no per-event / all-events / service '
                    'subscription and no channel end - the tables satisfy the strong invariant again (every owner and subscriber '
                    'is a connected client), and exactly one abort is queued for every call the connection had pending. Lemma: '
                    'under that invariant a broker without connections holds no objects, services, calls, channels or listeners '
                    '(the debug_assert!s at the end of Broker::run). Statistics: every handler that inserts into / removes from the object, '
                    'service, channel or listener table keeps its counter equal to the table size, shutdown_connection re-establishes all '
                    'five counters.',
    ),
    'C03': dict(
        level='proof',
        verus_units=['broker_object', 'broker_handlers_registry'],
        trusted_base=TB_VERUS + TB_REGISTRY,
        assumptions=[
            'the registry invariant reg_inv is a precondition of every handler; it is preserved by every VERIFIED handler '
            '(create_object, destroy_object, create_service, create_service2, destroy_service, remove_object, remove_service, the '
            'read-only requests query_service_version, query_service_info, sync and the three handlers of a broker built without '
            'the introspection feature); the subscription, routing and teardown units verify their handlers under the same '
            'invariant text',
        ],
        undecided_clauses=[
            'which reply (ok / duplicate / invalid-object / foreign-object) goes on the wire: replies are outside the state '
            'model; decided instead: the tables change exactly when the bus state says the request is acceptable',
            'cookie never used before: freshness w.r.t. LIVE cookies is an assumption on the random generator',
        ],
        explanation='registry handlers of broker.rs on their verbatim text: the object tables (cookie->uuid, uuid->Object) and the '
                    'service tables (cookie->ids, (object uuid, service uuid)->Service) stay inverse to each other (at most one '
                    'live object per UUID, one live service per (object, service UUID)); an object or service is created only '
                    'for the connected owner when no live one has that UUID, and is destroyed only by its owner; destroying an '
                    'object removes all its services, their pending calls (one InvalidService per call not aborted) and queues '
                    'one ServiceDestroyed per connected subscriber; nothing belonging to another object or connection changes',
    ),
    'C14': dict(
        level='proof',
        verus_units=['core_packetizer'],
        kani=[dict(package='aldrin-core', injections=[KANI_CORE_PKT], jobs=5)],
        trusted_base=TB_VERUS + TB_KANI + [
            'Verus unit core_packetizer: bytes::BytesMut is MODELLED as a sequence of bytes (new, len, extend_from_slice, split_to, '
            'truncate, [..n], Buf::get_u32_le for &[u8], <[T] as AsRef<[T]>>::as_ref; contracts ASSUMED from the bytes documentation, '
            'with the panics of split_to / slicing / get_u32_le as preconditions)',
            'Kani harnesses: bytes crate verified as compiled (no stubs in these harnesses)',
        ],
        assumptions=[
            'DEDUCTIVE (Verus): the zero-copy interface Packetizer::{spare_capacity_mut, bytes_written} against a capacity model of '
            'BytesMut (capacity >= len, reserve, spare_capacity_mut, unsafe set_len): the slice handed out for writing is never '
            'empty (unconditionally, since fix b779ce8: this obligation found a genuine defect, see known-findings.txt) and the buffered '
            'bytes and the cached length are untouched; bytes_written keeps the buffered prefix and the '
            'invariant, given the unsafe contract (len within the spare capacity). What the written bytes ARE is the caller\'s.',
            'DEDUCTIVE (Verus, all stream lengths, all chunkings): Packetizer::{new, extend_from_slice, next_message} on their '
            'verbatim text against the framing written from the statement (first_frame / frames): next_message hands out exactly '
            'the first complete frame of the buffered bytes and keeps exactly what follows it, or nothing when no frame is '
            'complete; lemma_first_frame_append (a complete frame is not changed by later bytes) and lemma_frames_append (draining '
            'after s, then after t, yields the frames of s + t and the same remainder) give independence of the chunking',
            'BOUNDED (Kani, real BytesMut): a two-frame stream of 5+6 bytes with symbolic contents, every split point '
            'through extend_from_slice, one split point through spare_capacity_mut/bytes_written; one 6-byte frame fed '
            'byte by byte; a short length prefix',
        ],
        undecided_clauses=[
            'that the real BytesMut behaves like the sequence / capacity model (the bounded Kani harnesses exercise it on small '
            'streams); initialisation of the bytes written through the zero-copy interface (the unsafe contract is the caller\'s)',
            'the stream transports TokioTransport / Buffered (Pin-projected poll functions over async I/O objects)',
        ],
        explanation='framing proved for all streams and all ways of cutting them into chunks, on the verbatim Packetizer functions '
                    'against a byte-sequence model of BytesMut (Verus); the same behaviour checked on the real BytesMut for a '
                    'bounded family of streams and split points through both input interfaces (Kani, bounded, not counted as proved).',
    ),
    'C08': dict(
        level='proof',
        verus_units=['core_messages'],
        kani=[dict(package='aldrin-core', injections=[KANI_CORE_BUF, KANI_CORE_MSG], jobs=4)],
        trusted_base=TB_VERUS + TB_KANI + TB_STUB + [
            'field-sequence model of MessageSerializer / Message{With,Without}ValueDeserializer (units/_shared/message_model.rs): '
            'put_*/try_get_* append/pop typed fields, finish()/new() relate a frame to (kind, fields, value); ASSUMED '
            '(the byte level of the u32 varint and discriminant fields is proved by the C08.msg_* Kani obligations; frame '
            'header, length prefix and value splitting are NOT proved: BytesMut growth / split_off are out of CBMC\'s reach)',
            'num_enum derives (IntoPrimitive / TryFromPrimitive) are inverse to each other',
        ],
        assumptions=['round trip + strictness for 61 of the 63 kinds (34 of them have parsers of the form `.map(Constructor)?`, '
                     'desugared by the extractor: normalisation N8), incl. the bus-listener filter codec; 2 kinds not covered '
                     '(ConnectReply: an enum whose discriminant type shares its name with ConnectReply2\'s; EmitBusEvent: `.into()` '
                     'conversions)'],
        undecided_clauses=[
            'byte level of whole frames: 4-byte length prefix equals the frame length, strict parsing of arbitrary bytes',
            'ConnectReply and EmitBusEvent; the Message dispatcher',
        ],
        explanation='per message kind, on the verbatim functions: (61 of 63 kinds) serialize_message writes the kind, exactly '
                    'the kind\'s field sequence and the payload unchanged; deserialize_message (all 61) accepts exactly the '
                    'frames of that kind whose field sequence is the encoding of some message, with nothing left over, and '
                    'returns that message with the identical payload (round trip and strictness at the level of fields, '
                    'against an assumed field-sequence model of the primitives); MessageBufExt varint/discriminant bytes (Kani)',
    ),
    'C02': dict(
        level='proof',
        verus_units=['broker_serial_map', 'broker_object', 'broker_state', 'broker_handlers_routing', 'broker_handlers_registry',
                     'broker_handlers_shutdown', 'client_function_call_map'],
        trusted_base=TB_VERUS + TB_REGISTRY + TB_CONN + [
            'contracts of SerialMap / Object / Service / ConnectionState / State methods are imported verbatim from the units '
            'that verify them (//@fn-from), and those units are re-verified as dependencies of this check',
            'vstd specs of HashMap, Option, hash_map::OccupiedEntry; assumed std spec of HashMap::get_mut',
        ],
        assumptions=[
            'all handlers are verified under ONE invariant text (units/_shared/registry_inv.rs); process_loop_result, which turns '
            'the queued (caller serial, caller, InvalidService) entries and abort entries into messages, is NOT verified (a loop '
            'over pop_* calls whose sends need invariants of the work queues)',
            'whether a message is actually put on the wire is not part of the state model (ConnectionState::send has '
            'preconditions only); "delivered" is read off the caller\'s pending-call entry being consumed',
            'client side (unit client_function_call_map): the client allocates a caller serial under which it has nothing pending, '
            'hands out the reply channel exactly once and only for a call it has not aborted; FunctionCallMap::poll_aborted '
            '(iter_mut + oneshot polling) is not verified',
        ],
        undecided_clauses=[
            'the step from the deferred-reply / abort queues to the wire (process_loop_result)',
            'the payload is forwarded unchanged (messages are opaque in the state model)',
            'SerialMap::insert termination (it spins when all 2^32 serials are pending)',
        ],
        explanation='routing (call_function_impl, call_function, call_function2): a call is recorded under a fresh callee serial, in '
                    'the service\'s set and in the caller\'s table as (callee serial, owner), nothing else changes; a reused caller '
                    'serial closes the caller and leaves no trace. Replies and aborts (call_function_reply, abort_call, '
                    'abort_function_call): a reply is accepted exactly from the owner of the called object for a pending serial, '
                    'consumes the pending call once, and does not touch the caller\'s entry when the call was aborted; abort marks '
                    'once. Destruction (remove_service): exactly the service\'s pending calls leave the table and one InvalidService '
                    'entry per call not aborted is queued. Caller disconnect (shutdown_connection): one abort entry per pending call. '
                    'All proved under a table invariant that also discharges the handlers\' expect("inconsistent state") sites.',
    ),
    'C10': dict(
        level='proof',
        verus_units=['broker_bus_listener', 'broker_handlers_bus_listener', 'client_bus_listener'],
        kani=[dict(package='aldrin-core', injections=[KANI_CORE_BUS], jobs=4)],
        trusted_base=TB_VERUS + TB_KANI + ['BusListenerFilter is an opaque hashable key in the Verus unit (key-model axiom)'],
        assumptions=['BusListener::{matches_object, matches_service, matches_new_event} are verified against the plain filter '
                     'semantics (some filter of the set matches; started with a scope that includes new entities); the '
                     'specific-filter enumeration BusListener::{specific_objects, specific_services} (lazy filter_map iterators) is '
                     'assumed without contract; emit_bus_event and process_loop_result are not verified'],
        undecided_clauses=[
            'that exactly the matching current entities are enumerated, per-connection de-duplication, event ordering',
        ],
        explanation='filter predicate equals its specification for all six filter shapes, all ids and all four bus '
                    'events (Kani, complete); listener start/stop state machine and flag reset (Verus); handler layer: only the '
                    'owning connection can create, destroy, start, stop or change the filters of a listener, a new listener is not '
                    'started, start succeeds once, a destroyed listener is gone, a stopped one is not started; tagged bus events and '
                    'the end-of-current marker are only sent to the listener\'s owner (precondition of send) (Verus, against the '
                    'contracts of BusListener and ConnectionState)',
    ),
    'C12': dict(
        level='proof',
        verus_units=['broker_handlers_routing', 'broker_handlers_subs', 'broker_handlers_registry'],
        kani=[dict(package='aldrin-broker', injections=[KANI_BROKER_ACC], jobs=2),
              dict(package='aldrin-core', injections=[KANI_CORE_CONV], jobs=4)],
        trusted_base=TB_KANI + TB_VERUS + ['derived PartialOrd of ProtocolVersion = lexicographic order (assumed in the Verus '
                                           'unit; the real derive is exercised for all values by C12.epoch_mapping)'],
        assumptions=['convert(): the current->legacy case is excluded from the identity-rule harness (covered by C13)'],
        undecided_clauses=[
            'version gates other than call_function2 / abort_function_call / the AbortFunctionCall send in abort_call '
            '(the other gated handlers use ref patterns), down-translation in call_function_impl / create_service2',
            'client-side check of the negotiated version (inline in an async fn of aldrin/src/client_builder.rs)',
            'cross-version payload traffic (C13 decides the converter on bounded shapes only)',
        ],
        explanation='handshake acceptance and negotiated version = min(client, 1.20) for all (major, minor, connect '
                    'kind); epoch of every version; conversion identity rule for all version pairs; handler level: a '
                    'connection below 1.19 / 1.16 using CallFunction2 / AbortFunctionCall is closed, and every send in the '
                    'verified handlers satisfies "message kind exists in the receiver\'s negotiated version" (precondition of send)',
    ),
    'C13': dict(
        level='proof',
        kani=[dict(package='aldrin-core', injections=[KANI_CORE_CONV, KANI_CORE_KEY], jobs=6)],
        trusted_base=TB_KANI + TB_STUB,
        assumptions=[],
        undecided_clauses=[
            'container arms beyond the bounded shapes (<= 2 elements, concrete varint ids/keys, nesting depth <= 3): '
            'unbounded element counts, arbitrary nesting, symbolic varint lengths',
            'strings; object/service id arms; arbitrary malformed bytes (the walker with symbolic kind bytes)',
        ],
        explanation='epoch mapping and InvalidVersion exactly outside 1.14..1.20; same/newer epoch returns the input '
                    'unchanged; key re-encoding = decode then encode for every integer/uuid key type on all inputs; '
                    'every scalar arm of the converter = typed decode then canonical encode on all inputs; depth limit; '
                    'container arms on bounded shapes: terminated vec/bytes/map/set/struct (nested, multi-segment bytes, under '
                    'Some/Enum) become exactly the counted encodings, legacy containers pass unchanged, the output converts '
                    'to itself, malformed terminated containers are rejected, nesting boundary 30/31 as in the codec',
    ),
    'C01': dict(
        level='proof',
        kani=[dict(package='aldrin-core', injections=[KANI_CORE_BUF, KANI_CORE_KEY, KANI_CORE_DESER, KANI_CORE_CONT],
                   jobs=5, harness_timeout_thorough=3600)],
        trusted_base=TB_KANI + TB_STUB + ['bytes crate (Buf for &[u8], BytesMut) is verified as compiled'],
        assumptions=['container obligations are bounded to 2 elements (labelled bounded, not counted as proved)'],
        undecided_clauses=[
            'impl Serialize/Deserialize<tags::Value> for Value (43-way dispatch over HashMap-backed maps/sets)',
            'unbounded element counts; strings (Buf::copy_to_bytes builds a BytesMut: out of CBMC\'s reach here)',
            'nesting chains to depth 32/33 through real container types',
        ],
        explanation='contract harnesses on the real varint/zigzag primitives, scalar (de)serializers (all values, '
                    'bit-for-bit), depth counter, key codecs and (bounded) both container epochs',
    ),
    'C07': dict(
        level='proof',
        kani=[dict(package='aldrin-core', injections=[KANI_CORE_BUF, KANI_CORE_KEY, KANI_CORE_DESER, KANI_CORE_CONT], jobs=5)],
        trusted_base=TB_KANI + TB_STUB + ['bytes crate (Buf for &[u8], BytesMut) is verified as compiled'],
        assumptions=['primitives read at most N+1 bytes, so slice lengths beyond N+2 add no behaviour (argued, not '
                     'machine-checked)'],
        undecided_clauses=['allocation bound (CBMC has no allocation accounting)',
                           'recursive walkers on unbounded inputs'],
        explanation='contract harnesses (assume-pre/assert-post) on the real bounds-checked primitives and key '
                    'skipping/decoding functions over fully symbolic byte slices',
    ),
    'C04': dict(
        level='proof',
        verus_units=['broker_service', 'broker_conn_state', 'client_broker_subscriptions', 'broker_handlers_subs'],
        trusted_base=TB_VERUS + [
            'ConnectionId and the UUID cookie newtypes are opaque keys whose Hash/Eq obey vstd\'s key model '
            '(obeys_key_model axioms; justified by conn_id.rs / ids.rs deriving both from the same field)',
            'vstd specifications of std HashMap / HashSet / hash_map::Entry; assumed std specifications of '
            'HashMap::get_mut and Entry::or_default (+ HashSet::default() is empty, derive(Default) of the client\'s Service)',
        ],
        assumptions=[
            'handler layer (unit broker_handlers_subs, ten functions of broker.rs on their verbatim text): subscribe_event, '
            'unsubscribe_event, subscribe_service, unsubscribe_service, subscribe_all_events, unsubscribe_all_events, '
            'remove_event_subscription, remove_all_events_subscription, remove_subscription, emit_event are verified under the shared '
            'registry invariant; a subscription is recorded on BOTH sides (service and connection) or not at all',
            'that the 0->1 / 1->0 signal is put on the wire to the owner is a send (not in the state model); decided is that the '
            'deferred unsubscribe notification is QUEUED exactly on the last-subscriber transition, and where an EmitEvent may go '
            '(precondition of send: only to a connection subscribed to that event or to all events of the service)',
        ],
        undecided_clauses=[
            'that every subscribed connection actually receives an emitted event; de-duplication inside '
            'Service::subscribed_conn_ids (assumed accessor: HashSet extend over flatten)',
            'client-side subscription bookkeeping (aldrin/src/client/*.rs) beyond unit client_broker_subscriptions',
        ],
        explanation='every subscribe/unsubscribe operation of Service returns true exactly when the subscriber set of '
                    'that event (or of all-events) changes between empty and non-empty, with the whole-state frame; '
                    'induction over any history follows from the invariant. The per-connection mirror is proved '
                    'against its set view.',
    ),
    'C05': dict(
        level='proof',
        verus_units=['broker_channel', 'broker_handlers_channel', 'broker_conn_id', 'client_channel_receiver'],
        trusted_base=TB_VERUS + TB_CONN + ['std::mem::replace specification'],
        assumptions=[
            'all seven channel functions of broker.rs are verified (create_channel, claim_channel_end, close_channel_end, '
            'add_channel_capacity, send_item, remove_channel_end; shutdown_connection in the teardown unit); the closures of '
            'claim_channel_end / remove_channel_end are inlined by the extractor (normalisation N11)',
        ],
        undecided_clauses=[
            'in-order exactly-once delivery of ItemReceived on the wire (handler layer + transport)',
            'that a notification is actually put on the wire and arrives (messages are not in the state model); decided instead: '
            'WHERE each channel message may go (precondition of send: ItemReceived / ChannelEndClaimed / ChannelEndClosed / '
            'AddChannelCapacity only to the connection holding the right end)',
            'client-side mirrors under schedules; decided for one step each (unit client_channel_receiver): '
            'Receiver::poll_next_serialized keeps its credit mirror equal to the outstanding credit (ghost histories: granted - taken) and '
            'within (0, max], and grants exactly max - remaining (>= 1) at or below the low-water mark (RawChannel::add_channel_capacity '
            'is MODELLED with &mut self so that the grant history can advance), Sender::start_send_serialized uses one unit only when the item was handed over; '
            'Sender::poll_send_ready / poll_receiver_closed add announced capacity with `+=` (an overflow there would need the '
            'broker to announce more than u32::MAX in total, which Channel::add_capacity rules out on the broker side; the link is '
            'not proved)',
        ],
        explanation='inductive invariant + per-operation pre/postconditions on the verbatim text of '
                    'broker/src/broker/channel.rs (credit accounting, end state machine); handler layer: '
                    'Broker::{send_item, add_channel_capacity, close_channel_end} verified against the contracts of Channel and '
                    'ConnectionState under a cross-structure invariant (over-capacity sender loses only its own end, overflowing '
                    'grant closes only the receiver, only the owner closes); the id allocator behind ConnectionId hands out '
                    'pairwise distinct ids. All discharged by Verus for all states and all histories of verified operations',
    ),
}
