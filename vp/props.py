"""Which units decide which property. Per property: Verus units, Kani groups, trusted base, undecided clauses."""

TB_VERUS = [
    'Verus 0.2026.09.13 + Z3 (SMT encoding, rustc front end)',
    'vp/extract.py lexical normalisations N1-N4 preserve meaning (counts reported per run)',
]
TB_KANI = [
    'Kani 0.68 + CBMC 6.11 + CaDiCaL (bit-precise symbolic execution of the compiled MIR)',
    'sequential semantics; harness modules compiled into a scratch copy of /repo under cfg(kani)',
]
TB_CONN = [
    'ConnectionId is opaque: == is equality of ids, clone preserves the id (broker/src/conn_id.rs not verified)',
]

PROPS = {
    'C05': dict(
        level='proof',
        verus_units=['broker_channel'],
        trusted_base=TB_VERUS + TB_CONN + ['std::mem::replace specification'],
        assumptions=[
            'callers (Broker::{send_item, add_channel_capacity, claim_channel_end, close_channel_end, '
            'remove_channel_end, create_channel}) establish inv/live and act on results as specified: NOT verified '
            '(handler layer is outside Verus\'s accepted subset)',
        ],
        undecided_clauses=[
            'in-order exactly-once delivery of ItemReceived on the wire (handler layer + transport)',
            'peer notification fan-out in Broker::remove_channel_end / claim_channel_end',
            'client-side Sender/Receiver mirrors (aldrin/src/low_level/channel/established.rs) under schedules',
        ],
        explanation='inductive invariant + per-operation pre/postconditions on the verbatim text of '
                    'broker/src/broker/channel.rs, discharged by Verus for all states and all histories',
    ),
}
