#!/usr/bin/env python3
"""Run the Kani harnesses of one property against a scratch copy of /repo's working tree.

Harness files live in /verif/kani/<crate>/*.rs. Each harness is announced by a header line

  // obligation: <Cxx.name> | harness: <fn name> | kind: complete|bounded | bound: <text> | tier: quick|thorough

`kind: complete` is only used when all inputs are kani::any() over their full type, every reachable loop is
bounded by a compile-time constant and unwinding assertions are on (they always are here), and there is no
kani::assume beyond type invariants. Everything else is `bounded` and counted separately.
"""
import json
import os
import re
import shutil
import subprocess
import tempfile
import threading
import time

HERE = os.path.dirname(os.path.dirname(os.path.abspath(__file__)))

HDR = re.compile(r'^//\s*obligation:\s*(?P<ob>\S+)\s*\|\s*harness:\s*(?P<h>\S+)\s*\|\s*kind:\s*(?P<kind>\S+)\s*\|'
                 r'\s*bound:\s*(?P<bound>.*?)\s*\|\s*tier:\s*(?P<tier>\S+)\s*(?:\|\s*timeout:\s*(?P<to>\d+))?\s*$')


class KaniResult:
    def __init__(self):
        self.cmds = []
        self.info = {}
        self.assumptions = []
        self.obligations = []
        self.undecided = []
        self.violations = []


def parse_headers(path):
    out = []
    with open(path) as f:
        for ln in f:
            m = HDR.match(ln.strip())
            if m:
                d = m.groupdict()
                out.append(dict(obligation=d['ob'], harness=d['h'], kind=d['kind'], bound=d['bound'],
                                tier=d['tier'], timeout=int(d['to']) if d['to'] else None, file=path))
    return out


def _scan_assumes(path):
    res = []
    with open(path) as f:
        for i, ln in enumerate(f, 1):
            if re.search(r'kani::assume\s*\(|kani::stub|#\[kani::stub', ln) and not ln.strip().startswith('//'):
                res.append(f'{os.path.relpath(path, HERE)}:{i}: {" ".join(ln.split())}')
    return res


def make_scratch(repo):
    d = tempfile.mkdtemp(prefix='aldrin-kani-', dir='/tmp')
    subprocess.run(['rsync', '-a', '--exclude', 'target', '--exclude', '.git', repo.rstrip('/') + '/', d + '/'],
                   check=True)
    return d


class _Watchdog(threading.Thread):
    """kills cbmc processes whose RSS exceeds the limit (GB)"""

    def __init__(self, limit_gb):
        super().__init__(daemon=True)
        self.limit_kb = int(limit_gb * 1024 * 1024)
        self.stop = False
        self.killed = []

    def run(self):
        while not self.stop:
            try:
                out = subprocess.run(['ps', '-eo', 'pid,rss,comm'], capture_output=True, text=True).stdout
                for ln in out.splitlines()[1:]:
                    p = ln.split(None, 2)
                    if len(p) == 3 and p[2].strip() in ('cbmc', 'kissat', 'cadical') and int(p[1]) > self.limit_kb:
                        subprocess.run(['kill', '-9', p[0]])
                        self.killed.append(p[0])
            except Exception:
                pass
            time.sleep(3)


def run(pid, kspec, tier, seed, repo, work):
    R = KaniResult()
    groups = kspec if isinstance(kspec, list) else [kspec]
    infos = []
    scratch = None
    t_all = time.time()
    try:
        scratch = make_scratch(repo)
        for g in groups:
            _run_group(R, pid, g, tier, seed, scratch, infos)
    finally:
        if scratch:
            shutil.rmtree(scratch, ignore_errors=True)
    R.info = dict(unit='kani', engine='kani 0.68 / cbmc 6.11', groups=infos, wall_s=round(time.time() - t_all, 2))
    return R


def _run_group(R, pid, g, tier, seed, scratch, infos):
    pkg = g['package']
    harnesses = []
    for k, (modfile, hfile) in enumerate(g['injections']):
        src = os.path.join(HERE, hfile)
        if not os.path.exists(os.path.join(scratch, modfile)):
            R.undecided.append(f'kani: anchor lost: module file {modfile} missing')
            return
        modname = 'verif_kani_' + re.sub(r'[^a-z0-9]+', '_', os.path.basename(hfile).replace('.rs', ''))
        dst = os.path.join(scratch, os.path.dirname(modfile), modname + '_injected.rs')
        shutil.copy(src, dst)
        with open(os.path.join(scratch, modfile), 'a') as f:
            f.write(f'\n#[cfg(kani)]\n#[path = "{dst}"]\nmod {modname};\n')
        for h in parse_headers(src):
            if h['obligation'].startswith(pid + '.'):
                h['module'] = modname
                harnesses.append(h)
        R.assumptions.extend(_scan_assumes(src))
    sel = [h for h in harnesses if tier == 'thorough' or h['tier'] == 'quick']
    only = os.environ.get('VERIF_ONLY')  # development aid: restrict to obligations matching a regex
    if only:
        sel = [h for h in sel if re.search(only, h['obligation'])]
        R.undecided.append(f'kani: VERIF_ONLY={only} set: partial run, not a decision')
    info = dict(package=pkg, harness_files=[h for _, h in g['injections']], harnesses_defined=len(harnesses),
                harnesses_selected=len(sel), tier=tier)
    infos.append(info)
    if not sel:
        R.undecided.append(f'kani: no harness selected for {pid} in {pkg}')
        return
    to = g.get('harness_timeout_' + tier, g.get('harness_timeout', 600 if tier == 'quick' else 1800))
    if os.environ.get('VERIF_ONLY') and os.environ.get('VERIF_HARNESS_TIMEOUT'):
        to = int(os.environ['VERIF_HARNESS_TIMEOUT'])  # development aid, partial runs only
    jobs = g.get('jobs', 12)
    res_json = os.path.join(scratch, f'kani_results_{pkg}.json')
    log = os.path.join(scratch, f'kani_{pkg}.log')
    cmd = ['cargo', 'kani', '-p', pkg, '-Z', 'function-contracts', '-Z', 'stubbing', '-Z', 'unstable-options',
           '--harness-timeout', f'{to}s', '--export-json', res_json, '--output-format', 'terse', '-j', str(jobs),
           '--exact']
    cmd += g.get('extra_args', [])
    # exact names are module paths; we do not know the parent path syntactically -> use non-exact filter by fn name
    cmd.remove('--exact')
    for h in sel:
        cmd += ['--harness', h['harness']]
    env = dict(os.environ)
    env['CARGO_NET_OFFLINE'] = 'true'
    env['CARGO_TARGET_DIR'] = os.path.join(scratch, 'target')
    R.cmds.append('CARGO_NET_OFFLINE=true ' + ' '.join(c for c in cmd[:14]) + f' --harness <{len(sel)} harnesses> (scratch copy of /repo working tree)')
    wd = _Watchdog(g.get('mem_gb', 20))
    wd.start()
    t0 = time.time()
    overall = to * max(1, (len(sel) + jobs - 1) // jobs) + 900
    try:
        with open(log, 'w') as lf:
            p = subprocess.run(cmd, cwd=scratch, env=env, stdout=lf, stderr=subprocess.STDOUT, timeout=overall)
        rc = p.returncode
    except subprocess.TimeoutExpired:
        rc = -9
        subprocess.run(['pkill', '-9', 'cbmc'])
    wd.stop = True
    info['wall_s'] = round(time.time() - t0, 2)
    info['rc'] = rc
    logtxt = open(log, errors='replace').read() if os.path.exists(log) else ''
    if 'could not compile' in logtxt or 'error[E' in logtxt:
        errs = re.findall(r'^(error(?:\[E\d+\])?: .*)$', logtxt, re.M)[:4]
        R.undecided.append(f'kani: harness crate does not compile against the current tree (anchor lost?): {errs}')
        return
    js = {}
    if os.path.exists(res_json):
        try:
            js = json.load(open(res_json))
        except Exception:
            js = {}
    results = {}
    for r in js.get('verification_results', {}).get('results', []):
        results[r['harness_id'].split('::')[-1]] = r
    pdet = {d['harness_id'].split('::')[-1]: d['property_details'] for d in js.get('property_details', [])}
    for h in sel:
        r = results.get(h['harness'])
        ob = dict(name=h['obligation'], engine='kani/cbmc', kind=h['kind'], bound=h['bound'], ok=False, time_s=0.0,
                  harness=h['harness'])
        R.obligations.append(ob)
        if r is None:
            R.undecided.append(f"kani: {h['obligation']} ({h['harness']}): no result (timeout {to}s, out of memory "
                               f"or tool failure; killed={wd.killed})")
            continue
        ob['time_s'] = round(r.get('duration_ms', 0) / 1000.0, 2)
        pd = pdet.get(h['harness'], {})
        ob['checks'] = pd.get('total_properties', len(r.get('checks', [])))
        failed = [c for c in r.get('checks', []) if c.get('status') not in ('Success', 'Unreachable', 'Satisfied',
                                                                              'Covered')]
        unsupported = [c for c in failed if c.get('status') == 'Failure' and (
                       'not currently supported by Kani' in c.get('description', '')
                       or c.get('category') == 'unsupported_construct'
                       or 'is not supported' in c.get('description', '')
                       or 'Kani does not support' in c.get('description', ''))]
        real_fail = [c for c in failed if c.get('status') == 'Failure' and 'unwinding assertion' not in c.get('description', '')]
        if unsupported:
            # a construct Kani cannot execute was reachable: everything after it is meaningless -> undecided
            R.undecided.append(f"kani: {h['obligation']}: reachable construct unsupported by Kani "
                               f"({[c.get('description', '')[:120] for c in unsupported[:2]]})")
            continue
        unwind_fail = [c for c in failed if 'unwinding assertion' in c.get('description', '')]
        cover_unsat = [c for c in failed if c.get('status') in ('Unsatisfiable', 'Uncovered')]
        other = [c for c in failed if c not in real_fail and c not in unwind_fail and c not in cover_unsat]
        if r.get('status') == 'Success' and not failed:
            if ob['checks'] == 0:
                R.undecided.append(f"kani: {h['obligation']}: zero checks generated")
            else:
                ob['ok'] = True
            continue
        real_fail = [c for c in real_fail if c not in unsupported]
        if unwind_fail and real_fail:
            # beyond an insufficient unwinding bound CBMC's other verdicts are not meaningful
            R.undecided.append(f"kani: {h['obligation']}: unwinding bound too small "
                               f"({[c.get('description') for c in unwind_fail[:3]]})")
            continue
        if real_fail:
            fc = [f"{c.get('description')} @ {c.get('location', {}).get('file')}:{c.get('location', {}).get('line')} in {c.get('function')}"
                  for c in real_fail[:8]]
            detail = dict(failed_checks=fc, message='; '.join(fc[:3]), clause=fc[0], harness=h['harness'],
                          src_loc=f"{real_fail[0].get('location', {}).get('file')}:{real_fail[0].get('location', {}).get('line')}",
                          log_tail='')
            detail['playback'] = _playback(scratch, pkg, h, env)
            R.violations.append(dict(obligation=h['obligation'], engine='kani', unit=pkg, detail=detail))
        elif cover_unsat:
            R.undecided.append(f"kani: {h['obligation']}: vacuity guard: cover property unsatisfiable "
                               f"({[c.get('description') for c in cover_unsat[:3]]})")
        elif unwind_fail:
            R.undecided.append(f"kani: {h['obligation']}: unwinding bound too small "
                               f"({[c.get('description') for c in unwind_fail[:3]]})")
        elif not failed:
            R.undecided.append(f"kani: {h['obligation']}: no verdict after {ob['time_s']} s (CBMC timed out, ran out of "
                               f"memory or crashed; harness timeout {to} s)")
        else:
            R.undecided.append(f"kani: {h['obligation']}: status {r.get('status')} "
                               f"{[(c.get('status'), c.get('description')) for c in other[:3]]}")


def _playback(scratch, pkg, h, env):
    """concrete playback of a failed harness against the real crate (scratch copy = current tree)"""
    out = dict(reproduced=False, test_source=None, result=None)
    try:
        cmd = ['cargo', 'kani', '-p', pkg, '-Z', 'function-contracts', '-Z', 'stubbing', '-Z', 'concrete-playback',
               '--concrete-playback=print', '--harness', h['harness'], '--output-format', 'terse']
        p = subprocess.run(cmd, cwd=scratch, env=env, capture_output=True, text=True, timeout=1800)
        txt = p.stdout
        # blocks: doc comments + #[test] fn kani_concrete_playback_<harness>_<hash>() { ... }
        blocks = re.findall(r'((?:[ \t]*///[^\n]*\n)*[ \t]*#\[test\]\s*fn\s+(kani_concrete_playback_' + re.escape(h['harness'])
                            + r'_\d+)\s*\(\)\s*\{.*?\n[ \t]*\})', txt, re.S)
        blocks = [(b, n) for b, n in blocks if 'Check for `cover`' not in b]
        if not blocks:
            out['result'] = 'kani produced no concrete playback test: ' + txt[-600:]
            return out
        seen = set()
        uniq = []
        for b, n in blocks:
            if n not in seen:
                seen.add(n)
                uniq.append((b, n))
        out['test_source'] = '\n\n'.join(b for b, _ in uniq[:4])
        inj = None
        for root, _, files in os.walk(scratch):
            if 'target' in root.split(os.sep):
                continue
            for fn in files:
                if fn == h['module'] + '_injected.rs':
                    inj = os.path.join(root, fn)
        if not inj:
            out['result'] = 'injected harness copy not found'
            return out
        with open(inj, 'a') as f:
            f.write(f'\n#[cfg(test)]\nmod verif_playback_{h["harness"]} {{\n    use super::*;\n')
            for b, _ in uniq[:4]:
                f.write(b + '\n')
            f.write('}\n')
        results = []
        rep = False
        for _, tname in uniq[:4]:
            cmd2 = ['cargo', 'kani', 'playback', '-Z', 'concrete-playback', '-p', pkg, '--', tname]
            p2 = subprocess.run(cmd2, cwd=scratch, env=env, capture_output=True, text=True, timeout=1800)
            tail = (p2.stdout + p2.stderr)
            m = re.search(r"panicked at [^\n]*\n[^\n]*", tail)
            results.append(f'{tname}: ' + (m.group(0) if m else tail[-400:]))
            if 'panicked' in tail or re.search(r'test result: FAILED', tail):
                rep = True
        out['result'] = '\n'.join(results)
        out['reproduced'] = rep
    except Exception as e:
        out['result'] = f'playback failed: {e}'
    return out
