#!/usr/bin/env python3
"""Writes /verif/MANIFEST.json from vp/props.py (claimed checks) and the not-applicable table below."""
import json
import os
import sys

HERE = os.path.dirname(os.path.dirname(os.path.abspath(__file__)))
sys.path.insert(0, os.path.join(HERE, 'vp'))
import props  # noqa: E402

NOT_APPLICABLE = {
    'C02': 'routing of calls/replies lives in broker.rs handlers, which neither verifier can ingest (Verus rejects '
           'ref patterns, pattern closures, for-loops over impl Iterator, break-with-value; Kani cannot hold a '
           'ConnectionId = Arc<Mutex>); no function contract within reach states "exactly one reply".',
    'C06': 'quantifies over schedules of async tasks; Kani has no scheduler/thread model, Verus would need '
           'permission-typed futures; no per-function contract expresses absence of lost wake-ups.',
    'C15': 'fault points x async schedules; pending futures resolve by dropping oneshot/mpsc ends; no '
           'function-level contract.',
    'C16': 'quantifies over schemas and over programs produced by the code generator and derive macros, with '
           'rustc as oracle; contracts apply to fixed functions, not a generator\'s output space.',
    'C17': 'pest-generated parser, comrak, str slicing by byte offsets and String formatting: neither verifier '
           'reasons about str bytes or parser tables.',
    'C18': 'a String-building pretty printer over the pest AST; the property compares two parses; no contract '
           'within reach.',
    'C20': 'type ids are UUIDv5 (SHA-1) of a canonical serialization: "any change changes the id" is collision '
           'resistance, "order does not matter" is BTreeMap iteration order in std; neither is a contract on '
           'aldrin code that a verifier here can discharge.',
}

# claimed later in the build; until their check exists they are listed as not applicable *yet*
PLANNED = {
}

TECHNIQUE = {
    'verus': 'Verus deductive verification of mechanically extracted verbatim functions (pre/postconditions, '
             'inductive representation invariant)',
    'kani': 'Kani/CBMC contract harnesses (assume-pre/assert-post) on the real crate',
}


def main():
    checks = []
    for pid, P in sorted(props.PROPS.items()):
        eng = []
        if P.get('verus_units'):
            eng.append('verus')
        if P.get('kani'):
            eng.append('kani')
        checks.append(dict(
            property_id=pid,
            quick_cmd=f'./check {pid} --tier quick',
            thorough_cmd=f'./check {pid} --tier thorough',
            evidence_file=f'/verif/evidence/{pid}.json',
            replay_cmd_template=f'./check {pid} --replay {{path}}',
            engine='+'.join(eng),
            level_claimed=dict(category=P.get('level', 'proof'), text=P.get('level_text', P.get('explanation', '')),
                               design_ref=f'DESIGN.md section 4.{pid}'),
            level_note=P.get('level_note', '; '.join(P.get('trusted_base', []) + P.get('assumptions', []))
                             + ' || NOT decided: ' + '; '.join(P.get('undecided_clauses', []))),
            technique=P.get('technique', ' + '.join(TECHNIQUE[e] for e in eng)),
        ))
    na = []
    for pid in sorted(set(NOT_APPLICABLE) | set(PLANNED)):
        if pid in props.PROPS:
            continue
        na.append(dict(property_id=pid, reason=NOT_APPLICABLE.get(pid) or PLANNED[pid]))
    all_ids = {f'C{i:02d}' for i in range(1, 21)}
    missing = all_ids - set(props.PROPS) - {n['property_id'] for n in na}
    for pid in sorted(missing):
        na.append(dict(property_id=pid, reason='check not built yet in this round (planned, see DESIGN.md section 2)'))
    na.sort(key=lambda x: x['property_id'])
    man = dict(
        version=1,
        setup_cmd='cd /verif && python3 vp/setup_check.py',
        hooks=dict(
            guard='kani',
            enable='no source hooks: Kani harness modules are injected into a scratch copy of /repo under '
                   '#[cfg(kani)] (set only by cargo kani); Verus reads the source text',
            baseline_off_cmd='cd /repo && cargo test --workspace --no-fail-fast --offline',
            source_commits=[],
            add_only=True,
        ),
        engines=[
            dict(name='verus-units', path='/verif/vp/verus_unit.py',
                 serves_properties=sorted(p for p, P in props.PROPS.items() if P.get('verus_units')),
                 kind_free_text='deductive verification (Verus/Z3) of function text extracted mechanically from '
                                '/repo on every run, contracts in /verif/units/*/unit.rs'),
            dict(name='kani-units', path='/verif/vp/kani_unit.py',
                 serves_properties=sorted(p for p, P in props.PROPS.items() if P.get('kani')),
                 kind_free_text='Kani/CBMC contract harnesses compiled into a scratch copy of the real crates'),
        ],
        checks=checks,
        not_applicable=na,
        notes='exit 2 = undecided (anchor lost, unsupported construct, solver limit, vacuous contract); never a '
              'VIOLATION. See DESIGN.md.',
    )
    with open(os.path.join(HERE, 'MANIFEST.json'), 'w') as f:
        json.dump(man, f, indent=1)
    print(f'MANIFEST.json: {len(checks)} checks, {len(na)} not applicable')


if __name__ == '__main__':
    main()
