#!/usr/bin/env python3
"""Mechanical extractor: real Rust source text from /repo -> one Verus file.

A unit template (units/<unit>/unit.rs) is ordinary Verus text plus directives:

  //@item <file> <kind> <Name>            copy struct/enum/const/type item verbatim
  //@fn <file> <Qual>::<name> [opts]      copy the function; the lines up to the matching
      requires ...                        //@end are the hand-written contract and are spliced
      ensures ...                         between the signature and the opening brace
  //@end

<Qual> is `Type` (inherent impl of Type), `Trait@Type` (impl Trait for Type) or `-` (free fn).
opts:  external   -> emitted as #[verifier::external_body] (assumed contract, listed as such)
       ret=<name> -> name of the result binder (default r)
       nth=<k>    -> k-th match (0-based) when several impl blocks qualify

Only these lexical normalisations are applied to copied text (each counted, see `Normaliser`):
  N1 visibility `pub(super)`/`pub(in ..)` -> `pub(crate)`
  N2 outer attributes `#[..]` and doc comments directly in front of the item / inside struct and enum
     bodies are dropped (derive, cfg_attr, allow, must_use, doc)
  N3 `-> T` becomes `-> (r: T)` and the contract is spliced before the body's `{`
  N4 `#[cfg(feature = "statistics")]` statements/blocks inside bodies are dropped (feature off) and
     `#[allow(..)]` statement attributes are dropped
  N5 ref patterns in `Some(&PAT)` position (unsupported by Verus) are desugared by the equivalent two-step binding:
        let Some(&PAT) = E else { .. };      ->  let Some(__vp_k) = E else { .. }; let PAT = *__vp_k;
        if let Some(&PAT) = E {              ->  if let Some(__vp_k) = E { let PAT = *__vp_k;
        Some(&PAT) => ARM                    ->  Some(__vp_k) => { let PAT = *__vp_k; ARM }
        for (&a, &(b, _)) in &MAP {          ->  for (__vf_0, __vf_1) in MAP.iter() { let a = *__vf_0; let (b, _) = *__vf_1;
     (same meaning in Rust whenever both compile: the bindings inside PAT copy out of the reference; `for .. in &C` over a
     std collection C is `for .. in C.iter()`)
  N6 (only with option `iter` on an assumed accessor) the return type `impl Iterator<Item = X> [+ '_]` is replaced by the
     prelude's `CopyIter<'_, X>` (Verus has no `impl Trait` returns); the accessor's contract is assumed
  N7 (only with option `tail-loop` on a function whose body ends in a single `loop { .. }` expression) `break EXPR;` inside that
     loop becomes `return EXPR;` (the loop is the function's tail expression, so breaking out of it with a value IS returning
     that value; Verus has no `break` with a value)
  N8 `RECV.method(..).map(Ctor)?` with `Ctor` a tuple-struct / enum-variant constructor path (last segment capitalised) becomes
     `Ctor(RECV.method(..)?)`: for a Result, mapping a total, effect-free constructor over the Ok value and then applying `?`
     is the same as applying `?` first and the constructor afterwards (Verus has no constructors as function values)
  N9 `debug_assert_eq!(A, B)` / `assert_eq!(A, B)` (two arguments) become `debug_assert!(A == B)` / `assert!(A == B)`: the same
     check without the formatted panic message (Verus has no specification for core::panicking::assert_failed)
  N11 (only with option `option-map`) `RECV.map(|PAT| EXPR)` on an Option, with a closure body that is a plain expression (no
     `return`, `?`, `break`, `continue`), becomes `(match RECV { Some(PAT) => Some(EXPR), None => None })`: Option::map with the
     closure inlined (Verus has no closures with patterns as parameters); if RECV is not an Option the result does not compile;
     likewise `RECV.and_then(|PAT| EXPR)` becomes `(match RECV { Some(PAT) => EXPR, None => None })`.
     With option `result-map` the same for a Result: `(match RECV { Ok(PAT) => Ok(BODY), Err(e) => Err(e) })`, BODY may be a block
     (the closure is called exactly once, in the Ok case, so inlining it keeps its side effects where they were)
  N12 (only with option `iter-any-all`) `RECV.iter()[.copied()].any(|PAT| BODY)` / `RECV.iter()[.copied()].all(|PAT| BODY)` (also with
     `.values()` of a map instead of `.iter()`, and with a function path `F` standing for `|x| F(x)`) with RECV a field path, PAT
     `x` or `&x` and a BODY that does not leave the closure become the loop that `Iterator::any` / `Iterator::all` are
     documented to be (short-circuiting on the first hit):
        { let mut __vp_anyK = false; for __vp_eK in RECV.iter() { let x = *__vp_eK; if BODY { __vp_anyK = true; break; } } __vp_anyK }
        { let mut __vp_allK = true;  for x in RECV.iter() { if !(BODY) { __vp_allK = false; break; } } __vp_allK }
     (Verus has no specification for iterator adapters taking closures)
  N13 (only with option `pin-poll-next`) `Pin::new(&mut X).poll_next(cx)` with X a field path becomes `X.poll_next_unpin(cx)`: that is the
     definition of `futures::StreamExt::poll_next_unpin` (`Pin::new(self).poll_next(cx)`, for `Unpin` streams); Verus has no `Pin::new`.
     The stream's `poll_next_unpin` is an assumed (external) method of the unit's prelude either way.
  N10 statements `LHS |= E;` / `LHS &= E;` (bool operands: Verus has no `|`/`&` on bool) become `if E { LHS = true; }` /
     `if !(E) { LHS = false; }`: E is evaluated exactly once in both forms and the assignment leaves LHS unchanged in the other
     case; for a non-bool LHS the result does not type-check
No expression is rewritten otherwise. Ghost text (loop invariants, proof blocks) named in the unit template is spliced
into bodies at loop ordinals / after exact statement texts, always on the same output line so that line numbers of the
body still correspond to the source (annotation in place; ghost code only, erased at compile time).

Anchor loss (an item is not found, or found ambiguously) raises AnchorLost -> exit 2 upstream.
"""
import re
import sys
import os
import json


class AnchorLost(Exception):
    pass


class Scan:
    """Lexical scan of a Rust file: code mask, bracket matching, brace depth."""

    def __init__(self, text):
        self.text = text
        n = len(text)
        self.code = bytearray(n)  # 1 = code char (not comment/string/char literal)
        self.match = {}
        self.depth = [0] * (n + 1)  # brace depth *before* char i
        self._scan()

    def _scan(self):
        t = self.text
        n = len(t)
        i = 0
        stack = []
        d = 0
        while i < n:
            self.depth[i] = d
            c = t[i]
            if c == '/' and t.startswith('//', i):
                j = t.find('\n', i)
                if j < 0:
                    j = n
                for k in range(i, j):
                    self.depth[k] = d
                i = j
                continue
            if c == '/' and t.startswith('/*', i):
                lvl = 1
                j = i + 2
                while j < n and lvl:
                    if t.startswith('/*', j):
                        lvl += 1
                        j += 2
                    elif t.startswith('*/', j):
                        lvl -= 1
                        j += 2
                    else:
                        j += 1
                for k in range(i, j):
                    self.depth[k] = d
                i = j
                continue
            # raw strings  r"..."  r#"..."#  br#"..."#
            m = None
            if c in 'rb':
                m = re.compile(r'b?r(#*)"').match(t, i)
                if m and (i == 0 or not (t[i - 1].isalnum() or t[i - 1] == '_')):
                    end = t.find('"' + m.group(1), m.end())
                    j = n if end < 0 else end + 1 + len(m.group(1))
                    for k in range(i, j):
                        self.depth[k] = d
                    i = j
                    continue
            if c == '"' or (c == 'b' and t.startswith('b"', i) and (i == 0 or not (t[i - 1].isalnum() or t[i - 1] == '_'))):
                j = i + (2 if c == 'b' else 1)
                while j < n and t[j] != '"':
                    j += 2 if t[j] == '\\' else 1
                j += 1
                for k in range(i, min(j, n)):
                    self.depth[k] = d
                i = j
                continue
            if c == "'":
                # char literal or lifetime
                if i + 1 < n and t[i + 1] == '\\':
                    j = t.find("'", i + 2)
                    # '\'' case
                    if j == i + 2:
                        j = t.find("'", i + 3)
                    j = n if j < 0 else j + 1
                    for k in range(i, j):
                        self.depth[k] = d
                    i = j
                    continue
                if i + 2 < n and t[i + 2] == "'":
                    for k in range(i, i + 3):
                        self.depth[k] = d
                    i += 3
                    continue
                # lifetime: treat as code
                self.code[i] = 1
                i += 1
                continue
            self.code[i] = 1
            if c in '([{':
                stack.append((c, i))
                if c == '{':
                    d += 1
            elif c in ')]}':
                if stack:
                    o, oi = stack.pop()
                    self.match[oi] = i
                    self.match[i] = oi
                if c == '}':
                    d -= 1
            i += 1
        self.depth[n] = d

    def is_code(self, i):
        return self.code[i] == 1

    def finditer_code(self, pattern, start=0, end=None):
        end = len(self.text) if end is None else end
        for m in re.finditer(pattern, self.text[:end]):
            if m.start() < start:
                continue
            if self.is_code(m.start()):
                yield m

    def next_code_char(self, chars, start, end=None):
        end = len(self.text) if end is None else end
        i = start
        while i < end:
            if self.code[i] and self.text[i] in chars:
                return i
            i += 1
        return -1


_ID = r'[A-Za-z_][A-Za-z0-9_]*'


def _strip_generics(s):
    """drop a leading <...> group (balanced) from s"""
    s = s.lstrip()
    if not s.startswith('<'):
        return s
    lvl = 0
    for i, c in enumerate(s):
        if c == '<':
            lvl += 1
        elif c == '>' and (i == 0 or s[i - 1] != '-'):
            lvl -= 1
            if lvl == 0:
                return s[i + 1:]
    return s


def _head_ident(s):
    s = s.strip()
    s = re.sub(r'^(&\s*)?(\'' + _ID + r'\s+)?(mut\s+)?', '', s)
    m = re.match(r'(?:' + _ID + r'::)*(' + _ID + r')', s)
    return m.group(1) if m else None


class SourceFile:
    def __init__(self, repo, rel):
        self.rel = rel
        self.path = os.path.join(repo, rel)
        if not os.path.exists(self.path):
            raise AnchorLost(f'source file missing: {rel}')
        with open(self.path, encoding='utf-8') as f:
            self.text = f.read()
        self.scan = Scan(self.text)
        self._impls = None

    def line_of(self, off):
        return self.text.count('\n', 0, off) + 1

    def impls(self):
        if self._impls is not None:
            return self._impls
        res = []
        sc = self.scan
        for m in sc.finditer_code(r'\bimpl\b'):
            # only item-level impls (not `impl Trait` in types): must be followed by header then `{`
            # and be preceded (on its line) only by whitespace / `unsafe`
            ls = self.text.rfind('\n', 0, m.start()) + 1
            if self.text[ls:m.start()].strip() not in ('', 'unsafe'):
                continue
            ob = sc.next_code_char('{;', m.end())
            if ob < 0 or self.text[ob] != '{':
                continue
            header = self.text[m.end():ob]
            h = _strip_generics(header)
            h = re.split(r'\bwhere\b', h)[0]
            trait = None
            if re.search(r'\bfor\b', h):
                a, b = re.split(r'\bfor\b', h, maxsplit=1)
                trait = _head_ident(a)
                ty = _head_ident(b)
            else:
                ty = _head_ident(h)
            res.append(dict(start=m.start(), open=ob, close=sc.match.get(ob), trait=trait, ty=ty,
                            header=('impl' + header).strip(), depth=sc.depth[m.start()]))
        self._impls = res
        return res

    # ---- items ---------------------------------------------------------------------------------
    def find_fn(self, qual, name, nth=None):
        sc = self.scan
        cands = []
        if qual == '-':
            ranges = [(0, len(self.text), None)]
        else:
            if '@' in qual:
                trait, ty = qual.split('@', 1)
            else:
                trait, ty = None, qual
            ranges = [(b['open'], b['close'], b) for b in self.impls()
                      if b['ty'] == ty and b['trait'] == trait and b['close'] is not None]
            if not ranges:
                raise AnchorLost(f'{self.rel}: no impl block for `{qual}`')
        pat = r'\bfn\s+' + re.escape(name) + r'\b'
        for (lo, hi, blk) in ranges:
            want_depth = sc.depth[lo] + 1 if blk is not None else None
            for m in sc.finditer_code(pat, lo, hi):
                if blk is not None and sc.depth[m.start()] != want_depth:
                    continue
                if blk is None:
                    # free function: must not be inside an impl/trait block; allow inside `mod`
                    inside = any(b['open'] < m.start() < (b['close'] or 0) for b in self.impls())
                    if inside:
                        continue
                cands.append((m, blk))
        if not cands:
            raise AnchorLost(f'{self.rel}: function `{qual}::{name}` not found')
        if len(cands) > 1:
            if nth is None:
                raise AnchorLost(f'{self.rel}: function `{qual}::{name}` is ambiguous ({len(cands)} matches)')
            if nth >= len(cands):
                raise AnchorLost(f'{self.rel}: function `{qual}::{name}` nth={nth} out of range')
            m, blk = cands[nth]
        else:
            m, blk = cands[0]
        return self._fn_span(m, blk)

    def _fn_span(self, m, blk):
        sc = self.scan
        t = self.text
        fn_kw = m.start()
        # qualifiers in front of `fn`
        ls = t.rfind('\n', 0, fn_kw) + 1
        prefix = t[ls:fn_kw]
        qm = re.match(r'^(\s*)((?:pub(?:\([^)]*\))?\s+)?(?:default\s+)?(?:const\s+)?(?:async\s+)?(?:unsafe\s+)?(?:extern\s+"[^"]*"\s+)?)$', prefix)
        if not qm:
            raise AnchorLost(f'{self.rel}:{self.line_of(fn_kw)}: unexpected text before `fn`: {prefix!r}')
        sig_start = ls + len(qm.group(1))
        # params
        p = sc.next_code_char('(', m.end())
        # skip generics between name and '(' : the first '(' at code level after name might be inside
        # generics bounds like Fn(..); handle by angle matching
        i = m.end()
        while i < len(t) and t[i].isspace():
            i += 1
        if t[i] == '<':
            lvl = 0
            while i < len(t):
                if sc.code[i]:
                    if t[i] == '<':
                        lvl += 1
                    elif t[i] == '>' and t[i - 1] != '-':
                        lvl -= 1
                        if lvl == 0:
                            i += 1
                            break
                i += 1
            p = sc.next_code_char('(', i)
        pc = sc.match[p]
        ob = sc.next_code_char('{;', pc + 1)
        if ob < 0:
            raise AnchorLost(f'{self.rel}: no body for fn at line {self.line_of(fn_kw)}')
        has_body = t[ob] == '{'
        cb = sc.match[ob] if has_body else ob
        after = t[pc + 1:ob]
        ret = None
        where = ''
        am = re.match(r'\s*->\s*(.*?)\s*(\bwhere\b.*)?$', after, re.S)
        if am:
            ret = am.group(1).strip()
            where = (am.group(2) or '').strip()
        else:
            wm = re.match(r'\s*(\bwhere\b.*)?$', after, re.S)
            where = (wm.group(1) or '').strip() if wm else ''
        return dict(sig_start=sig_start, params_close=pc, body_open=ob, body_close=cb, ret=ret,
                    where=where, has_body=has_body, line=self.line_of(fn_kw), body_line=self.line_of(ob),
                    head=t[sig_start:pc + 1], impl_header=blk['header'] if blk else None)

    def find_item(self, kind, name):
        sc = self.scan
        t = self.text
        if kind in ('struct', 'enum', 'union', 'trait'):
            pat = r'\b' + kind + r'\s+' + re.escape(name) + r'\b'
        elif kind == 'const':
            pat = r'\bconst\s+' + re.escape(name) + r'\s*:'
        elif kind == 'type':
            pat = r'\btype\s+' + re.escape(name) + r'\b'
        elif kind == 'static':
            pat = r'\bstatic\s+' + re.escape(name) + r'\s*:'
        elif kind == 'macro':
            pat = r'\bmacro_rules!\s+' + re.escape(name) + r'\b'
        else:
            raise AnchorLost(f'unknown item kind {kind}')
        ms = list(sc.finditer_code(pat))
        if len(ms) != 1:
            raise AnchorLost(f'{self.rel}: {kind} `{name}`: {len(ms)} matches')
        m = ms[0]
        ls = t.rfind('\n', 0, m.start()) + 1
        prefix = t[ls:m.start()]
        qm = re.match(r'^(\s*)((?:pub(?:\([^)]*\))?\s+)?)$', prefix)
        if not qm:
            raise AnchorLost(f'{self.rel}:{self.line_of(m.start())}: unexpected text before `{kind}`: {prefix!r}')
        start = ls + len(qm.group(1))
        if kind == 'macro':
            ob = sc.next_code_char('{(', m.end())
            end = sc.match[ob] + 1
            return dict(start=start, end=end, line=self.line_of(m.start()))
        if kind in ('const', 'type', 'static'):
            e = m.end()
            # end at first `;` at same brace depth
            d0 = sc.depth[m.start()]
            i = e
            while True:
                i = sc.next_code_char(';', i)
                if i < 0:
                    raise AnchorLost(f'{self.rel}: unterminated {kind} {name}')
                if sc.depth[i] == d0:
                    break
                i += 1
            end = i + 1
        else:
            ob = sc.next_code_char('{;(', m.end())
            if t[ob] == '(':
                # tuple struct
                pc = sc.match[ob]
                end = sc.next_code_char(';', pc) + 1
            elif t[ob] == ';':
                end = ob + 1
            else:
                end = sc.match[ob] + 1
        return dict(start=start, end=end, line=self.line_of(m.start()))


class Normaliser:
    keep_features = ()   # features whose cfg-guarded code is KEPT (only the attribute is dropped): directive //@keep-cfg

    def __init__(self):
        self.counts = {'N1_visibility': 0, 'N2_attrs_docs_dropped': 0, 'N3_ret_named_contract_spliced': 0,
                       'N4_cfg_statistics_or_allow_dropped': 0, 'N4b_cfg_attribute_dropped_code_kept': 0,
                       'N5_ref_pattern_desugared': 0,
                       'N6_impl_iterator_return_type': 0, 'N7_tail_loop_break_value': 0, 'N8_map_constructor_then_try': 0, 'N9_assert_eq_as_assert': 0, 'N10_bool_compound_assign': 0, 'N11_option_map_closure_inlined': 0, 'N12_iter_any_all_as_loop': 0, 'N13_pin_new_poll_next': 0, 'G_optional_splices_skipped': 0, 'G_ghost_splices': 0}

    def vis(self, s):
        def rep(m):
            self.counts['N1_visibility'] += 1
            return 'pub(crate)'
        return re.sub(r'\bpub\((?:super|in [^)]*)\)', rep, s)

    def strip_attrs_docs(self, s):
        """drop `#[...]` attribute lines and `///` doc lines (whole lines only)"""
        out = []
        for line in s.split('\n'):
            st = line.strip()
            if st.startswith('///') or st.startswith('//!'):
                self.counts['N2_attrs_docs_dropped'] += 1
                continue
            if re.match(r'^#\[[^\]]*\]$', st) or re.match(r'^#\[.*\)\]$', st):
                self.counts['N2_attrs_docs_dropped'] += 1
                continue
            out.append(line)
        return '\n'.join(out)

    def body(self, s):
        """N4 inside bodies: drop #[cfg(feature = "statistics")] followed by a block or a statement,
        and #[allow(..)] statement attributes."""
        sc = Scan(s)
        out = []
        i = 0
        pat = re.compile(r'#\[cfg\(feature\s*=\s*"(?:statistics|introspection)"\)\]\s*')
        while True:
            m = None
            for mm in pat.finditer(s, i):
                if sc.is_code(mm.start()):
                    m = mm
                    break
            if not m:
                out.append(s[i:])
                break
            out.append(s[i:m.start()])
            j = m.end()
            feat = re.search(r'"(\w+)"', m.group(0)).group(1)
            if feat in self.keep_features:
                # the unit is verified with this feature ON: keep the guarded code, drop only the attribute
                self.counts['N4b_cfg_attribute_dropped_code_kept'] += 1
                if s[j] == '{':
                    out.append(';')   # empty statement: keeps a kept block from being parsed as part of a preceding loop header
                i = j
                continue
            if s[j] == '{':
                j = sc.match[j] + 1
            else:
                # statement / struct field: up to the first `;` or `,` outside any bracket
                k = j
                while k < len(s):
                    if sc.code[k]:
                        ch = s[k]
                        if ch in '([{' and k in sc.match:
                            k = sc.match[k]
                        elif ch in ';,':
                            break
                    k += 1
                if k >= len(s):
                    raise AnchorLost('cfg(feature) statement without terminator')
                j = k + 1
            self.counts['N4_cfg_statistics_or_allow_dropped'] += 1
            i = j
        s2 = ''.join(out)

        def rep(m):
            self.counts['N4_cfg_statistics_or_allow_dropped'] += 1
            return ''
        s2 = re.sub(r'^[ \t]*#\[allow\([^\]]*\)\]\s*\n', rep, s2, flags=re.M)
        return s2

    # ---- N5 -----------------------------------------------------------------------------------------
    def forpat(self, s):
        """`for (&a, &(b, c, _)) in &EXPR {` -> `for (__vf_0, __vf_1) in EXPR.iter() { let a = *__vf_0; let (b, c, _) = *__vf_1;`
        (N5 for loop patterns; `in &EXPR` over a std collection is `in EXPR.iter()`)."""
        k = 0
        while True:
            sc = Scan(s)
            m = None
            for mm in re.finditer(r'\bfor\s*\(', s):
                if not sc.is_code(mm.start()):
                    continue
                po = mm.end() - 1
                pc = sc.match[po]
                inner = s[po + 1:pc]
                if '&' in inner and re.match(r'\s*in\b', s[pc + 1:]):
                    m = (mm, po, pc)
                    break
            if not m:
                return s
            mm, po, pc = m
            inner = s[po + 1:pc]
            # split at top-level commas
            parts, cur, depth = [], '', 0
            for ch in inner:
                if ch in '([{':
                    depth += 1
                elif ch in ')]}':
                    depth -= 1
                if ch == ',' and depth == 0:
                    parts.append(cur)
                    cur = ''
                else:
                    cur += ch
            parts.append(cur)
            newparts, lets = [], []
            for prt in parts:
                pt = prt.strip()
                if pt.startswith('&'):
                    var = f'__vf_{k}'
                    k += 1
                    newparts.append(var)
                    lets.append(f'let {pt[1:].strip()} = *{var};')
                else:
                    newparts.append(pt)
            im = re.match(r'\s*in\s*', s[pc + 1:])
            e0 = pc + 1 + im.end()
            # iterator expression up to the body brace
            i = e0
            ob = None
            while i < len(s):
                if sc.code[i]:
                    ch = s[i]
                    if ch in '([' and i in sc.match:
                        i = sc.match[i] + 1
                        continue
                    if ch == '{':
                        ob = i
                        break
                i += 1
            if ob is None:
                raise AnchorLost('N5: for loop without body')
            expr = s[e0:ob].strip()
            if expr.startswith('&') and not expr.startswith('&mut'):
                expr = expr[1:].strip() + '.iter()'
            s = (s[:po] + '(' + ', '.join(newparts) + ') in ' + expr + ' { ' + ' '.join(lets) + s[ob + 1:])
            self.counts['N5_ref_pattern_desugared'] += 1

    def refpat(self, s):
        """desugar `Some(&PAT)` patterns (see module docstring). Raises AnchorLost on an unrecognised context."""
        s = self.forpat(s)
        k = 0
        while True:
            sc = Scan(s)
            m = None
            for mm in re.finditer(r'\bSome\(\s*&', s):
                if sc.is_code(mm.start()):
                    m = mm
                    break
            if not m:
                return s
            po = s.index('(', m.start())
            pc = sc.match[po]
            pat = s[m.end():pc].strip()
            if pat.startswith('mut '):
                raise AnchorLost('N5: `&mut` pattern not handled')
            var = f'__vp_{k}'
            k += 1
            # context
            before = s[:m.start()]
            bm = re.search(r'(\bif\s+let|\blet)\s*$', before)
            after = s[pc + 1:]
            if bm and bm.group(1) == 'let':
                # let-else: find ` else {` block and its terminating `;`
                em = None
                i = pc + 1
                # the `else` keyword at bracket depth 0 relative to here
                while i < len(s):
                    if sc.code[i]:
                        ch = s[i]
                        if ch in '([{' and i in sc.match:
                            i = sc.match[i] + 1
                            continue
                        if ch == ';':
                            break
                        if s.startswith('else', i) and not (s[i - 1].isalnum() or s[i - 1] == '_') and sc.code[i]:
                            em = i
                            break
                    i += 1
                if em is None:
                    raise AnchorLost('N5: `let Some(&..) = ..` without else block')
                ob = sc.next_code_char('{', em)
                cb = sc.match[ob]
                semi = sc.next_code_char(';', cb)
                if semi < 0 or s[cb + 1:semi].strip():
                    raise AnchorLost('N5: let-else not terminated by `;`')
                s = s[:m.start()] + f'Some({var})' + s[pc + 1:semi + 1] + f' let {pat} = *{var};' + s[semi + 1:]
            elif bm:
                # if let Some(&PAT) = E {
                i = pc + 1
                ob = None
                while i < len(s):
                    if sc.code[i]:
                        ch = s[i]
                        if ch in '([' and i in sc.match:
                            i = sc.match[i] + 1
                            continue
                        if ch == '{':
                            ob = i
                            break
                    i += 1
                if ob is None:
                    raise AnchorLost('N5: if-let without block')
                s = s[:m.start()] + f'Some({var})' + s[pc + 1:ob + 1] + f' let {pat} = *{var};' + s[ob + 1:]
            else:
                am = re.match(r'\s*=>\s*', after)
                if not am:
                    raise AnchorLost('N5: `Some(&..)` in an unrecognised position')
                st = pc + 1 + am.end()
                if s[st] == '{':
                    s = s[:m.start()] + f'Some({var})' + s[pc + 1:st + 1] + f' let {pat} = *{var};' + s[st + 1:]
                else:
                    # expression arm: ends at the `,` at bracket depth 0 (or at the closing brace of the match)
                    i = st
                    end = None
                    while i < len(s):
                        if sc.code[i]:
                            ch = s[i]
                            if ch in '([{' and i in sc.match:
                                i = sc.match[i] + 1
                                continue
                            if ch == ',' or ch == '}':
                                end = i
                                break
                        i += 1
                    if end is None:
                        raise AnchorLost('N5: match arm without end')
                    s = (s[:m.start()] + f'Some({var})' + s[pc + 1:st] + '{ ' + f'let {pat} = *{var}; ' + s[st:end].rstrip()
                         + ' }' + s[end:])
            self.counts['N5_ref_pattern_desugared'] += 1

    # ---- ghost splices ---------------------------------------------------------------------------------
    def splice(self, body, splices):
        """splices: list of (kind, arg, text). kinds: loop <k> <name> (label the k-th `for` loop's iterator and add the
        invariant text), after <stmt text>, before <stmt text>, loop-start <k>, loop-end <k>. Text goes on one line."""
        def flat(txt):
            out = []
            for l in txt.split('\n'):
                l = re.sub(r'//.*$', '', l).strip()
                if l:
                    out.append(l)
            return ' '.join(out)

        # invariants contain braces: insert them last so that loop bodies are still found by their first `{`
        for kind, arg, txt in sorted(splices, key=lambda x: x[0].lstrip('?') == 'loop'):
            if kind.startswith('?'):
                try:
                    body = self.splice(body, [(kind[1:], arg, txt)])
                except AnchorLost:
                    self.counts['G_optional_splices_skipped'] += 1
                    # proof text for a loop shape that is gone: the contract alone decides, but only for loop-free code (a loop
                    # without its invariant fails for want of proof, which is not a verdict about the code)
                    if [m for m in Scan(body).finditer_code(r'\b(for|while|loop)\b')]:
                        raise AnchorLost('optional ghost splice skipped but the body still has loops (no invariant for them)')
                continue
            sc = Scan(body)
            t = flat(txt)
            if kind in ('loop', 'loop-start', 'loop-end'):
                parts = arg.split()
                k = int(parts[0])
                fors = [m for m in sc.finditer_code(r'\bfor\b') if re.match(r'for\s+[^;{]*?\bin\b', body[m.start():])]
                if k >= len(fors):
                    raise AnchorLost(f'ghost splice: loop {k} not found ({len(fors)} for-loops)')
                fm = fors[k]
                im = re.compile(r'\bin\b').search(body, fm.end())
                i = im.end()
                ob = None
                while i < len(body):
                    if sc.code[i]:
                        ch = body[i]
                        if ch in '([' and i in sc.match:
                            i = sc.match[i] + 1
                            continue
                        if ch == '{':
                            ob = i
                            break
                    i += 1
                if ob is None:
                    raise AnchorLost(f'ghost splice: loop {k} has no body')
                cb = sc.match[ob]
                if kind == 'loop':
                    name = parts[1] if len(parts) > 1 else 'it'
                    expr = body[im.end():ob]
                    body = body[:im.end()] + f' {name}:' + expr.rstrip() + ' ' + t + ' ' + body[ob:]
                elif kind == 'loop-start':
                    body = body[:ob + 1] + ' ' + t + body[ob + 1:]
                else:
                    body = body[:cb] + t + ' ' + body[cb:]
            elif kind == 'fn-tail':
                # just before the function's tail expression: after the last `;` or `}` at statement level of the body
                ob0 = body.index('{')
                cb0 = sc.match[ob0]
                j = None
                i2 = cb0 - 1
                # a body without a tail expression (ends in `;` or in a block statement): the very end of the body
                k2 = cb0 - 1
                while k2 > ob0 and body[k2].isspace():
                    k2 -= 1
                if sc.code[k2] and body[k2] in ';}':
                    j = k2 + 1
                    i2 = ob0
                while i2 > ob0:
                    if sc.code[i2]:
                        ch = body[i2]
                        if ch in ')]}' and i2 in sc.match and sc.depth[sc.match[i2]] >= sc.depth[ob0] + 1:
                            if ch == '}' and sc.depth[sc.match[i2]] == sc.depth[ob0] + 1 and body[i2 + 1:cb0].strip():
                                j = i2 + 1
                                break
                            i2 = sc.match[i2] - 1
                            continue
                        if ch == ';' and sc.depth[i2] == sc.depth[ob0] + 1:
                            j = i2 + 1
                            break
                    i2 -= 1
                if j is None:
                    # the body is a single tail expression: the proof block goes in front of it
                    j = ob0 + 1
                body = body[:j] + ' ' + t + body[j:]
            elif kind == 'bare-loop':
                # invariant text for the k-th `loop { .. }` (inserted between the keyword and the opening brace)
                k = int(arg.split()[0])
                lps = [m for m in sc.finditer_code(r'\bloop\b')]
                if k >= len(lps):
                    raise AnchorLost(f'ghost splice: bare loop {k} not found')
                j = lps[k].end()
                body = body[:j] + ' ' + t + ' ' + body[j:]
            elif kind.split('#')[0] in ('after', 'before'):
                # anchor = exact statement text (whitespace-insensitive); `before#k/n` / `after#k/n`: the k-th of exactly n
                # occurrences; without a suffix the text must occur exactly once
                key = arg.strip()
                pat = r'\s+'.join(re.escape(w) for w in key.split())
                ms = list(re.finditer(pat, body))
                base, _, sel = kind.partition('#')
                if sel:
                    kk, _, nn = sel.partition('/')
                    kk, nn = int(kk), int(nn)
                    if len(ms) != nn:
                        raise AnchorLost(f'ghost splice: anchor text {key!r} occurs {len(ms)} times, expected {nn}')
                    m0 = ms[kk]
                else:
                    if len(ms) != 1:
                        raise AnchorLost(f'ghost splice: anchor text {key!r} occurs {len(ms)} times')
                    m0 = ms[0]
                if base == 'after':
                    j = m0.end()
                    body = body[:j] + ' ' + t + body[j:]
                else:
                    j = m0.start()
                    body = body[:j] + t + ' ' + body[j:]
            else:
                raise AnchorLost(f'ghost splice: unknown kind {kind}')
            self.counts['G_ghost_splices'] += 1
        return body


def expand(template_path, repo):
    """returns (text, meta). meta: functions (list of dicts with output line ranges), items, normalisation
    counts, assumed list."""
    with open(template_path, encoding='utf-8') as f:
        lines = f.read().split('\n')
    files = {}
    norm = Normaliser()
    out = []
    fns = []
    items = []

    def src(rel):
        if rel not in files:
            files[rel] = SourceFile(repo, rel)
        return files[rel]

    def cur_line():
        return sum(x.count('\n') + 1 for x in out) + 1

    i = 0
    while i < len(lines):
        ln = lines[i]
        st = ln.strip()
        if st.startswith('//@keep-cfg '):
            norm.keep_features = tuple(st.split()[1:])
            out.append('// (extraction: code under #[cfg(feature = ...)] for ' + ', '.join(norm.keep_features) + ' is kept)')
            i += 1
            continue
        if st.startswith('//@item '):
            parts = st.split()
            rel, kind, name = parts[1], parts[2], parts[3]
            opts = parts[4:]
            sf = src(rel)
            sp = sf.find_item(kind, name)
            txt = sf.text[sp['start']:sp['end']]
            txt = norm.body(txt)
            txt = norm.vis(txt)
            txt = norm.strip_attrs_docs(txt)
            pre = []
            for o in opts:
                if o.startswith('attr='):
                    pre.append('#[' + o[5:] + ']')
                if o == 'vis=pub':
                    # N1 for items: `pub(crate) enum/struct` -> `pub ...` (Verus generates `open` accessor spec functions for the
                    # variants' fields and insists that the type be `pub` then; visibility has no run-time meaning)
                    m1 = re.match(r'\s*pub\(crate\)\s', txt)
                    if not m1:
                        raise AnchorLost(f'{rel}: item {name}: option vis=pub but the item is not pub(crate)')
                    txt = txt[:m1.start()] + txt[m1.start():m1.end()].replace('pub(crate)', 'pub') + txt[m1.end():]
                    norm.counts['N1_visibility'] += 1
            l0 = cur_line()
            block = '\n'.join(pre + [txt])
            out.append(block)
            items.append(dict(file=rel, kind=kind, name=name, src_line=sp['line'], out_line=l0,
                              out_end=l0 + block.count('\n')))
            i += 1
            continue
        if st.startswith('//@include '):
            # //@include <path relative to units/>  : hand-written spec text shared between units (no repo text)
            ipath = os.path.join(os.path.dirname(os.path.dirname(os.path.abspath(template_path))), st.split()[1])
            if not os.path.exists(ipath):
                raise AnchorLost(f'include: {ipath} not found')
            lines[i:i + 1] = open(ipath, encoding='utf-8').read().split('\n')
            continue
        if st.startswith('//@fn-from '):
            # //@fn-from <unit> <file> <Qual>::<name>   : contract text is copied from units/<unit>/unit.rs, where the
            # function is verified against it; here the function is assumed (external_body) so that its callers are
            # checked against the callee's contract, not its body.
            parts = st.split()
            other, rel2, qn2 = parts[1], parts[2], parts[3]
            opath = os.path.join(os.path.dirname(os.path.dirname(os.path.abspath(template_path))), other, 'unit.rs')
            if not os.path.exists(opath):
                raise AnchorLost(f'fn-from: unit {other} not found')
            olines = open(opath, encoding='utf-8').read().split('\n')
            found = None
            for oi, ol in enumerate(olines):
                osp = ol.strip().split()
                if len(osp) >= 3 and osp[0] == '//@fn' and osp[1] == rel2 and osp[2] == qn2:
                    found = oi
                    break
            if found is None:
                raise AnchorLost(f'fn-from: {qn2} has no contract in unit {other}')
            cl = []
            oj = found + 1
            in_splice = False
            while olines[oj].strip() != '//@end':
                osx = olines[oj].strip()
                if osx.startswith(('//@loop ', '//@ghost ', '//@loop? ', '//@ghost? ')):
                    in_splice = True   # ghost splices belong to the body, which is not visible in the importing unit
                if not in_splice:
                    cl.append(olines[oj])
                oj += 1
            indent0 = re.match(r'\s*', ln).group(0)
            lines[i:i + 1] = [indent0 + f'//@fn {rel2} {qn2} nobody from={other}'] + cl + [indent0 + '//@end']
            continue
        if st.startswith('//@fn '):
            parts = st.split()
            rel, qn = parts[1], parts[2]
            opts = parts[3:]
            qual, name = qn.rsplit('::', 1)
            external = 'external' in opts or 'nobody' in opts
            nobody = 'nobody' in opts
            retname = 'r'
            nth = None
            from_unit = None
            for o in opts:
                if o.startswith('from='):
                    from_unit = o[5:]
                if o.startswith('ret='):
                    retname = o[4:]
                if o.startswith('nth='):
                    nth = int(o[4:])
            contract = []
            i += 1
            while i < len(lines) and lines[i].strip() != '//@end':
                contract.append(lines[i])
                i += 1
            if i >= len(lines):
                raise AnchorLost(f'{template_path}: //@fn {qn} without //@end')
            i += 1
            # split off in-body ghost splices (//@loop, //@ghost) from the contract text
            splices = []
            pure = []
            curs = None
            for cl in contract:
                cs = cl.strip()
                if cs.startswith('//@loop? ') or cs.startswith('//@ghost? '):
                    # optional splice: skipped (and counted) when its anchor does not exist in the body -- for proof text that is
                    # only needed while the code has a certain shape; without it the contract alone decides
                    cs = cs.replace('? ', ' ', 1)
                    optional = True
                else:
                    optional = False
                if cs.startswith('//@loop ') or cs.startswith('//@ghost '):
                    if cs.startswith('//@loop '):
                        curs = ['loop', cs[len('//@loop '):].strip(), '']
                    else:
                        rest = cs[len('//@ghost '):].strip()
                        kind, _, arg = rest.partition(' ')
                        curs = [kind, arg.strip().strip('`'), '']
                    if optional:
                        curs[0] = '?' + curs[0]
                    splices.append(curs)
                elif curs is not None:
                    curs[2] += cl + '\n'
                else:
                    pure.append(cl)
            contract = pure
            sf = src(rel)
            sp = sf.find_fn(qual, name, nth)
            if not sp['has_body']:
                raise AnchorLost(f'{rel}: fn {qn} has no body')
            head = norm.vis(sf.text[sp['sig_start']:sp['params_close'] + 1])
            if 'vis=crate' in opts and re.match(r'pub (unsafe )?fn\b', head):
                # N1 for functions: `pub fn` -> `pub(crate) fn` (lets the contract mention crate-private spec functions / fields)
                head = 'pub(crate)' + head[len('pub'):]
                norm.counts['N1_visibility'] += 1
            body = sf.text[sp['body_open']:sp['body_close'] + 1]
            body = norm.body(body)
            if not external:
                body = norm.refpat(body)
                # N13
                if 'pin-poll-next' in opts:
                    n13pat = re.compile(r'\bPin::new\(\s*&mut\s+((?:[a-z_]\w*)(?:\s*\.\s*[a-z_]\w*)*)\s*\)\s*\.\s*poll_next\(')
                    sc13 = Scan(body)
                    def _n13(m13):
                        if not sc13.is_code(m13.start()):
                            return m13.group(0)
                        norm.counts['N13_pin_new_poll_next'] += 1
                        return f'{m13.group(1)}.poll_next_unpin('
                    body = n13pat.sub(_n13, body)
                # N12
                if 'iter-any-all' in opts:
                    k12 = 0
                    while True:
                        sc12 = Scan(body)
                        m12 = None
                        for mm in re.finditer(r'(\b[a-z_]\w*(?:\s*\.\s*[a-z_]\w*)*)\s*\.\s*(iter|values)\(\)(\s*\.\s*copied\(\))?\s*\.\s*(any|all)\(', body):
                            if sc12.is_code(mm.start()):
                                m12 = mm
                                break
                        if not m12:
                            break
                        po = m12.end() - 1
                        pc = sc12.match[po]
                        arg12 = body[po + 1:pc]
                        cm = re.match(r'\s*\|([^|]*)\|\s*(.*)$', arg12, re.S)
                        if cm:
                            pat12, expr12 = cm.group(1).strip(), cm.group(2).rstrip()
                        elif re.fullmatch(r'\s*(?:[A-Za-z_]\w*::)*[a-z_]\w*\s*,?\s*', arg12):
                            # a function path instead of a closure: `.all(Option::is_some)` is `.all(|x| Option::is_some(x))`
                            pat12, expr12 = '__vp_x', arg12.strip().rstrip(',').strip() + '(__vp_x)'
                        else:
                            raise AnchorLost(f'{rel}: fn {qn}: N12: closure not recognised')
                        if re.search(r'\b(return|break|continue)\b|\?', expr12):
                            raise AnchorLost(f'{rel}: fn {qn}: N12: closure body leaves the closure (return / ? / break / continue)')
                        if m12.group(3):
                            # `.copied()`: the closure gets the element by value
                            if not re.fullmatch(r'[a-z_]\w*', pat12):
                                raise AnchorLost(f'{rel}: fn {qn}: N12: closure parameter pattern {pat12!r} is not handled')
                            var = f'__vp_e{k12}'
                            bind = f'let {pat12} = *{var}; '
                        elif re.fullmatch(r'[a-z_]\w*', pat12):
                            bind = ''
                            var = pat12
                        elif re.fullmatch(r'&\s*[a-z_]\w*', pat12):
                            var = f'__vp_e{k12}'
                            bind = f'let {pat12[1:].strip()} = *{var}; '
                        else:
                            raise AnchorLost(f'{rel}: fn {qn}: N12: closure parameter pattern {pat12!r} is not handled')
                        acc = f'__vp_{m12.group(4)}{k12}'
                        recv = body[m12.start(1):m12.end(1)]
                        src12 = m12.group(2)
                        if m12.group(4) == 'any':
                            rep = (f'{{ let mut {acc} = false; for {var} in {recv}.{src12}() {{ {bind}if {expr12} {{ {acc} = true; break; }} }} {acc} }}')
                        else:
                            rep = (f'{{ let mut {acc} = true; for {var} in {recv}.{src12}() {{ {bind}if !({expr12}) {{ {acc} = false; break; }} }} {acc} }}')
                        lost = body[m12.start():pc + 1].count('\n') - rep.count('\n')
                        body = body[:m12.start()] + rep + '\n' * max(lost, 0) + body[pc + 1:]
                        norm.counts['N12_iter_any_all_as_loop'] += 1
                        k12 += 1
                # N11
                if 'option-map' in opts or 'result-map' in opts:
                    while True:
                        sc11 = Scan(body)
                        m11 = None
                        for mm in re.finditer(r'(\b[a-z_]\w*(?:\s*\.\s*[a-z_]\w*(?:\([^()]*\))?)*?)\s*\.\s*(map|and_then)\(\s*\|', body):
                            if sc11.is_code(mm.start()):
                                m11 = mm
                                break
                        if not m11:
                            break
                        po = body.index('(', body.index(m11.group(2), m11.end(1)))
                        pc = sc11.match[po]
                        inner = body[po + 1:pc]
                        cm = re.match(r'\s*\|([^|]*)\|\s*(.*)$', inner, re.S)
                        if not cm:
                            raise AnchorLost(f'{rel}: fn {qn}: N11: closure not recognised')
                        pat11, expr11 = cm.group(1).strip(), cm.group(2).strip()
                        if re.search(r'\b(return|break|continue)\b|\?', expr11):
                            raise AnchorLost(f'{rel}: fn {qn}: N11: closure body leaves the closure (return / ? / break / continue)')
                        if 'result-map' in opts:
                            body = (body[:m11.start()] + f'(match {m11.group(1)} {{ Ok({pat11}) => Ok({expr11}), Err(__vp_e) => Err(__vp_e) }})'
                                    + body[pc + 1:])
                        else:
                            if expr11.startswith('{'):
                                raise AnchorLost(f'{rel}: fn {qn}: N11: closure body is not a plain expression')
                            some11 = expr11 if m11.group(2) == 'and_then' else f'Some({expr11})'
                            body = (body[:m11.start()] + f'(match {m11.group(1)} {{ Some({pat11}) => {some11}, None => None }})'
                                    + body[pc + 1:])
                        norm.counts['N11_option_map_closure_inlined'] += 1
                # N10
                while True:
                    sc10 = Scan(body)
                    m10 = None
                    for mm in re.finditer(r'(?m)^([ \t]*)([A-Za-z_][\w\.]*)\s*(\|=|&=)\s*', body):
                        if sc10.is_code(mm.start(2)):
                            m10 = mm
                            break
                    if not m10:
                        break
                    i10 = m10.end()
                    end10 = None
                    while i10 < len(body):
                        if sc10.code[i10]:
                            ch10 = body[i10]
                            if ch10 in '([{' and i10 in sc10.match:
                                i10 = sc10.match[i10] + 1
                                continue
                            if ch10 == ';':
                                end10 = i10
                                break
                        i10 += 1
                    if end10 is None:
                        raise AnchorLost(f'{rel}: fn {qn}: N10: unterminated compound assignment')
                    rhs10 = body[m10.end():end10]
                    rhs_flat = ' '.join(rhs10.split()) if rhs10.count('\n') == 0 else rhs10
                    lhs10 = m10.group(2)
                    if m10.group(3) == '|=':
                        rep = f'{m10.group(1)}if {rhs10} {{ {lhs10} = true; }}'
                    else:
                        rep = f'{m10.group(1)}if !({rhs10}) {{ {lhs10} = false; }}'
                    body = body[:m10.start()] + rep + body[end10 + 1:]
                    norm.counts['N10_bool_compound_assign'] += 1
                # N9
                while True:
                    sc9 = Scan(body)
                    m9 = None
                    for mm in re.finditer(r'\b(debug_assert_eq|assert_eq)!\(', body):
                        if sc9.is_code(mm.start()):
                            m9 = mm
                            break
                    if not m9:
                        break
                    po9 = m9.end() - 1
                    pc9 = sc9.match[po9]
                    args, cur, i9 = [], po9 + 1, po9 + 1
                    while i9 < pc9:
                        if sc9.code[i9]:
                            ch9 = body[i9]
                            if ch9 in '([{' and i9 in sc9.match:
                                i9 = sc9.match[i9] + 1
                                continue
                            if ch9 == ',':
                                args.append(body[cur:i9])
                                cur = i9 + 1
                        i9 += 1
                    args.append(body[cur:pc9])
                    args = [a for a in args if a.strip()]
                    if len(args) != 2:
                        raise AnchorLost(f'{rel}: fn {qn}: N9: assert_eq with a message is not handled')
                    mac = 'debug_assert' if m9.group(1) == 'debug_assert_eq' else 'assert'
                    body = body[:m9.start()] + f'{mac}!(({args[0].strip()}) == ({args[1].strip()}))' + body[pc9 + 1:]
                    norm.counts['N9_assert_eq_as_assert'] += 1
                # N8
                n8pat = re.compile(r'(\b[a-z_]\w*(?:\s*\.\s*[a-z_]\w*\([^()]*\))+)\s*\.\s*map\(((?:[A-Za-z_]\w*::)*[A-Z]\w*)\)\?')
                sc8 = Scan(body)
                def _n8(m8):
                    if not sc8.is_code(m8.start()):
                        return m8.group(0)
                    norm.counts['N8_map_constructor_then_try'] += 1
                    return f'{m8.group(2)}({m8.group(1)}?)'
                body = n8pat.sub(_n8, body)
                if 'tail-loop' in opts:
                    sc7 = Scan(body)
                    loops = [m for m in sc7.finditer_code(r'\b(loop|while|for)\b')]
                    if len(loops) != 1 or loops[0].group(1) != 'loop':
                        raise AnchorLost(f'{rel}: fn {qn}: option tail-loop needs exactly one `loop` and no other loop')
                    ob7 = sc7.next_code_char('{', loops[0].end())
                    cb7 = sc7.match[ob7]
                    if body[cb7 + 1:].strip() != '}':
                        raise AnchorLost(f'{rel}: fn {qn}: option tail-loop: the loop is not the tail expression')
                    inner = body[ob7:cb7 + 1]
                    n7 = len([m for m in Scan(inner).finditer_code(r'\bbreak\s+[^;\s][^;]*;')])
                    if n7 == 0:
                        raise AnchorLost(f'{rel}: fn {qn}: option tail-loop: no `break <value>;`')
                    inner2 = re.sub(r'\bbreak(\s+[^;\s][^;]*;)', r'return\1', inner)
                    body = body[:ob7] + inner2 + body[cb7 + 1:]
                    norm.counts['N7_tail_loop_break_value'] += n7
                if splices:
                    body = norm.splice(body, [tuple(x) for x in splices])
            if 'iter' in opts and sp['ret'] is not None:
                rt = sp['ret'].strip()
                om = re.match(r"^Option<\s*(impl\s+Iterator<.*)>$", rt, re.S)
                rm = re.match(r"^impl\s+Iterator<Item\s*=\s*(.*)>\s*(\+\s*'_)?$", (om.group(1) if om else rt).strip(), re.S)
                if not rm:
                    raise AnchorLost(f'{rel}: fn {qn}: option iter but return type is {sp["ret"]!r}')
                sp = dict(sp)
                sp['ret'] = f"CopyIter<'_, {rm.group(1).strip()}>"
                if om:
                    sp['ret'] = f"Option<{sp['ret']}>"
                norm.counts['N6_impl_iterator_return_type'] += 1
            if nobody:
                # assumed function whose body cannot even be type-checked against this unit's opaque types
                body = '{ unimplemented!() }'
            sig = head
            if sp['ret'] is not None:
                sig += f' -> ({retname}: {sp["ret"]})'
            norm.counts['N3_ret_named_contract_spliced'] += 1
            if sp['where']:
                sig += '\n    ' + sp['where']
            indent = re.match(r'\s*', ln).group(0)
            l_sig = cur_line()
            pieces = []
            for o in opts:
                if o.startswith('attr='):
                    # verifier attribute on the function (e.g. verifier::loop_isolation(false), verifier::rlimit(50))
                    pieces.append(indent + '#[' + o[5:] + ']')
            if external:
                pieces.append(indent + '#[verifier::external_body]')
            pieces.append(indent + sig)
            l_contract = l_sig + len(pieces) - 1 + sig.count('\n') + 1
            pieces.extend(contract)
            l_body = l_sig + sum(p.count('\n') + 1 for p in pieces)
            pieces.append(indent + body)
            block = '\n'.join(pieces)
            out.append(block)
            fns.append(dict(file=rel, qual=qual, name=name, qn=qn, external=external, from_unit=from_unit, src_line=sp['line'],
                            src_body_line=sp['body_line'],
                            out_sig=l_sig, out_contract=l_contract, out_body=l_body,
                            out_end=l_sig + block.count('\n'), contract=[c.strip() for c in contract if c.strip()],
                            impl_header=sp['impl_header']))
            continue
        out.append(ln)
        i += 1
    text = '\n'.join(out)
    meta = dict(functions=fns, items=items, normalisations=norm.counts,
                sources=sorted(files.keys()))
    return text, meta


if __name__ == '__main__':
    tpl = sys.argv[1]
    repo = sys.argv[2] if len(sys.argv) > 2 else '/repo'
    try:
        text, meta = expand(tpl, repo)
    except AnchorLost as e:
        print('ANCHOR-LOST:', e, file=sys.stderr)
        sys.exit(2)
    sys.stdout.write(text)
    if len(sys.argv) > 3:
        with open(sys.argv[3], 'w') as f:
            json.dump(meta, f, indent=1)
