#!/usr/bin/env python3
"""Run one Verus unit: extract real text from /repo, verify, run vacuity canaries, scan assumptions."""
import json
import os
import re
import subprocess
import time
import shutil

from extract import expand, AnchorLost

VERDICT_MSGS = (
    'postcondition not satisfied',
    'precondition not satisfied',
    'assertion failed',
    'possible arithmetic underflow/overflow',
    'possible division by zero',
    'invariant not satisfied',
    'loop invariant not preserved',
    'decreases not satisfied',
    'possible bit shift underflow/overflow',
    'unreachable',
    'recommendation not met',
)
UNDECIDED_MSGS = ('rlimit', 'Resource limit', 'timed out', 'could not prove termination')

ASSUME_PAT = re.compile(r'\baxiom\s+fn\b|\bassume\s*\(|\badmit\s*\(|external_body|assume_specification|\buninterp\b|'
                        r'verifier::external\b|external_type_specification|external_trait_specification|'
                        r'verifier::external_fn_specification|#\[verifier::exec_allows_no_decreases_clause\]')


class UnitResult:
    def __init__(self, unit):
        self.unit = unit
        self.status = 'ok'            # ok | violation | undecided
        self.reason = ''
        self.obligations = []         # dict(name, kind, ok, time_ms, assumed)
        self.failures = []            # dict(obligation, message, clause, gen_loc, src_loc, rendered)
        self.canaries = {}            # fn -> bool(failed as required)
        self.assumptions = []         # scanned lines
        self.meta = {}
        self.verus_ms = 0
        self.smt_ms = 0
        self.wall_s = 0.0
        self.cmd = ''
        self.gen_path = ''


def _run_verus(path, extra=(), timeout=900, multiple=8):
    cmd = ['verus', path, '--error-format=json', '--output-json', '--time', '--multiple-errors', str(multiple),
           '--num-threads', '8'] + list(extra)
    env = dict(os.environ)
    p = subprocess.run(cmd, stdout=subprocess.PIPE, stderr=subprocess.PIPE, text=True, timeout=timeout,
                       cwd=os.path.dirname(path), env=env)
    diags = []
    other = []
    for ln in p.stderr.splitlines():
        ln = ln.strip()
        if ln.startswith('{'):
            try:
                d = json.loads(ln)
                if d.get('$message_type') == 'diagnostic':
                    diags.append(d)
                    continue
            except Exception:
                pass
        if ln:
            other.append(ln)
    try:
        js = json.loads(p.stdout) if p.stdout.strip() else {}
    except Exception:
        js = {}
    return ' '.join(cmd), p.returncode, js, diags, other


def _fn_ranges(text, meta):
    """line ranges (1-based, inclusive) -> name for extracted fns and hand-written proof/spec fns"""
    rng = []
    for f in meta['functions']:
        rng.append((f['out_sig'], f['out_end'], f['qn'].replace('-::', ''), f))
    lines = text.split('\n')
    taken = set()
    for a, b, _, _ in rng:
        taken.update(range(a, b + 1))
    cur = None
    for i, ln in enumerate(lines, 1):
        if i in taken:
            continue
        m = re.match(r'\s*(?:pub\s+)?(?:broadcast\s+)?(?:proof|exec)?\s*fn\s+([A-Za-z_0-9]+)', ln)
        if m and ('proof fn' in ln or re.match(r'\s*(pub(\(crate\))?\s+)?fn\s', ln)):
            if cur:
                rng.append((cur[0], i - 1, cur[1], None))
            cur = (i, m.group(1))
    if cur:
        rng.append((cur[0], len(lines), cur[1], None))
    return rng


def _locate(line, ranges):
    best = None
    for a, b, name, f in ranges:
        if a <= line <= b:
            if best is None or (b - a) < (best[1] - best[0]):
                best = (a, b, name, f)
    return best


def _short(s, n=160):
    s = ' '.join(s.split())
    return s if len(s) <= n else s[:n - 3] + '...'


def verified_in(here, unit, rel, qn):
    """True iff units/<unit>/unit.rs (with its includes) holds a `//@fn <rel> <qn>` directive that is verified there (no
    `external` / `nobody` option and not itself an import)."""
    def lines_of(path, seen):
        out = []
        if path in seen or not os.path.exists(path):
            return out
        seen.add(path)
        for ln in open(path, encoding='utf-8').read().split('\n'):
            st = ln.strip()
            if st.startswith('//@include '):
                out += lines_of(os.path.join(here, 'units', st.split()[1]), seen)
            else:
                out.append(st)
        return out
    for st in lines_of(os.path.join(here, 'units', unit, 'unit.rs'), set()):
        parts = st.split()
        if len(parts) >= 3 and parts[0] == '//@fn' and parts[1] == rel and parts[2] == qn:
            return not ({'external', 'nobody'} & set(parts[3:]))
    return False


def run_unit(unit_dir, repo, work, rlimit=None, stability_seeds=()):
    unit = os.path.basename(unit_dir.rstrip('/'))
    res = UnitResult(unit)
    t0 = time.time()
    tpl = os.path.join(unit_dir, 'unit.rs')
    os.makedirs(work, exist_ok=True)
    try:
        text, meta = expand(tpl, repo)
    except AnchorLost as e:
        res.status = 'undecided'
        res.reason = f'anchor lost: {e}'
        res.wall_s = time.time() - t0
        return res
    res.meta = meta
    gen = os.path.join(work, unit + '.rs')
    with open(gen, 'w') as f:
        f.write(text)
    res.gen_path = gen

    # assumption scan against the declared list
    scanned = []
    tl = text.split('\n')
    for i, ln in enumerate(tl):
        if ASSUME_PAT.search(ln) and not ln.strip().startswith('//'):
            s1 = ' '.join(ln.split())
            if s1.startswith('#['):
                # attribute: attach the item line it applies to
                j = i + 1
                while j < len(tl) and (not tl[j].strip() or tl[j].strip().startswith('#[')):
                    j += 1
                if j < len(tl):
                    s1 += ' ' + ' '.join(tl[j].split())
            scanned.append(s1)
    res.assumptions = scanned
    decl_path = os.path.join(unit_dir, 'assumptions.txt')
    declared = []
    if os.path.exists(decl_path):
        with open(decl_path) as f:
            declared = [' '.join(l.split()) for l in f if l.strip() and not l.startswith('//')]
    if sorted(declared) != sorted(scanned):
        res.status = 'undecided'
        extra = [s for s in scanned if s not in declared]
        missing = [s for s in declared if s not in scanned]
        res.reason = f'assumption scan differs from declared list: undeclared={extra} stale={missing}'
        res.wall_s = time.time() - t0
        return res

    extra = ['--rlimit', str(rlimit)] if rlimit else []
    cmd, rc, js, diags, other = _run_verus(gen, extra)
    res.cmd = cmd
    ranges = _fn_ranges(text, meta)
    vr = js.get('verification-results', {})
    times = js.get('times-ms', {})
    res.verus_ms = times.get('total', 0)
    res.smt_ms = times.get('smt', {}).get('total', 0)

    # per function breakdown
    ext_names = {f['name'] for f in meta['functions'] if f['external']}
    fb = []
    for mod in times.get('smt', {}).get('smt-run-module-times', []):
        fb.extend(mod.get('function-breakdown', []))
    by_name = {}
    for b in fb:
        nm = b['function'].split('::', 1)[1] if '::' in b['function'] else b['function']
        d = by_name.setdefault(nm, dict(name=nm, kind=b.get('mode:', b.get('mode', '?')), ok=True, time_ms=0))
        d['ok'] = d['ok'] and bool(b.get('success'))
        d['time_ms'] += b.get('time', 0)
    res.obligations = list(by_name.values())

    errors = [d for d in diags if d.get('level') == 'error']
    hard = []
    for d in errors:
        msg = d.get('message', '')
        if msg.startswith('aborting due to'):
            continue
        def _with_expansions(spans):
            # a span inside a macro definition (e.g. the broker's send! macro) carries the call site in `expansion`
            out = []
            for sp in spans:
                out.append(sp)
                e = sp.get('expansion')
                while e and e.get('span'):
                    out.append(e['span'])
                    e = e['span'].get('expansion')
            return out
        prim = _with_expansions([s for s in d.get('spans', []) if s.get('is_primary')])
        allspans = _with_expansions(d.get('spans', []))
        line = prim[0]['line_start'] if prim else 0
        is_verdict = any(v in msg for v in VERDICT_MSGS)
        is_undec = any(v in msg for v in UNDECIDED_MSGS)
        if is_undec or not is_verdict:
            hard.append(_short(msg) + (f' (generated line {line})' if line else ''))
            continue
        # attribute to a function: prefer any span that lies inside a function range
        # prefer a span inside an extracted function (for a failed precondition the primary span is the callee's
        # `requires` clause, the call site is a secondary span), then fall back to hand-written proof functions
        loc = None
        for s in [*prim, *allspans]:
            l2 = _locate(s['line_start'], ranges)
            if l2 and l2[3] is not None and not l2[3]['external']:
                loc = l2
                break
        if loc is None:
            for s in [*prim, *allspans]:
                loc = _locate(s['line_start'], ranges)
                if loc:
                    break
        name = loc[2] if loc else '<toplevel>'
        f = loc[3] if loc else None
        clause = ''
        if prim and prim[0].get('text'):
            clause = _short(' '.join(t['text'].strip() for t in prim[0]['text']))
        src_loc = ''
        if f is not None:
            body_line = None
            for s in allspans:
                if s['line_start'] >= f['out_body']:
                    body_line = s['line_start']
                    break
            if body_line is not None:
                src_loc = f"{f['file']}:{f['src_body_line'] + (body_line - f['out_body'])}"
            else:
                src_loc = f"{f['file']}:{f['src_line']}"
        res.failures.append(dict(obligation=f'{unit}::{name}', message=msg, clause=clause,
                                 gen_loc=f'{os.path.basename(gen)}:{line}', src_loc=src_loc,
                                 rendered=d.get('rendered', '')))
    if hard:
        res.status = 'undecided'
        res.reason = 'verus reported non-verdict errors: ' + ' | '.join(hard[:6])
        res.wall_s = time.time() - t0
        return res
    if not vr:
        res.status = 'undecided'
        res.reason = 'verus produced no verification results: ' + ' | '.join(other[:6])
        res.wall_s = time.time() - t0
        return res
    if res.failures:
        res.status = 'violation'
        # second run with --expand-errors: Verus narrows a failed contract down to the failing conjunct(s); the rendered
        # output is attached to each failure so that the replay file names the exact sub-clause
        try:
            p2 = subprocess.run(['verus', gen, '--expand-errors', '--multiple-errors', '8', '--triggers-mode', 'silent'],
                                stdout=subprocess.PIPE, stderr=subprocess.PIPE, text=True, timeout=600,
                                cwd=os.path.dirname(gen))
            exp = p2.stderr
            # split into diagnostics ("error:" ... up to the next "error:"), keep those whose span lies in the function
            diags2 = re.split(r'\n(?=error: )', exp)
            for fl in res.failures:
                nm = fl['obligation'].split('::')[-1]
                rng = [r for r in ranges if r[2].split('::')[-1] == nm]
                keep = []
                for dg in diags2:
                    ms = re.findall(r'--> [^:\n]+:(\d+):\d+', dg)
                    if rng and any(rng[0][0] <= int(x) <= rng[0][1] for x in ms):
                        keep.append(dg)
                if not rng:
                    keep = diags2
                fl['rendered'] = fl.get('rendered', '') + '\n--- verus --expand-errors (✔ holds, ✘ fails) ---\n' + '\n'.join(keep)[:8000]
        except Exception as e:
            pass
    elif not vr.get('success') or vr.get('errors', 0) != 0:
        res.status = 'undecided'
        res.reason = f'verus unsuccessful without a verdict diagnostic: {vr} {other[:4]}'
        res.wall_s = time.time() - t0
        return res
    if vr.get('verified', 0) == 0:
        res.status = 'undecided'
        res.reason = 'zero obligations verified'
        res.wall_s = time.time() - t0
        return res

    # every extracted function under contract must appear in the breakdown (otherwise Verus skipped it)
    names_seen = {o['name'].split('::')[-1] for o in res.obligations}
    for f in meta['functions']:
        if not f['external'] and f['name'] not in names_seen:
            # functions with trivially empty bodies may not generate a query; accept only if listed
            res.status = 'undecided' if res.status == 'ok' else res.status
            res.reason += f" function {f['qn']} generated no query;"

    # canaries (only meaningful when the unit otherwise verifies)
    if res.status == 'ok':
        lines = text.split('\n')
        canary_lines = {}
        offset = 0
        # insert after the line holding the opening brace of each body (out_body is that line)
        inserts = []
        for f in meta['functions']:
            if f['external']:
                continue
            inserts.append((f['out_body'], f['qn']))
        inserts.sort()
        new = []
        ins_at = {a: qn for a, qn in inserts}
        for i, ln in enumerate(lines, 1):
            new.append(ln)
            if i in ins_at:
                # the body line starts with `{`; it may contain more than the brace only when body is 1 line
                if ln.strip() == '{':
                    new.append('proof { assert(false); } // CANARY ' + ins_at[i])
                    canary_lines[len(new)] = ins_at[i]
                else:
                    # single-line body `{ expr }` -> rewrite first brace
                    j = ln.index('{')
                    new[-1] = ln[:j + 1] + ' proof { assert(false); } /* CANARY */ ' + ln[j + 1:]
                    canary_lines[len(new)] = ins_at[i]
        cpath = os.path.join(work, unit + '_canary.rs')
        with open(cpath, 'w') as f:
            f.write('\n'.join(new))
        _, _, cjs, cdiags, cother = _run_verus(cpath, multiple=1)
        failed_lines = set()
        for d in cdiags:
            if d.get('level') == 'error' and 'assertion failed' in d.get('message', ''):
                for s in d.get('spans', []):
                    failed_lines.add(s['line_start'])
        for ln_no, qn in canary_lines.items():
            res.canaries[qn] = ln_no in failed_lines
        bad = [qn for qn, ok in res.canaries.items() if not ok]
        if bad:
            res.status = 'undecided'
            res.reason = f'vacuous: canary assert(false) verified under the preconditions of {bad}'
    # thorough tier: the same unit under other solver seeds. A proof that holds under one seed and not under another is
    # unstable: reported as undecided (exit 2), never as a violation.
    if res.status == 'ok' and stability_seeds:
        res.stability = {}
        for sd in stability_seeds:
            _, _, sjs, sdiags, _ = _run_verus(gen, ['--smt-option', f'smt.random_seed={sd}', '--smt-option', f'sat.random_seed={sd}'])
            svr = sjs.get('verification-results', {})
            ok = bool(svr.get('success')) and svr.get('errors', 1) == 0
            res.stability[str(sd)] = ok
        bad = [k for k, v in res.stability.items() if not v]
        if bad:
            res.status = 'undecided'
            res.reason = f'unstable proof: verified with the default solver seed but not with seed(s) {bad}'
    res.wall_s = time.time() - t0
    return res


if __name__ == '__main__':
    import sys
    # usage: verus_unit.py <unit> [--declare]   -> run the unit; with --declare rewrite assumptions.txt from the scan
    here = os.path.dirname(os.path.dirname(os.path.abspath(__file__)))
    unit = sys.argv[1]
    udir = os.path.join(here, 'units', unit)
    if '--declare' in sys.argv:
        text, meta = expand(os.path.join(udir, 'unit.rs'), '/repo')
        open(os.path.join(udir, 'assumptions.txt'), 'w').write('')
        r = run_unit(udir, '/repo', os.path.join(here, 'work', '_declare', unit))
        with open(os.path.join(udir, 'assumptions.txt'), 'w') as f:
            f.write(f'// declared assumptions of unit {unit} (must equal the mechanical scan of the generated file)\n')
            for a in r.assumptions:
                f.write(a + '\n')
        print(f'declared {len(r.assumptions)} assumptions')
    r = run_unit(udir, '/repo', os.path.join(here, 'work', '_single', unit))
    print(r.status, r.reason)
    for o in r.obligations:
        print('  ', o)
    for f in r.failures:
        print('FAIL', f['obligation'], f['message'], f['clause'], f['src_loc'])
    print('canaries', r.canaries)
