use aldrin_core::message::Packetizer;

#[test]
fn spare_capacity_can_be_empty_without_draining() {
    let mut p = Packetizer::new();
    p.extend_from_slice(&[100, 0, 0, 0]);
    assert!(p.next_message().is_none()); // caches len = 100
    let n = {
        let s = p.spare_capacity_mut();
        for b in s.iter_mut() {
            b.write(0);
        }
        s.len()
    };
    unsafe { p.bytes_written(n) }; // fill the spare capacity completely; a complete frame is now buffered
    let s = p.spare_capacity_mut(); // NOT drained first
    assert!(!s.is_empty(), "empty slice handed out");
}
