//! The channel counter of the broker statistics must equal the number of live channels, also when a
//! connection vanishes while its `CreateChannel` request is still sitting in the broker's queue.

use aldrin_broker::{Broker, BrokerHandle, Connection};
use aldrin_core::channel::{self, Unbounded};
use aldrin_core::message::{
    Connect2, ConnectData, ConnectResult, CreateChannel, CreateChannelReply, Message, Sync,
};
use aldrin_core::transport::AsyncTransportExt;
use aldrin_core::{ChannelEndWithCapacity, ProtocolVersion, SerializedValue};

const VERSION: ProtocolVersion = ProtocolVersion::V1_16;

async fn connect(handle: &mut BrokerHandle) -> (Unbounded, Connection<Unbounded>) {
    let (mut client, broker) = channel::unbounded();

    client
        .send_and_flush(Connect2 {
            major_version: VERSION.major(),
            minor_version: VERSION.minor(),
            value: SerializedValue::serialize(ConnectData::new()).unwrap(),
        })
        .await
        .unwrap();

    let conn = handle.connect(broker).await.unwrap();

    let Message::ConnectReply2(reply) = client.receive().await.unwrap() else {
        panic!("expected connect-reply2");
    };
    assert_eq!(reply.result, ConnectResult::Ok(VERSION.minor()));

    (client, conn)
}

#[tokio::test]
async fn channel_counter_after_vanished_create_channel() {
    // Single-threaded runtime: spawned tasks only run while this test awaits.
    let broker = Broker::new();
    let mut handle = broker.handle().clone();
    let join = tokio::spawn(broker.run());

    // A well-behaved client creates a channel and keeps it.
    let (mut client1, conn1) = connect(&mut handle).await;
    tokio::spawn(conn1.run());
    client1
        .send_and_flush(CreateChannel {
            serial: 0,
            end: ChannelEndWithCapacity::Sender,
        })
        .await
        .unwrap();
    let reply = client1.receive().await.unwrap();
    assert!(
        matches!(
            reply,
            Message::CreateChannelReply(CreateChannelReply { serial: 0, .. })
        ),
        "unexpected reply: {reply:?}"
    );

    // A second client requests a channel. Its connection forwards the request into the broker's
    // queue and is then torn down (e.g. the task running it gets cancelled) before the broker gets
    // around to handling the request. The connection is polled by hand, so the broker task cannot
    // run in between.
    let (mut client2, conn2) = connect(&mut handle).await;
    client2
        .send_and_flush(CreateChannel {
            serial: 0,
            end: ChannelEndWithCapacity::Sender,
        })
        .await
        .unwrap();
    let mut conn2 = Box::pin(conn2.run());
    for _ in 0..8 {
        let pending = std::future::poll_fn(|cx| {
            use std::future::Future;
            std::task::Poll::Ready(conn2.as_mut().poll(cx).is_pending())
        })
        .await;
        assert!(pending);
    }
    drop(conn2);
    drop(client2);

    // Let the broker handle its backlog.
    client1.send_and_flush(Sync { serial: 1 }).await.unwrap();
    assert!(matches!(
        client1.receive().await.unwrap(),
        Message::SyncReply(_)
    ));

    let stats = handle.take_statistics().await.unwrap();
    eprintln!("STATS {:?}", stats);
    assert_eq!(stats.num_connections(), 1);
    // Exactly one channel is alive: the one of the first client.
    assert_eq!(stats.num_channels(), 1);

    handle.shutdown().await;
    join.await.unwrap();
}
