use aldrin_core::{SerializedValue, Value};
use std::collections::HashSet;

#[test]
fn skip_u16_set_large_key() {
    let mut s = HashSet::new();
    s.insert(1000u16);
    let v = Value::U16Set(s);
    let sv = SerializedValue::serialize(&v).unwrap();
    eprintln!("{:?}", &sv[..]);
    let back: Value = sv.deserialize().unwrap();
    assert_eq!(back, v);
    // measuring the value must report the whole length
    let n = sv.len();
    eprintln!("len={n}");
    // wrap: vec of two values, first is the set, then a u8; skip first then decode
    let vv = Value::Vec(vec![v.clone(), Value::U8(7)]);
    let svv = SerializedValue::serialize(&vv).unwrap();
    let back: Vec<aldrin_core::SerializedValue> = svv.deserialize().unwrap();
    eprintln!("{:?}", back);
    let b0: Value = back[0].deserialize().unwrap();
    assert_eq!(b0, v);
    let b1: Value = back[1].deserialize().unwrap();
    assert_eq!(b1, Value::U8(7));
}
