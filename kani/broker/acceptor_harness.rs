// Kani harness for broker/src/acceptor.rs (child module of `acceptor`): private fn select_protocol_version.
use super::select_protocol_version;
use aldrin_core::ProtocolVersion;

// Specification from the property statement: a handshake succeeds exactly for protocol 1.14 via the legacy connect
// message and for 1.x with x >= 14 via the new one; the negotiated version is min(client, 1.20).
// obligation: C12.select_protocol_version | harness: c12_select_protocol_version | kind: complete | bound: none (all major x minor x connect-kind, loop-free) | tier: quick
#[kani::proof]
fn c12_select_protocol_version() {
    let (major, minor): (u32, u32) = (kani::any(), kani::any());
    let connect2: bool = kani::any();
    let r = select_protocol_version(ProtocolVersion::new(major, minor), connect2);
    let accept = major == 1 && if connect2 { minor >= 14 } else { minor == 14 };
    match r {
        Some(v) => {
            assert!(accept);
            assert!(v.major() == 1);
            assert!(v.minor() == if minor < 20 { minor } else { 20 });
            // the negotiated version is always one of the supported versions and never newer than the client's
            assert!(v.minor() >= 14 && v.minor() <= 20);
            assert!(v.minor() <= minor);
        }
        None => {
            assert!(!accept);
        }
    }
    kani::cover!(r.is_some() && minor > 20);
    kani::cover!(r.is_none() && major == 1);
}
