// Kani harnesses for core/src/bus_listener.rs (child module of `bus_listener`).
use super::{BusEvent, BusListenerFilter, BusListenerScope, BusListenerServiceFilter};
use crate::{ObjectCookie, ObjectId, ObjectUuid, ServiceCookie, ServiceId, ServiceUuid};
use uuid::Uuid;

fn any_uuid() -> Uuid {
    let b: [u8; 16] = kani::any();
    Uuid::from_bytes(b)
}

fn any_opt_uuid() -> Option<Uuid> {
    if kani::any() {
        Some(any_uuid())
    } else {
        None
    }
}

fn any_filter() -> BusListenerFilter {
    if kani::any() {
        BusListenerFilter::Object(any_opt_uuid().map(ObjectUuid))
    } else {
        BusListenerFilter::Service(BusListenerServiceFilter {
            object: any_opt_uuid().map(ObjectUuid),
            service: any_opt_uuid().map(ServiceUuid),
        })
    }
}

// Specification written from the property statement, independent of the code:
//   an object filter without uuid matches every object, with uuid u matches objects whose uuid is u; service filters
//   match no object. A service filter matches a service iff each PRESENT component (object uuid, service uuid) equals
//   the service's; object filters match no service. Cookies never matter.
fn spec_matches_object(f: BusListenerFilter, o: ObjectId) -> bool {
    match f {
        BusListenerFilter::Object(None) => true,
        BusListenerFilter::Object(Some(u)) => *u.0.as_bytes() == *o.uuid.0.as_bytes(),
        BusListenerFilter::Service(_) => false,
    }
}

fn spec_matches_service(f: BusListenerFilter, s: ServiceId) -> bool {
    match f {
        BusListenerFilter::Object(_) => false,
        BusListenerFilter::Service(sf) => {
            let obj_ok = match sf.object {
                None => true,
                Some(u) => *u.0.as_bytes() == *s.object_id.uuid.0.as_bytes(),
            };
            let svc_ok = match sf.service {
                None => true,
                Some(u) => *u.0.as_bytes() == *s.uuid.0.as_bytes(),
            };
            obj_ok && svc_ok
        }
    }
}

// obligation: C10.filter_matches_object | harness: c10_filter_matches_object | kind: complete | bound: none (all six filter shapes x all 128-bit ids, loop-free) | tier: quick
#[kani::proof]
#[kani::unwind(20)]
fn c10_filter_matches_object() {
    let f = any_filter();
    let o = ObjectId::new(ObjectUuid(any_uuid()), ObjectCookie(any_uuid()));
    assert!(f.matches_object(o) == spec_matches_object(f, o));
    kani::cover!(f.matches_object(o) && matches!(f, BusListenerFilter::Object(Some(_))));
    kani::cover!(!f.matches_object(o) && matches!(f, BusListenerFilter::Object(Some(_))));
}

// obligation: C10.filter_matches_service | harness: c10_filter_matches_service | kind: complete | bound: none (all six filter shapes x all 128-bit ids, loop-free) | tier: quick
#[kani::proof]
#[kani::unwind(20)]
fn c10_filter_matches_service() {
    let f = any_filter();
    let s = ServiceId::new(
        ObjectId::new(ObjectUuid(any_uuid()), ObjectCookie(any_uuid())),
        ServiceUuid(any_uuid()),
        ServiceCookie(any_uuid()),
    );
    assert!(f.matches_service(s) == spec_matches_service(f, s));
    kani::cover!(f.matches_service(s) && matches!(f, BusListenerFilter::Service(BusListenerServiceFilter { object: Some(_), service: Some(_) })));
    kani::cover!(!f.matches_service(s) && matches!(f, BusListenerFilter::Service(_)));
}

// obligation: C10.filter_matches_event | harness: c10_filter_matches_event | kind: complete | bound: none (all filters x all four bus events x all ids) | tier: quick
#[kani::proof]
#[kani::unwind(20)]
fn c10_filter_matches_event() {
    let f = any_filter();
    let o = ObjectId::new(ObjectUuid(any_uuid()), ObjectCookie(any_uuid()));
    let s = ServiceId::new(o, ServiceUuid(any_uuid()), ServiceCookie(any_uuid()));
    let which: u8 = kani::any();
    kani::assume(which < 4);
    let (ev, expect) = match which {
        0 => (BusEvent::ObjectCreated(o), spec_matches_object(f, o)),
        1 => (BusEvent::ObjectDestroyed(o), spec_matches_object(f, o)),
        2 => (BusEvent::ServiceCreated(s), spec_matches_service(f, s)),
        _ => (BusEvent::ServiceDestroyed(s), spec_matches_service(f, s)),
    };
    assert!(f.matches_event(ev) == expect);
}

// obligation: C10.scope_table | harness: c10_scope_table | kind: complete | bound: none (all three scopes) | tier: quick
#[kani::proof]
fn c10_scope_table() {
    let which: u8 = kani::any();
    kani::assume(which < 3);
    let (scope, cur, new) = match which {
        0 => (BusListenerScope::Current, true, false),
        1 => (BusListenerScope::New, false, true),
        _ => (BusListenerScope::All, true, true),
    };
    assert!(scope.includes_current() == cur);
    assert!(scope.includes_new() == new);
}
