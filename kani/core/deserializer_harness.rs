// Kani harnesses for core/src/deserializer.rs + core/src/serializer.rs (child module of `deserializer`).
// All calls go to the real Serializer / Deserializer. Harness rule (DESIGN 4.C01): serialize into a fresh
// BytesMut::with_capacity(96) through the crate-private Serializer::new(&mut buf, 0), read back from &buf[..] as a plain slice,
// no unwrap/expect/assert_eq.
use super::Deserializer;
use crate::serializer::Serializer;
use crate::{
    ChannelCookie, DeserializeError, ObjectCookie, ObjectId, ObjectUuid, ServiceCookie, ServiceId, ServiceUuid,
    ValueKind,
};
use bytes::BytesMut;
use uuid::Uuid;

// Sound stub: every harness writes into a BytesMut created with enough capacity, so BytesMut::reserve_inner (the
// re-allocation path that dominates CBMC's cost) must be unreachable. The stub turns "unreachable" into a proof
// obligation (assert!(false)); nothing is assumed about the bytes crate.
#[allow(dead_code)]
fn no_reserve_inner(_this: &mut BytesMut, _additional: usize, _allocate: bool) -> bool {
    assert!(false);
    true
}

// ------------------------------------------------------------------------------------------------------------
// C01.3  every scalar kind round-trips bit-for-bit, first byte is the kind, all bytes consumed;
// (skip agreement on these encodings is covered by the C07.decode_vs_skip_* harnesses over arbitrary bytes; keeping
// Deserializer::skip out of these harnesses keeps the recursion unwinding of the 63-way walker out of the formula)
macro_rules! scalar_roundtrip {
    ($name:ident, $ty:ty, $ser:ident, $de:ident, $kind:expr, $unw:expr) => {
        #[kani::proof]
        #[kani::stub(bytes::BytesMut::reserve_inner, no_reserve_inner)]
        #[kani::unwind($unw)]
        fn $name() {
            let x: $ty = kani::any();
            let mut buf = BytesMut::with_capacity(96);
            match Serializer::new(&mut buf, 0) {
                Ok(s) => {
                    assert!(s.$ser(x).is_ok());
                }
                Err(_) => {
                    assert!(false);
                }
            }
            assert!(buf.len() >= 2);
            assert!(buf[0] == $kind as u8);
            let mut s: &[u8] = &buf[..];
            match Deserializer::new(&mut s, 0) {
                Ok(d) => match d.$de() {
                    Ok(y) => {
                        assert!(y == x);
                    }
                    Err(_) => {
                        assert!(false);
                    }
                },
                Err(_) => {
                    assert!(false);
                }
            }
            assert!(s.is_empty());
        }
    };
}

// obligation: C01.scalar_roundtrip_bool | harness: c01_scalar_roundtrip_bool | kind: complete | bound: none (all values) | tier: quick
scalar_roundtrip!(c01_scalar_roundtrip_bool, bool, serialize_bool, deserialize_bool, ValueKind::Bool, 4);
// obligation: C01.scalar_roundtrip_u8 | harness: c01_scalar_roundtrip_u8 | kind: complete | bound: none (all values) | tier: quick
scalar_roundtrip!(c01_scalar_roundtrip_u8, u8, serialize_u8, deserialize_u8, ValueKind::U8, 4);
// obligation: C01.scalar_roundtrip_i8 | harness: c01_scalar_roundtrip_i8 | kind: complete | bound: none (all values) | tier: quick
scalar_roundtrip!(c01_scalar_roundtrip_i8, i8, serialize_i8, deserialize_i8, ValueKind::I8, 4);
// obligation: C01.scalar_roundtrip_u16 | harness: c01_scalar_roundtrip_u16 | kind: complete | bound: none (all values) | tier: quick
scalar_roundtrip!(c01_scalar_roundtrip_u16, u16, serialize_u16, deserialize_u16, ValueKind::U16, 6);
// obligation: C01.scalar_roundtrip_i16 | harness: c01_scalar_roundtrip_i16 | kind: complete | bound: none (all values) | tier: quick
scalar_roundtrip!(c01_scalar_roundtrip_i16, i16, serialize_i16, deserialize_i16, ValueKind::I16, 6);
// obligation: C01.scalar_roundtrip_u32 | harness: c01_scalar_roundtrip_u32 | kind: complete | bound: none (all values) | tier: quick
scalar_roundtrip!(c01_scalar_roundtrip_u32, u32, serialize_u32, deserialize_u32, ValueKind::U32, 8);
// obligation: C01.scalar_roundtrip_i32 | harness: c01_scalar_roundtrip_i32 | kind: complete | bound: none (all values) | tier: quick
scalar_roundtrip!(c01_scalar_roundtrip_i32, i32, serialize_i32, deserialize_i32, ValueKind::I32, 8);
// obligation: C01.scalar_roundtrip_u64 | harness: c01_scalar_roundtrip_u64 | kind: complete | bound: none (all values) | tier: quick
scalar_roundtrip!(c01_scalar_roundtrip_u64, u64, serialize_u64, deserialize_u64, ValueKind::U64, 12);
// obligation: C01.scalar_roundtrip_i64 | harness: c01_scalar_roundtrip_i64 | kind: complete | bound: none (all values) | tier: quick
scalar_roundtrip!(c01_scalar_roundtrip_i64, i64, serialize_i64, deserialize_i64, ValueKind::I64, 12);

// floats: bit-for-bit over all 2^32 / 2^64 bit patterns including every NaN payload
// obligation: C01.scalar_roundtrip_f32 | harness: c01_scalar_roundtrip_f32 | kind: complete | bound: none (all 2^32 bit patterns) | tier: quick
#[kani::proof]
#[kani::stub(bytes::BytesMut::reserve_inner, no_reserve_inner)]
#[kani::unwind(8)]
fn c01_scalar_roundtrip_f32() {
    let bits: u32 = kani::any();
    let x = f32::from_bits(bits);
    let mut buf = BytesMut::with_capacity(96);
    match Serializer::new(&mut buf, 0) {
        Ok(s) => {
            assert!(s.serialize_f32(x).is_ok());
        }
        Err(_) => {
            assert!(false);
        }
    }
    assert!(buf.len() == 5);
    assert!(buf[0] == ValueKind::F32 as u8);
    let mut s: &[u8] = &buf[..];
    match Deserializer::new(&mut s, 0) {
        Ok(d) => match d.deserialize_f32() {
            Ok(y) => {
                assert!(y.to_bits() == bits);
            }
            Err(_) => {
                assert!(false);
            }
        },
        Err(_) => {
            assert!(false);
        }
    }
    assert!(s.is_empty());
}

// obligation: C01.scalar_roundtrip_f64 | harness: c01_scalar_roundtrip_f64 | kind: complete | bound: none (all 2^64 bit patterns) | tier: quick
#[kani::proof]
#[kani::stub(bytes::BytesMut::reserve_inner, no_reserve_inner)]
#[kani::unwind(12)]
fn c01_scalar_roundtrip_f64() {
    let bits: u64 = kani::any();
    let x = f64::from_bits(bits);
    let mut buf = BytesMut::with_capacity(96);
    match Serializer::new(&mut buf, 0) {
        Ok(s) => {
            assert!(s.serialize_f64(x).is_ok());
        }
        Err(_) => {
            assert!(false);
        }
    }
    assert!(buf.len() == 9);
    assert!(buf[0] == ValueKind::F64 as u8);
    let mut s: &[u8] = &buf[..];
    match Deserializer::new(&mut s, 0) {
        Ok(d) => match d.deserialize_f64() {
            Ok(y) => {
                assert!(y.to_bits() == bits);
            }
            Err(_) => {
                assert!(false);
            }
        },
        Err(_) => {
            assert!(false);
        }
    }
    assert!(s.is_empty());
}

fn any_uuid() -> Uuid {
    let b: [u8; 16] = kani::any();
    Uuid::from_bytes(b)
}

// obligation: C01.scalar_roundtrip_uuid | harness: c01_scalar_roundtrip_uuid | kind: complete | bound: none (all 128-bit values) | tier: quick
#[kani::proof]
#[kani::stub(bytes::BytesMut::reserve_inner, no_reserve_inner)]
#[kani::unwind(20)]
fn c01_scalar_roundtrip_uuid() {
    let x = any_uuid();
    let mut buf = BytesMut::with_capacity(96);
    match Serializer::new(&mut buf, 0) {
        Ok(s) => {
            assert!(s.serialize_uuid(x).is_ok());
        }
        Err(_) => {
            assert!(false);
        }
    }
    assert!(buf.len() == 17);
    assert!(buf[0] == ValueKind::Uuid as u8);
    let mut s: &[u8] = &buf[..];
    match Deserializer::new(&mut s, 0) {
        Ok(d) => match d.deserialize_uuid() {
            Ok(y) => {
                assert!(*y.as_bytes() == *x.as_bytes());
            }
            Err(_) => {
                assert!(false);
            }
        },
        Err(_) => {
            assert!(false);
        }
    }
    assert!(s.is_empty());
}

// obligation: C01.scalar_roundtrip_object_id | harness: c01_scalar_roundtrip_object_id | kind: complete | bound: none (all 256-bit values) | tier: quick
#[kani::proof]
#[kani::stub(bytes::BytesMut::reserve_inner, no_reserve_inner)]
#[kani::unwind(20)]
fn c01_scalar_roundtrip_object_id() {
    let u = any_uuid();
    let c = any_uuid();
    let x = ObjectId::new(ObjectUuid(u), ObjectCookie(c));
    let mut buf = BytesMut::with_capacity(96);
    match Serializer::new(&mut buf, 0) {
        Ok(s) => {
            assert!(s.serialize_object_id(x).is_ok());
        }
        Err(_) => {
            assert!(false);
        }
    }
    assert!(buf.len() == 33);
    assert!(buf[0] == ValueKind::ObjectId as u8);
    let mut s: &[u8] = &buf[..];
    match Deserializer::new(&mut s, 0) {
        Ok(d) => match d.deserialize_object_id() {
            Ok(y) => {
                assert!(*y.uuid.0.as_bytes() == *u.as_bytes());
                assert!(*y.cookie.0.as_bytes() == *c.as_bytes());
            }
            Err(_) => {
                assert!(false);
            }
        },
        Err(_) => {
            assert!(false);
        }
    }
    assert!(s.is_empty());
}

// obligation: C01.scalar_roundtrip_service_id | harness: c01_scalar_roundtrip_service_id | kind: complete | bound: none (all 512-bit values) | tier: quick
#[kani::proof]
#[kani::stub(bytes::BytesMut::reserve_inner, no_reserve_inner)]
#[kani::unwind(20)]
fn c01_scalar_roundtrip_service_id() {
    let (a, b, c, e) = (any_uuid(), any_uuid(), any_uuid(), any_uuid());
    let x = ServiceId::new(ObjectId::new(ObjectUuid(a), ObjectCookie(b)), ServiceUuid(c), ServiceCookie(e));
    let mut buf = BytesMut::with_capacity(96);
    match Serializer::new(&mut buf, 0) {
        Ok(s) => {
            assert!(s.serialize_service_id(x).is_ok());
        }
        Err(_) => {
            assert!(false);
        }
    }
    assert!(buf.len() == 65);
    assert!(buf[0] == ValueKind::ServiceId as u8);
    let mut s: &[u8] = &buf[..];
    match Deserializer::new(&mut s, 0) {
        Ok(d) => match d.deserialize_service_id() {
            Ok(y) => {
                assert!(*y.object_id.uuid.0.as_bytes() == *a.as_bytes());
                assert!(*y.object_id.cookie.0.as_bytes() == *b.as_bytes());
                assert!(*y.uuid.0.as_bytes() == *c.as_bytes());
                assert!(*y.cookie.0.as_bytes() == *e.as_bytes());
            }
            Err(_) => {
                assert!(false);
            }
        },
        Err(_) => {
            assert!(false);
        }
    }
    assert!(s.is_empty());
}

// obligation: C01.scalar_roundtrip_sender_receiver | harness: c01_scalar_roundtrip_sender_receiver | kind: complete | bound: none (all 128-bit cookies, both kinds) | tier: quick
#[kani::proof]
#[kani::stub(bytes::BytesMut::reserve_inner, no_reserve_inner)]
#[kani::unwind(20)]
fn c01_scalar_roundtrip_sender_receiver() {
    let u = any_uuid();
    let is_sender: bool = kani::any();
    let mut buf = BytesMut::with_capacity(96);
    match Serializer::new(&mut buf, 0) {
        Ok(s) => {
            if is_sender {
                assert!(s.serialize_sender(ChannelCookie(u)).is_ok());
            } else {
                assert!(s.serialize_receiver(ChannelCookie(u)).is_ok());
            }
        }
        Err(_) => {
            assert!(false);
        }
    }
    assert!(buf.len() == 17);
    assert!(buf[0] == if is_sender { ValueKind::Sender as u8 } else { ValueKind::Receiver as u8 });
    let mut s: &[u8] = &buf[..];
    match Deserializer::new(&mut s, 0) {
        Ok(d) => {
            let r = if is_sender { d.deserialize_sender() } else { d.deserialize_receiver() };
            match r {
                Ok(y) => {
                    assert!(*y.0.as_bytes() == *u.as_bytes());
                }
                Err(_) => {
                    assert!(false);
                }
            }
        }
        Err(_) => {
            assert!(false);
        }
    }
    assert!(s.is_empty());
    // the other kind's decoder rejects it
    let mut s3: &[u8] = &buf[..];
    match Deserializer::new(&mut s3, 0) {
        Ok(d) => {
            let r = if is_sender { d.deserialize_receiver() } else { d.deserialize_sender() };
            assert!(r.is_err());
        }
        Err(_) => {
            assert!(false);
        }
    }
}

// obligation: C01.none_roundtrip | harness: c01_none_roundtrip | kind: complete | bound: none (no input) | tier: quick
#[kani::proof]
#[kani::stub(bytes::BytesMut::reserve_inner, no_reserve_inner)]
#[kani::unwind(4)]
fn c01_none_roundtrip() {
    let mut buf = BytesMut::with_capacity(96);
    match Serializer::new(&mut buf, 0) {
        Ok(s) => {
            assert!(s.serialize_none().is_ok());
        }
        Err(_) => {
            assert!(false);
        }
    }
    assert!(buf.len() == 1 && buf[0] == ValueKind::None as u8);
    let mut s: &[u8] = &buf[..];
    match Deserializer::new(&mut s, 0) {
        Ok(d) => {
            assert!(d.deserialize_none().is_ok());
        }
        Err(_) => {
            assert!(false);
        }
    }
    assert!(s.is_empty());
}

// ------------------------------------------------------------------------------------------------------------
// C01.2 depth limit: entering a value at depth d succeeds iff d < 32, on both sides, for every d in 0..=32
// obligation: C01.depth_limit_symmetric | harness: c01_depth_limit_symmetric | kind: complete | bound: none (all depths 0..=32, the range callers can produce) | tier: quick
#[kani::proof]
#[kani::stub(bytes::BytesMut::reserve_inner, no_reserve_inner)]
#[kani::unwind(4)]
fn c01_depth_limit_symmetric() {
    let d: u8 = kani::any();
    kani::assume(d <= crate::MAX_VALUE_DEPTH);
    let mut buf = BytesMut::with_capacity(96);
    let ser_ok = Serializer::new(&mut buf, d).is_ok();
    let data = [0u8; 1];
    let mut s: &[u8] = &data;
    let de = Deserializer::new(&mut s, d);
    assert!(crate::MAX_VALUE_DEPTH == 32);
    assert!(ser_ok == (d < 32));
    match de {
        Ok(_) => {
            assert!(d < 32);
        }
        Err(e) => {
            assert!(d == 32);
            assert!(matches!(e, DeserializeError::TooDeeplyNested));
        }
    }
}

// ------------------------------------------------------------------------------------------------------------
// C07.3 walker: for ALL byte strings of a concrete length L, at depth 0:
//   skip() does not panic and never advances past the slice; len() equals the advance of skip();
//   split_off_serialized_value() returns exactly that prefix; peek_value_kind is Ok iff byte 0 is a valid kind.
macro_rules! skip_total {
    ($name:ident, $len:expr, $unw:expr) => {
        #[kani::proof]
        #[kani::stub(bytes::BytesMut::reserve_inner, no_reserve_inner)]
        #[kani::unwind($unw)]
        fn $name() {
            let data: [u8; $len] = kani::any();
            let mut s: &[u8] = &data;
            let r = match Deserializer::new(&mut s, 0) {
                Ok(d) => d.skip(),
                Err(_) => {
                    assert!(false);
                    return;
                }
            };
            assert!(s.len() <= $len);
            let consumed = $len - s.len();
            let mut s2: &[u8] = &data;
            match Deserializer::new(&mut s2, 0) {
                Ok(d) => {
                    let l = d.len();
                    assert!(l.is_ok() == r.is_ok());
                    if let Ok(l) = l {
                        assert!(l == consumed);
                    }
                    let pk = d.peek_value_kind();
                    if $len == 0 {
                        assert!(pk.is_err());
                    } else {
                        assert!(pk.is_ok() == (data[0] <= 65));
                    }
                    match d.split_off_serialized_value() {
                        Ok(v) => {
                            assert!(r.is_ok());
                            let b: &[u8] = v.as_ref();
                            assert!(b.len() == consumed);
                        }
                        Err(_) => {
                            assert!(r.is_err());
                        }
                    }
                }
                Err(_) => {
                    assert!(false);
                }
            }
            if r.is_ok() {
                assert!(s2.len() == $len - consumed);
            }
            kani::cover!(r.is_ok());
            kani::cover!(r.is_err());
        }
    };
}

// obligation: C07.skip_total_len0 | harness: c07_skip_total_len0 | kind: bounded | bound: input length == 0 bytes | tier: quick
#[kani::proof]
#[kani::stub(bytes::BytesMut::reserve_inner, no_reserve_inner)]
#[kani::unwind(4)]
fn c07_skip_total_len0() {
    let data: [u8; 0] = [];
    let mut s: &[u8] = &data;
    match Deserializer::new(&mut s, 0) {
        Ok(d) => {
            assert!(matches!(d.skip(), Err(DeserializeError::UnexpectedEoi)));
        }
        Err(_) => {
            assert!(false);
        }
    }
}
// obligation: C07.skip_total_len1 | harness: c07_skip_total_len1 | kind: bounded | bound: input length == 1 byte (all 256) | tier: quick
skip_total!(c07_skip_total_len1, 1, 4);
// obligation: C07.skip_total_len2 | harness: c07_skip_total_len2 | kind: bounded | bound: input length == 2 bytes (all 2^16) | tier: quick
skip_total!(c07_skip_total_len2, 2, 5);
// obligation: C07.skip_total_len3 | harness: c07_skip_total_len3 | kind: bounded | bound: input length == 3 bytes (all 2^24) | tier: quick
skip_total!(c07_skip_total_len3, 3, 6);
// obligation: C07.skip_total_len4 | harness: c07_skip_total_len4 | kind: bounded | bound: input length == 4 bytes (all 2^32) | tier: thorough | timeout: 1800
skip_total!(c07_skip_total_len4, 4, 7);

// ------------------------------------------------------------------------------------------------------------
// C07 decode vs skip on ARBITRARY bytes whose first byte is the kind of a typed scalar decoder:
//   decode Ok  =>  skip Ok and identical consumption;  skip Ok => decode Ok (scalars have no UTF-8 exception)
macro_rules! decode_vs_skip {
    ($name:ident, $de:ident, $kind:expr, $cap:expr, $unw:expr) => {
        #[kani::proof]
        #[kani::stub(bytes::BytesMut::reserve_inner, no_reserve_inner)]
        #[kani::unwind($unw)]
        fn $name() {
            let mut data: [u8; $cap] = kani::any();
            data[0] = $kind as u8;
            let len: usize = kani::any();
            kani::assume(len >= 1 && len <= $cap);
            let mut s1: &[u8] = &data[..len];
            let mut s2: &[u8] = &data[..len];
            let ok1 = match Deserializer::new(&mut s1, 0) {
                Ok(d) => d.$de().is_ok(),
                Err(_) => false,
            };
            let ok2 = match Deserializer::new(&mut s2, 0) {
                Ok(d) => d.skip().is_ok(),
                Err(_) => false,
            };
            assert!(ok1 == ok2);
            if ok1 {
                assert!(s1.len() == s2.len());
            }
            kani::cover!(ok1);
            kani::cover!(!ok1);
        }
    };
}

// obligation: C07.decode_vs_skip_bool | harness: c07_decode_vs_skip_bool | kind: complete | bound: none (reads at most 2 bytes; lengths 1..=3) | tier: quick
decode_vs_skip!(c07_decode_vs_skip_bool, deserialize_bool, ValueKind::Bool, 3, 5);
// obligation: C07.decode_vs_skip_u8 | harness: c07_decode_vs_skip_u8 | kind: complete | bound: none (reads at most 2 bytes; lengths 1..=3) | tier: quick
decode_vs_skip!(c07_decode_vs_skip_u8, deserialize_u8, ValueKind::U8, 3, 5);
// obligation: C07.decode_vs_skip_i8 | harness: c07_decode_vs_skip_i8 | kind: complete | bound: none (reads at most 2 bytes; lengths 1..=3) | tier: quick
decode_vs_skip!(c07_decode_vs_skip_i8, deserialize_i8, ValueKind::I8, 3, 5);
// obligation: C07.decode_vs_skip_u16 | harness: c07_decode_vs_skip_u16 | kind: complete | bound: none (reads at most 4 bytes; lengths 1..=5) | tier: quick
decode_vs_skip!(c07_decode_vs_skip_u16, deserialize_u16, ValueKind::U16, 5, 5);
// obligation: C07.decode_vs_skip_i16 | harness: c07_decode_vs_skip_i16 | kind: complete | bound: none (reads at most 4 bytes; lengths 1..=5) | tier: quick
decode_vs_skip!(c07_decode_vs_skip_i16, deserialize_i16, ValueKind::I16, 5, 5);
// obligation: C07.decode_vs_skip_u32 | harness: c07_decode_vs_skip_u32 | kind: complete | bound: none (reads at most 6 bytes; lengths 1..=7) | tier: quick
decode_vs_skip!(c07_decode_vs_skip_u32, deserialize_u32, ValueKind::U32, 7, 5);
// obligation: C07.decode_vs_skip_i32 | harness: c07_decode_vs_skip_i32 | kind: complete | bound: none (reads at most 6 bytes; lengths 1..=7) | tier: quick
decode_vs_skip!(c07_decode_vs_skip_i32, deserialize_i32, ValueKind::I32, 7, 5);
// obligation: C07.decode_vs_skip_u64 | harness: c07_decode_vs_skip_u64 | kind: complete | bound: none (reads at most 10 bytes; lengths 1..=11) | tier: quick
decode_vs_skip!(c07_decode_vs_skip_u64, deserialize_u64, ValueKind::U64, 11, 5);
// obligation: C07.decode_vs_skip_i64 | harness: c07_decode_vs_skip_i64 | kind: complete | bound: none (reads at most 10 bytes; lengths 1..=11) | tier: quick
decode_vs_skip!(c07_decode_vs_skip_i64, deserialize_i64, ValueKind::I64, 11, 5);
// obligation: C07.decode_vs_skip_f32 | harness: c07_decode_vs_skip_f32 | kind: complete | bound: none (reads 5 bytes; lengths 1..=6) | tier: quick
decode_vs_skip!(c07_decode_vs_skip_f32, deserialize_f32, ValueKind::F32, 6, 5);
// obligation: C07.decode_vs_skip_f64 | harness: c07_decode_vs_skip_f64 | kind: complete | bound: none (reads 9 bytes; lengths 1..=10) | tier: quick
decode_vs_skip!(c07_decode_vs_skip_f64, deserialize_f64, ValueKind::F64, 10, 5);
// obligation: C07.decode_vs_skip_uuid | harness: c07_decode_vs_skip_uuid | kind: complete | bound: none (reads 17 bytes; lengths 1..=18) | tier: quick
decode_vs_skip!(c07_decode_vs_skip_uuid, deserialize_uuid, ValueKind::Uuid, 18, 5);
// obligation: C07.decode_vs_skip_object_id | harness: c07_decode_vs_skip_object_id | kind: complete | bound: none (reads 33 bytes; lengths 1..=34) | tier: quick
decode_vs_skip!(c07_decode_vs_skip_object_id, deserialize_object_id, ValueKind::ObjectId, 34, 5);
// obligation: C07.decode_vs_skip_service_id | harness: c07_decode_vs_skip_service_id | kind: complete | bound: none (reads 65 bytes; lengths 1..=66) | tier: quick
decode_vs_skip!(c07_decode_vs_skip_service_id, deserialize_service_id, ValueKind::ServiceId, 66, 5);
// obligation: C07.decode_vs_skip_sender | harness: c07_decode_vs_skip_sender | kind: complete | bound: none (reads 17 bytes; lengths 1..=18) | tier: quick
decode_vs_skip!(c07_decode_vs_skip_sender, deserialize_sender, ValueKind::Sender, 18, 5);
// obligation: C07.decode_vs_skip_receiver | harness: c07_decode_vs_skip_receiver | kind: complete | bound: none (reads 17 bytes; lengths 1..=18) | tier: quick
decode_vs_skip!(c07_decode_vs_skip_receiver, deserialize_receiver, ValueKind::Receiver, 18, 5);
