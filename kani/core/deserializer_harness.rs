// Kani harnesses for core/src/deserializer.rs + core/src/serializer.rs (child module of `deserializer`).
// All calls go to the real Serializer / Deserializer. Harness rule (DESIGN 4.C01): serialize into a fresh
// BytesMut::with_capacity(96) through the crate-private Serializer::new(&mut buf, 0), read back from &buf[..] as a plain slice,
// no unwrap/expect/assert_eq.
use super::Deserializer;
use crate::serializer::Serializer;
use crate::{
    ChannelCookie, DeserializeError, ObjectCookie, ObjectId, ObjectUuid, ServiceCookie, ServiceId, ServiceUuid,
    ValueKind,
};
use bytes::BytesMut;
use uuid::Uuid;

// Sound stub: every harness writes into a BytesMut created with enough capacity, so BytesMut::reserve_inner (the
// re-allocation path that dominates CBMC's cost) must be unreachable. The stub turns "unreachable" into a proof
// obligation (assert!(false)); nothing is assumed about the bytes crate.
#[allow(dead_code)]
fn no_reserve_inner(_this: &mut BytesMut, _additional: usize, _allocate: bool) -> bool {
    assert!(false);
    true
}

// ------------------------------------------------------------------------------------------------------------
// C01.3  every scalar kind round-trips bit-for-bit, first byte is the kind, all bytes consumed;
// (skip agreement on these encodings is covered by the C07.decode_vs_skip_* harnesses over arbitrary bytes; keeping
// Deserializer::skip out of these harnesses keeps the recursion unwinding of the 63-way walker out of the formula)
macro_rules! scalar_roundtrip {
    ($name:ident, $ty:ty, $ser:ident, $de:ident, $kind:expr, $unw:expr) => {
        #[kani::proof]
        #[kani::stub(bytes::BytesMut::reserve_inner, no_reserve_inner)]
        #[kani::unwind($unw)]
        fn $name() {
            let x: $ty = kani::any();
            let mut buf = BytesMut::with_capacity(96);
            match Serializer::new(&mut buf, 0) {
                Ok(s) => {
                    assert!(s.$ser(x).is_ok());
                }
                Err(_) => {
                    assert!(false);
                }
            }
            assert!(buf.len() >= 2);
            assert!(buf[0] == $kind as u8);
            let mut s: &[u8] = &buf[..];
            match Deserializer::new(&mut s, 0) {
                Ok(d) => match d.$de() {
                    Ok(y) => {
                        assert!(y == x);
                    }
                    Err(_) => {
                        assert!(false);
                    }
                },
                Err(_) => {
                    assert!(false);
                }
            }
            assert!(s.is_empty());
        }
    };
}

// obligation: C01.scalar_roundtrip_bool | harness: c01_scalar_roundtrip_bool | kind: complete | bound: none (all values) | tier: quick
scalar_roundtrip!(c01_scalar_roundtrip_bool, bool, serialize_bool, deserialize_bool, ValueKind::Bool, 4);
// obligation: C01.scalar_roundtrip_u8 | harness: c01_scalar_roundtrip_u8 | kind: complete | bound: none (all values) | tier: quick
scalar_roundtrip!(c01_scalar_roundtrip_u8, u8, serialize_u8, deserialize_u8, ValueKind::U8, 4);
// obligation: C01.scalar_roundtrip_i8 | harness: c01_scalar_roundtrip_i8 | kind: complete | bound: none (all values) | tier: quick
scalar_roundtrip!(c01_scalar_roundtrip_i8, i8, serialize_i8, deserialize_i8, ValueKind::I8, 4);
// obligation: C01.scalar_roundtrip_u16 | harness: c01_scalar_roundtrip_u16 | kind: complete | bound: none (all values) | tier: quick
scalar_roundtrip!(c01_scalar_roundtrip_u16, u16, serialize_u16, deserialize_u16, ValueKind::U16, 6);
// obligation: C01.scalar_roundtrip_i16 | harness: c01_scalar_roundtrip_i16 | kind: complete | bound: none (all values) | tier: quick
scalar_roundtrip!(c01_scalar_roundtrip_i16, i16, serialize_i16, deserialize_i16, ValueKind::I16, 6);
// obligation: C01.scalar_roundtrip_u32 | harness: c01_scalar_roundtrip_u32 | kind: complete | bound: none (all values) | tier: quick
scalar_roundtrip!(c01_scalar_roundtrip_u32, u32, serialize_u32, deserialize_u32, ValueKind::U32, 8);
// obligation: C01.scalar_roundtrip_i32 | harness: c01_scalar_roundtrip_i32 | kind: complete | bound: none (all values) | tier: quick
scalar_roundtrip!(c01_scalar_roundtrip_i32, i32, serialize_i32, deserialize_i32, ValueKind::I32, 8);
// obligation: C01.scalar_roundtrip_u64 | harness: c01_scalar_roundtrip_u64 | kind: complete | bound: none (all values) | tier: quick
scalar_roundtrip!(c01_scalar_roundtrip_u64, u64, serialize_u64, deserialize_u64, ValueKind::U64, 12);
// obligation: C01.scalar_roundtrip_i64 | harness: c01_scalar_roundtrip_i64 | kind: complete | bound: none (all values) | tier: quick
scalar_roundtrip!(c01_scalar_roundtrip_i64, i64, serialize_i64, deserialize_i64, ValueKind::I64, 12);

// floats: bit-for-bit over all 2^32 / 2^64 bit patterns including every NaN payload
// obligation: C01.scalar_roundtrip_f32 | harness: c01_scalar_roundtrip_f32 | kind: complete | bound: none (all 2^32 bit patterns) | tier: quick
#[kani::proof]
#[kani::stub(bytes::BytesMut::reserve_inner, no_reserve_inner)]
#[kani::unwind(8)]
fn c01_scalar_roundtrip_f32() {
    let bits: u32 = kani::any();
    let x = f32::from_bits(bits);
    let mut buf = BytesMut::with_capacity(96);
    match Serializer::new(&mut buf, 0) {
        Ok(s) => {
            assert!(s.serialize_f32(x).is_ok());
        }
        Err(_) => {
            assert!(false);
        }
    }
    assert!(buf.len() == 5);
    assert!(buf[0] == ValueKind::F32 as u8);
    let mut s: &[u8] = &buf[..];
    match Deserializer::new(&mut s, 0) {
        Ok(d) => match d.deserialize_f32() {
            Ok(y) => {
                assert!(y.to_bits() == bits);
            }
            Err(_) => {
                assert!(false);
            }
        },
        Err(_) => {
            assert!(false);
        }
    }
    assert!(s.is_empty());
}

// obligation: C01.scalar_roundtrip_f64 | harness: c01_scalar_roundtrip_f64 | kind: complete | bound: none (all 2^64 bit patterns) | tier: quick
#[kani::proof]
#[kani::stub(bytes::BytesMut::reserve_inner, no_reserve_inner)]
#[kani::unwind(12)]
fn c01_scalar_roundtrip_f64() {
    let bits: u64 = kani::any();
    let x = f64::from_bits(bits);
    let mut buf = BytesMut::with_capacity(96);
    match Serializer::new(&mut buf, 0) {
        Ok(s) => {
            assert!(s.serialize_f64(x).is_ok());
        }
        Err(_) => {
            assert!(false);
        }
    }
    assert!(buf.len() == 9);
    assert!(buf[0] == ValueKind::F64 as u8);
    let mut s: &[u8] = &buf[..];
    match Deserializer::new(&mut s, 0) {
        Ok(d) => match d.deserialize_f64() {
            Ok(y) => {
                assert!(y.to_bits() == bits);
            }
            Err(_) => {
                assert!(false);
            }
        },
        Err(_) => {
            assert!(false);
        }
    }
    assert!(s.is_empty());
}

fn any_uuid() -> Uuid {
    let b: [u8; 16] = kani::any();
    Uuid::from_bytes(b)
}

// obligation: C01.scalar_roundtrip_uuid | harness: c01_scalar_roundtrip_uuid | kind: complete | bound: none (all 128-bit values) | tier: quick
#[kani::proof]
#[kani::stub(bytes::BytesMut::reserve_inner, no_reserve_inner)]
#[kani::unwind(20)]
fn c01_scalar_roundtrip_uuid() {
    let x = any_uuid();
    let mut buf = BytesMut::with_capacity(96);
    match Serializer::new(&mut buf, 0) {
        Ok(s) => {
            assert!(s.serialize_uuid(x).is_ok());
        }
        Err(_) => {
            assert!(false);
        }
    }
    assert!(buf.len() == 17);
    assert!(buf[0] == ValueKind::Uuid as u8);
    let mut s: &[u8] = &buf[..];
    match Deserializer::new(&mut s, 0) {
        Ok(d) => match d.deserialize_uuid() {
            Ok(y) => {
                assert!(*y.as_bytes() == *x.as_bytes());
            }
            Err(_) => {
                assert!(false);
            }
        },
        Err(_) => {
            assert!(false);
        }
    }
    assert!(s.is_empty());
}

// obligation: C01.scalar_roundtrip_object_id | harness: c01_scalar_roundtrip_object_id | kind: complete | bound: none (all 256-bit values) | tier: quick
#[kani::proof]
#[kani::stub(bytes::BytesMut::reserve_inner, no_reserve_inner)]
#[kani::unwind(20)]
fn c01_scalar_roundtrip_object_id() {
    let u = any_uuid();
    let c = any_uuid();
    let x = ObjectId::new(ObjectUuid(u), ObjectCookie(c));
    let mut buf = BytesMut::with_capacity(96);
    match Serializer::new(&mut buf, 0) {
        Ok(s) => {
            assert!(s.serialize_object_id(x).is_ok());
        }
        Err(_) => {
            assert!(false);
        }
    }
    assert!(buf.len() == 33);
    assert!(buf[0] == ValueKind::ObjectId as u8);
    let mut s: &[u8] = &buf[..];
    match Deserializer::new(&mut s, 0) {
        Ok(d) => match d.deserialize_object_id() {
            Ok(y) => {
                assert!(*y.uuid.0.as_bytes() == *u.as_bytes());
                assert!(*y.cookie.0.as_bytes() == *c.as_bytes());
            }
            Err(_) => {
                assert!(false);
            }
        },
        Err(_) => {
            assert!(false);
        }
    }
    assert!(s.is_empty());
}

// obligation: C01.scalar_roundtrip_service_id | harness: c01_scalar_roundtrip_service_id | kind: complete | bound: none (all 512-bit values) | tier: quick
#[kani::proof]
#[kani::stub(bytes::BytesMut::reserve_inner, no_reserve_inner)]
#[kani::unwind(20)]
fn c01_scalar_roundtrip_service_id() {
    let (a, b, c, e) = (any_uuid(), any_uuid(), any_uuid(), any_uuid());
    let x = ServiceId::new(ObjectId::new(ObjectUuid(a), ObjectCookie(b)), ServiceUuid(c), ServiceCookie(e));
    let mut buf = BytesMut::with_capacity(96);
    match Serializer::new(&mut buf, 0) {
        Ok(s) => {
            assert!(s.serialize_service_id(x).is_ok());
        }
        Err(_) => {
            assert!(false);
        }
    }
    assert!(buf.len() == 65);
    assert!(buf[0] == ValueKind::ServiceId as u8);
    let mut s: &[u8] = &buf[..];
    match Deserializer::new(&mut s, 0) {
        Ok(d) => match d.deserialize_service_id() {
            Ok(y) => {
                assert!(*y.object_id.uuid.0.as_bytes() == *a.as_bytes());
                assert!(*y.object_id.cookie.0.as_bytes() == *b.as_bytes());
                assert!(*y.uuid.0.as_bytes() == *c.as_bytes());
                assert!(*y.cookie.0.as_bytes() == *e.as_bytes());
            }
            Err(_) => {
                assert!(false);
            }
        },
        Err(_) => {
            assert!(false);
        }
    }
    assert!(s.is_empty());
}

// obligation: C01.scalar_roundtrip_sender_receiver | harness: c01_scalar_roundtrip_sender_receiver | kind: complete | bound: none (all 128-bit cookies, both kinds) | tier: quick
#[kani::proof]
#[kani::stub(bytes::BytesMut::reserve_inner, no_reserve_inner)]
#[kani::unwind(20)]
fn c01_scalar_roundtrip_sender_receiver() {
    let u = any_uuid();
    let is_sender: bool = kani::any();
    let mut buf = BytesMut::with_capacity(96);
    match Serializer::new(&mut buf, 0) {
        Ok(s) => {
            if is_sender {
                assert!(s.serialize_sender(ChannelCookie(u)).is_ok());
            } else {
                assert!(s.serialize_receiver(ChannelCookie(u)).is_ok());
            }
        }
        Err(_) => {
            assert!(false);
        }
    }
    assert!(buf.len() == 17);
    assert!(buf[0] == if is_sender { ValueKind::Sender as u8 } else { ValueKind::Receiver as u8 });
    let mut s: &[u8] = &buf[..];
    match Deserializer::new(&mut s, 0) {
        Ok(d) => {
            let r = if is_sender { d.deserialize_sender() } else { d.deserialize_receiver() };
            match r {
                Ok(y) => {
                    assert!(*y.0.as_bytes() == *u.as_bytes());
                }
                Err(_) => {
                    assert!(false);
                }
            }
        }
        Err(_) => {
            assert!(false);
        }
    }
    assert!(s.is_empty());
    // the other kind's decoder rejects it
    let mut s3: &[u8] = &buf[..];
    match Deserializer::new(&mut s3, 0) {
        Ok(d) => {
            let r = if is_sender { d.deserialize_receiver() } else { d.deserialize_sender() };
            assert!(r.is_err());
        }
        Err(_) => {
            assert!(false);
        }
    }
}

// obligation: C01.none_roundtrip | harness: c01_none_roundtrip | kind: complete | bound: none (no input) | tier: quick
#[kani::proof]
#[kani::stub(bytes::BytesMut::reserve_inner, no_reserve_inner)]
#[kani::unwind(4)]
fn c01_none_roundtrip() {
    let mut buf = BytesMut::with_capacity(96);
    match Serializer::new(&mut buf, 0) {
        Ok(s) => {
            assert!(s.serialize_none().is_ok());
        }
        Err(_) => {
            assert!(false);
        }
    }
    assert!(buf.len() == 1 && buf[0] == ValueKind::None as u8);
    let mut s: &[u8] = &buf[..];
    match Deserializer::new(&mut s, 0) {
        Ok(d) => {
            assert!(d.deserialize_none().is_ok());
        }
        Err(_) => {
            assert!(false);
        }
    }
    assert!(s.is_empty());
}

// ------------------------------------------------------------------------------------------------------------
// C01.2 depth limit: entering a value at depth d succeeds iff d < 32, on both sides, for every d in 0..=32
// obligation: C01.depth_limit_symmetric | harness: c01_depth_limit_symmetric | kind: complete | bound: none (all depths 0..=32, the range callers can produce) | tier: quick
#[kani::proof]
#[kani::stub(bytes::BytesMut::reserve_inner, no_reserve_inner)]
#[kani::unwind(4)]
fn c01_depth_limit_symmetric() {
    let d: u8 = kani::any();
    kani::assume(d <= crate::MAX_VALUE_DEPTH);
    let mut buf = BytesMut::with_capacity(96);
    let ser_ok = Serializer::new(&mut buf, d).is_ok();
    let data = [0u8; 1];
    let mut s: &[u8] = &data;
    let de = Deserializer::new(&mut s, d);
    assert!(crate::MAX_VALUE_DEPTH == 32);
    assert!(ser_ok == (d < 32));
    match de {
        Ok(_) => {
            assert!(d < 32);
        }
        Err(e) => {
            assert!(d == 32);
            assert!(matches!(e, DeserializeError::TooDeeplyNested));
        }
    }
}

// ------------------------------------------------------------------------------------------------------------
// C07.3 walker on arbitrary bytes with a symbolic KIND byte: measured infeasible (Deserializer::skip over all 3-byte
// strings did not finish in 600 s / ran out of memory at >14 GB: the 66-way recursive dispatch is unwound at every
// nesting level). Only the empty input is kept here; the per-kind obligations below fix the kind byte.
// obligation: C07.skip_total_len0 | harness: c07_skip_total_len0 | kind: bounded | bound: input length == 0 bytes | tier: quick
#[kani::proof]
#[kani::stub(bytes::BytesMut::reserve_inner, no_reserve_inner)]
#[kani::unwind(4)]
fn c07_skip_total_len0() {
    let data: [u8; 0] = [];
    let mut s: &[u8] = &data;
    match Deserializer::new(&mut s, 0) {
        Ok(d) => {
            assert!(matches!(d.skip(), Err(DeserializeError::UnexpectedEoi)));
        }
        Err(_) => {
            assert!(false);
        }
    }
}

// ------------------------------------------------------------------------------------------------------------
// C07 decode vs skip on ARBITRARY payload bytes behind the kind byte of a typed scalar decoder (concrete input length
// = longest encoding of the kind, and one byte less for the truncation cases):
//   decode Ok  <=>  skip Ok, and identical consumption; also len() reports that consumption and
//   split_off_serialized_value() hands out exactly that prefix.
macro_rules! decode_vs_skip {
    ($name:ident, $de:ident, $kind:expr, $cap:expr) => {
        #[kani::proof]
        #[kani::unwind(5)]
        fn $name() {
            let mut data: [u8; $cap] = kani::any();
            data[0] = $kind as u8;
            let mut s1: &[u8] = &data;
            let mut s2: &[u8] = &data;
            let ok1 = match Deserializer::new(&mut s1, 0) {
                Ok(d) => d.$de().is_ok(),
                Err(_) => false,
            };
            let ok2 = match Deserializer::new(&mut s2, 0) {
                Ok(d) => d.skip().is_ok(),
                Err(_) => false,
            };
            assert!(ok1 == ok2);
            if ok1 {
                assert!(s1.len() == s2.len());
                assert!(s2.len() <= $cap);
            }
        }
    };
}

macro_rules! len_split_agree {
    ($name:ident, $kind:expr, $cap:expr) => {
        #[kani::proof]
        #[kani::unwind(5)]
        fn $name() {
            let mut data: [u8; $cap] = kani::any();
            data[0] = $kind as u8;
            let mut s2: &[u8] = &data;
            let ok2 = match Deserializer::new(&mut s2, 0) {
                Ok(d) => d.skip().is_ok(),
                Err(_) => false,
            };
            let consumed = $cap - s2.len();
            let mut s3: &[u8] = &data;
            match Deserializer::new(&mut s3, 0) {
                Ok(d) => {
                    match d.len() {
                        Ok(l) => {
                            assert!(ok2 && l == consumed);
                        }
                        Err(_) => {
                            assert!(!ok2);
                        }
                    }
                    assert!(matches!(d.peek_value_kind(), Ok(k) if k as u8 == $kind as u8));
                    match d.split_off_serialized_value() {
                        Ok(v) => {
                            let b: &[u8] = v.as_ref();
                            assert!(ok2 && b.len() == consumed);
                        }
                        Err(_) => {
                            assert!(!ok2);
                        }
                    }
                }
                Err(_) => {
                    assert!(false);
                }
            }
            if ok2 {
                assert!(s3.len() == $cap - consumed);
            }
        }
    };
}

// obligation: C07.decode_vs_skip_bool | harness: c07_decode_vs_skip_bool | kind: complete | bound: none (all payload bytes of the longest encoding, 2 bytes) | tier: quick
decode_vs_skip!(c07_decode_vs_skip_bool, deserialize_bool, ValueKind::Bool, 2);
// obligation: C07.decode_vs_skip_bool_truncated | harness: c07_decode_vs_skip_bool_truncated | kind: bounded | bound: input one byte shorter than the longest encoding (1 bytes) | tier: quick
decode_vs_skip!(c07_decode_vs_skip_bool_truncated, deserialize_bool, ValueKind::Bool, 1);
// obligation: C07.decode_vs_skip_u8 | harness: c07_decode_vs_skip_u8 | kind: complete | bound: none (all payload bytes of the longest encoding, 2 bytes) | tier: thorough
decode_vs_skip!(c07_decode_vs_skip_u8, deserialize_u8, ValueKind::U8, 2);
// obligation: C07.decode_vs_skip_u8_truncated | harness: c07_decode_vs_skip_u8_truncated | kind: bounded | bound: input one byte shorter than the longest encoding (1 bytes) | tier: thorough
decode_vs_skip!(c07_decode_vs_skip_u8_truncated, deserialize_u8, ValueKind::U8, 1);
// obligation: C07.decode_vs_skip_i8 | harness: c07_decode_vs_skip_i8 | kind: complete | bound: none (all payload bytes of the longest encoding, 2 bytes) | tier: thorough
decode_vs_skip!(c07_decode_vs_skip_i8, deserialize_i8, ValueKind::I8, 2);
// obligation: C07.decode_vs_skip_i8_truncated | harness: c07_decode_vs_skip_i8_truncated | kind: bounded | bound: input one byte shorter than the longest encoding (1 bytes) | tier: thorough
decode_vs_skip!(c07_decode_vs_skip_i8_truncated, deserialize_i8, ValueKind::I8, 1);
// obligation: C07.decode_vs_skip_u16 | harness: c07_decode_vs_skip_u16 | kind: complete | bound: none (all payload bytes of the longest encoding, 4 bytes) | tier: quick
decode_vs_skip!(c07_decode_vs_skip_u16, deserialize_u16, ValueKind::U16, 4);
// obligation: C07.decode_vs_skip_u16_truncated | harness: c07_decode_vs_skip_u16_truncated | kind: bounded | bound: input one byte shorter than the longest encoding (3 bytes) | tier: quick
decode_vs_skip!(c07_decode_vs_skip_u16_truncated, deserialize_u16, ValueKind::U16, 3);
// obligation: C07.decode_vs_skip_i16 | harness: c07_decode_vs_skip_i16 | kind: complete | bound: none (all payload bytes of the longest encoding, 4 bytes) | tier: thorough
decode_vs_skip!(c07_decode_vs_skip_i16, deserialize_i16, ValueKind::I16, 4);
// obligation: C07.decode_vs_skip_i16_truncated | harness: c07_decode_vs_skip_i16_truncated | kind: bounded | bound: input one byte shorter than the longest encoding (3 bytes) | tier: thorough
decode_vs_skip!(c07_decode_vs_skip_i16_truncated, deserialize_i16, ValueKind::I16, 3);
// obligation: C07.decode_vs_skip_u32 | harness: c07_decode_vs_skip_u32 | kind: complete | bound: none (all payload bytes of the longest encoding, 6 bytes) | tier: quick
decode_vs_skip!(c07_decode_vs_skip_u32, deserialize_u32, ValueKind::U32, 6);
// obligation: C07.decode_vs_skip_u32_truncated | harness: c07_decode_vs_skip_u32_truncated | kind: bounded | bound: input one byte shorter than the longest encoding (5 bytes) | tier: quick
decode_vs_skip!(c07_decode_vs_skip_u32_truncated, deserialize_u32, ValueKind::U32, 5);
// obligation: C07.decode_vs_skip_i32 | harness: c07_decode_vs_skip_i32 | kind: complete | bound: none (all payload bytes of the longest encoding, 6 bytes) | tier: thorough
decode_vs_skip!(c07_decode_vs_skip_i32, deserialize_i32, ValueKind::I32, 6);
// obligation: C07.decode_vs_skip_i32_truncated | harness: c07_decode_vs_skip_i32_truncated | kind: bounded | bound: input one byte shorter than the longest encoding (5 bytes) | tier: thorough
decode_vs_skip!(c07_decode_vs_skip_i32_truncated, deserialize_i32, ValueKind::I32, 5);
// obligation: C07.decode_vs_skip_u64 | harness: c07_decode_vs_skip_u64 | kind: complete | bound: none (all payload bytes of the longest encoding, 10 bytes) | tier: thorough
decode_vs_skip!(c07_decode_vs_skip_u64, deserialize_u64, ValueKind::U64, 10);
// obligation: C07.decode_vs_skip_u64_truncated | harness: c07_decode_vs_skip_u64_truncated | kind: bounded | bound: input one byte shorter than the longest encoding (9 bytes) | tier: thorough
decode_vs_skip!(c07_decode_vs_skip_u64_truncated, deserialize_u64, ValueKind::U64, 9);
// obligation: C07.decode_vs_skip_i64 | harness: c07_decode_vs_skip_i64 | kind: complete | bound: none (all payload bytes of the longest encoding, 10 bytes) | tier: quick
decode_vs_skip!(c07_decode_vs_skip_i64, deserialize_i64, ValueKind::I64, 10);
// obligation: C07.decode_vs_skip_i64_truncated | harness: c07_decode_vs_skip_i64_truncated | kind: bounded | bound: input one byte shorter than the longest encoding (9 bytes) | tier: quick
decode_vs_skip!(c07_decode_vs_skip_i64_truncated, deserialize_i64, ValueKind::I64, 9);
// obligation: C07.decode_vs_skip_f32 | harness: c07_decode_vs_skip_f32 | kind: complete | bound: none (all payload bytes of the longest encoding, 5 bytes) | tier: quick
decode_vs_skip!(c07_decode_vs_skip_f32, deserialize_f32, ValueKind::F32, 5);
// obligation: C07.decode_vs_skip_f32_truncated | harness: c07_decode_vs_skip_f32_truncated | kind: bounded | bound: input one byte shorter than the longest encoding (4 bytes) | tier: quick
decode_vs_skip!(c07_decode_vs_skip_f32_truncated, deserialize_f32, ValueKind::F32, 4);
// obligation: C07.decode_vs_skip_f64 | harness: c07_decode_vs_skip_f64 | kind: complete | bound: none (all payload bytes of the longest encoding, 9 bytes) | tier: thorough
decode_vs_skip!(c07_decode_vs_skip_f64, deserialize_f64, ValueKind::F64, 9);
// obligation: C07.decode_vs_skip_f64_truncated | harness: c07_decode_vs_skip_f64_truncated | kind: bounded | bound: input one byte shorter than the longest encoding (8 bytes) | tier: thorough
decode_vs_skip!(c07_decode_vs_skip_f64_truncated, deserialize_f64, ValueKind::F64, 8);
// obligation: C07.decode_vs_skip_uuid | harness: c07_decode_vs_skip_uuid | kind: complete | bound: none (all payload bytes of the longest encoding, 17 bytes) | tier: quick
decode_vs_skip!(c07_decode_vs_skip_uuid, deserialize_uuid, ValueKind::Uuid, 17);
// obligation: C07.decode_vs_skip_uuid_truncated | harness: c07_decode_vs_skip_uuid_truncated | kind: bounded | bound: input one byte shorter than the longest encoding (16 bytes) | tier: quick
decode_vs_skip!(c07_decode_vs_skip_uuid_truncated, deserialize_uuid, ValueKind::Uuid, 16);
// obligation: C07.decode_vs_skip_object_id | harness: c07_decode_vs_skip_object_id | kind: complete | bound: none (all payload bytes of the longest encoding, 33 bytes) | tier: thorough
decode_vs_skip!(c07_decode_vs_skip_object_id, deserialize_object_id, ValueKind::ObjectId, 33);
// obligation: C07.decode_vs_skip_object_id_truncated | harness: c07_decode_vs_skip_object_id_truncated | kind: bounded | bound: input one byte shorter than the longest encoding (32 bytes) | tier: thorough
decode_vs_skip!(c07_decode_vs_skip_object_id_truncated, deserialize_object_id, ValueKind::ObjectId, 32);
// (service id, 65 bytes: no verdict after 1300 s in the thorough run; the truncated 64-byte variant below completes)
// obligation: C07.decode_vs_skip_service_id_truncated | harness: c07_decode_vs_skip_service_id_truncated | kind: bounded | bound: input one byte shorter than the longest encoding (64 bytes) | tier: thorough
decode_vs_skip!(c07_decode_vs_skip_service_id_truncated, deserialize_service_id, ValueKind::ServiceId, 64);
// obligation: C07.decode_vs_skip_sender | harness: c07_decode_vs_skip_sender | kind: complete | bound: none (all payload bytes of the longest encoding, 17 bytes) | tier: quick
decode_vs_skip!(c07_decode_vs_skip_sender, deserialize_sender, ValueKind::Sender, 17);
// obligation: C07.decode_vs_skip_sender_truncated | harness: c07_decode_vs_skip_sender_truncated | kind: bounded | bound: input one byte shorter than the longest encoding (16 bytes) | tier: quick
decode_vs_skip!(c07_decode_vs_skip_sender_truncated, deserialize_sender, ValueKind::Sender, 16);
// obligation: C07.decode_vs_skip_receiver | harness: c07_decode_vs_skip_receiver | kind: complete | bound: none (all payload bytes of the longest encoding, 17 bytes) | tier: thorough
decode_vs_skip!(c07_decode_vs_skip_receiver, deserialize_receiver, ValueKind::Receiver, 17);
// obligation: C07.decode_vs_skip_receiver_truncated | harness: c07_decode_vs_skip_receiver_truncated | kind: bounded | bound: input one byte shorter than the longest encoding (16 bytes) | tier: thorough
decode_vs_skip!(c07_decode_vs_skip_receiver_truncated, deserialize_receiver, ValueKind::Receiver, 16);
// obligation: C07.len_split_agree_u16 | harness: c07_len_split_agree_u16 | kind: complete | bound: none (all payload bytes of the longest encoding, 4 bytes) | tier: quick
len_split_agree!(c07_len_split_agree_u16, ValueKind::U16, 4);
// obligation: C07.len_split_agree_i64 | harness: c07_len_split_agree_i64 | kind: complete | bound: none (all payload bytes of the longest encoding, 10 bytes) | tier: quick
len_split_agree!(c07_len_split_agree_i64, ValueKind::I64, 10);
// obligation: C07.len_split_agree_f32 | harness: c07_len_split_agree_f32 | kind: complete | bound: none (all payload bytes of the longest encoding, 5 bytes) | tier: quick
len_split_agree!(c07_len_split_agree_f32, ValueKind::F32, 5);
// obligation: C07.len_split_agree_uuid | harness: c07_len_split_agree_uuid | kind: complete | bound: none (all payload bytes of the longest encoding, 17 bytes) | tier: quick
len_split_agree!(c07_len_split_agree_uuid, ValueKind::Uuid, 17);

// ------------------------------------------------------------------------------------------------------------
// NOT covered: the nesting limit inside Deserializer::skip (Some / Enum / container arms recursing into skip). Even with
// every byte of the input concrete and unwind(3), one nested skip did not produce a verdict in 540-600 s (measured): CBMC
// does not fold the kind byte read behind `&mut &[u8]`, so the second level expands all 66 arms again.

// C07: String / Bytes1 values: skip = varint length prefix + that many bytes, Err exactly when fewer bytes are present.
// (Decoding strings is out of reach - Buf::copy_to_bytes - so the skip side is checked against the wire format.)
macro_rules! skip_len_prefixed {
    ($name:ident, $kind:expr) => {
        #[kani::proof]
        #[kani::unwind(5)]
        fn $name() {
            let mut data: [u8; 8] = kani::any();
            data[0] = $kind as u8;
            // wire format: u32 varint n (N = 4): first <= 251 -> n = first, 1 byte; first = 251 + k -> k payload bytes
            let first = data[1];
            let (n, plen): (u64, usize) = if first <= 251 {
                (first as u64, 1)
            } else {
                let k = (first - 251) as usize;
                let mut v: u64 = 0;
                let mut i = 0;
                while i < k {
                    v |= (data[2 + i] as u64) << (8 * i);
                    i += 1;
                }
                (v, 1 + k)
            };
            let mut s: &[u8] = &data;
            let r = match Deserializer::new(&mut s, 0) {
                Ok(dz) => dz.skip(),
                Err(_) => {
                    assert!(false);
                    return;
                }
            };
            let avail = (8 - 1 - plen) as u64;
            if n <= avail {
                assert!(r.is_ok());
                assert!(s.len() as u64 == avail - n);
            } else {
                assert!(r.is_err());
            }
            kani::cover!(r.is_ok() && first > 251);
            kani::cover!(r.is_err());
        }
    };
}

// obligation: C07.skip_string_value | harness: c07_skip_string_value | kind: bounded | bound: input 8 bytes (length prefix of every varint width) | tier: quick
skip_len_prefixed!(c07_skip_string_value, ValueKind::String);
// obligation: C07.skip_bytes1_value | harness: c07_skip_bytes1_value | kind: bounded | bound: input 8 bytes (length prefix of every varint width) | tier: quick
skip_len_prefixed!(c07_skip_bytes1_value, ValueKind::Bytes1);

// ------------------------------------------------------------------------------------------------------------
// Strings. Decoding goes through Buf::copy_to_bytes (a BytesMut inside); with a CONCRETE length this is within reach
// (57 s), with a symbolic length it is not (measured). One harness per length, contents symbolic.
// serialize direction: kind, length as a one-byte u32 varint, the bytes
macro_rules! string_serialize {
    ($name:ident, $len:expr) => {
        #[kani::proof]
        #[kani::stub(bytes::BytesMut::reserve_inner, no_reserve_inner)]
        #[kani::unwind(10)]
        fn $name() {
            let raw: [u8; $len] = kani::any();
            let mut i = 0;
            while i < $len {
                kani::assume(raw[i] < 128); // ASCII, hence valid UTF-8 (type invariant of &str)
                i += 1;
            }
            // SAFETY: ASCII bytes are valid UTF-8
            let st = unsafe { core::str::from_utf8_unchecked(&raw) };
            let mut buf = BytesMut::with_capacity(96);
            match Serializer::new(&mut buf, 0) {
                Ok(s) => {
                    assert!(s.serialize_string(st).is_ok());
                }
                Err(_) => {
                    assert!(false);
                }
            }
            assert!(buf.len() == 2 + $len);
            assert!(buf[0] == ValueKind::String as u8 && buf[1] == $len as u8);
            let mut j = 0;
            while j < $len {
                assert!(buf[2 + j] == raw[j]);
                j += 1;
            }
        }
    };
}

// obligation: C01.string_serialize_len0 | harness: c01_string_serialize_len0 | kind: bounded | bound: empty string | tier: quick
string_serialize!(c01_string_serialize_len0, 0);
// obligation: C01.string_serialize_len3 | harness: c01_string_serialize_len3 | kind: bounded | bound: ASCII string of 3 bytes (contents symbolic) | tier: quick
string_serialize!(c01_string_serialize_len3, 3);

// decode direction: [String, 2, a, b] with a, b ASCII decodes to exactly those two bytes and consumes everything
// obligation: C01.string_decode_len2 | harness: c01_string_decode_len2 | kind: bounded | bound: ASCII string of 2 bytes (contents symbolic) | tier: quick
#[kani::proof]
#[kani::unwind(6)]
fn c01_string_decode_len2() {
    let (a, b): (u8, u8) = (kani::any(), kani::any());
    kani::assume(a < 128 && b < 128);
    let data = [ValueKind::String as u8, 2, a, b];
    let mut s: &[u8] = &data;
    match Deserializer::new(&mut s, 0) {
        Ok(d) => match d.deserialize_string() {
            Ok(st) => {
                let bs = st.as_bytes();
                assert!(bs.len() == 2 && bs[0] == a && bs[1] == b);
            }
            Err(_) => {
                assert!(false);
            }
        },
        Err(_) => {
            assert!(false);
        }
    }
    assert!(s.is_empty());
}

// C07: arbitrary bytes behind a String kind byte and a concrete claimed length: skip ignores the content, decode
// additionally validates UTF-8 (the exception the property allows); when decode succeeds both consume the same bytes
// obligation: C07.string_decode_vs_skip_len2 | harness: c07_string_decode_vs_skip_len2 | kind: bounded | bound: claimed length 2, contents all byte values | tier: quick
#[kani::proof]
#[kani::unwind(6)]
fn c07_string_decode_vs_skip_len2() {
    let (a, b): (u8, u8) = (kani::any(), kani::any());
    let data = [ValueKind::String as u8, 2, a, b];
    let mut s1: &[u8] = &data;
    let mut s2: &[u8] = &data;
    let ok1 = match Deserializer::new(&mut s1, 0) {
        Ok(d) => d.deserialize_string().is_ok(),
        Err(_) => false,
    };
    let ok2 = match Deserializer::new(&mut s2, 0) {
        Ok(d) => d.skip().is_ok(),
        Err(_) => false,
    };
    assert!(ok2);
    assert!(s2.is_empty());
    if ok1 {
        assert!(s1.is_empty());
    }
    // two ASCII bytes are valid UTF-8; a lone continuation byte is not
    if a < 128 && b < 128 {
        assert!(ok1);
    }
    if a >= 0x80 && a < 0xc0 {
        assert!(!ok1);
    }
    kani::cover!(ok1);
    kani::cover!(!ok1);
}

// a claimed length larger than what is there is rejected by decode and skip alike (length is checked before copying)
macro_rules! string_too_long {
    ($name:ident, [$($byte:expr),*]) => {
        #[kani::proof]
        #[kani::unwind(8)]
        fn $name() {
            let data = [$($byte),*];
            let mut s1: &[u8] = &data;
            let mut s2: &[u8] = &data;
            let r1 = match Deserializer::new(&mut s1, 0) {
                Ok(d) => d.deserialize_string(),
                Err(_) => {
                    assert!(false);
                    return;
                }
            };
            assert!(matches!(r1, Err(DeserializeError::UnexpectedEoi)));
            let r2 = match Deserializer::new(&mut s2, 0) {
                Ok(d) => d.skip(),
                Err(_) => {
                    assert!(false);
                    return;
                }
            };
            assert!(matches!(r2, Err(DeserializeError::UnexpectedEoi)));
        }
    };
}

// obligation: C07.string_too_long_3 | harness: c07_string_too_long_3 | kind: bounded | bound: claimed length 3, 2 bytes available | tier: quick
string_too_long!(c07_string_too_long_3, [ValueKind::String as u8, 3, 65, 66]);
// obligation: C07.string_too_long_max | harness: c07_string_too_long_max | kind: bounded | bound: claimed length 2^32-1, 2 bytes available | tier: quick
string_too_long!(c07_string_too_long_max, [ValueKind::String as u8, 255, 255, 255, 255, 255, 65, 66]);
