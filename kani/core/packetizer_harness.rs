// Kani harnesses for core/src/message/packetizer.rs (child module of `message::packetizer`).
// Frames out = frames in, in order, each only once it is complete, for a two-frame stream and EVERY split point, through
// both input interfaces. All lengths are concrete (CBMC needs that, measured), contents are symbolic.
use super::Packetizer;
use bytes::BytesMut;

const F1: usize = 5; // first frame: header only
const F2: usize = 6; // second frame: header + one payload byte
const TOTAL: usize = F1 + F2;

fn stream(k1: u8, k2: u8, p2: u8) -> [u8; TOTAL] {
    [F1 as u8, 0, 0, 0, k1, F2 as u8, 0, 0, 0, k2, p2]
}

fn is_f1(m: &BytesMut, k1: u8) -> bool {
    m.len() == F1 && m[0] == F1 as u8 && m[1] == 0 && m[2] == 0 && m[3] == 0 && m[4] == k1
}

fn is_f2(m: &BytesMut, k2: u8, p2: u8) -> bool {
    m.len() == F2 && m[0] == F2 as u8 && m[1] == 0 && m[2] == 0 && m[3] == 0 && m[4] == k2 && m[5] == p2
}

// feed `bytes` through the zero-copy interface: spare_capacity_mut() + bytes_written()
fn feed_uninit(p: &mut Packetizer, bytes: &[u8]) {
    let mut off = 0;
    while off < bytes.len() {
        let spare = p.spare_capacity_mut();
        assert!(!spare.is_empty());
        let n = if spare.len() < bytes.len() - off { spare.len() } else { bytes.len() - off };
        let mut i = 0;
        while i < n {
            spare[i].write(bytes[off + i]);
            i += 1;
        }
        // documented contract of the unsafe fn: exactly the n bytes just initialised
        unsafe {
            p.bytes_written(n);
        }
        off += n;
    }
}

// after feeding the first `split` bytes exactly the frames completely contained in them are handed out, in order; after
// the rest, the remaining ones; then nothing. No byte is lost or duplicated.
macro_rules! split_at {
    ($name:ident, $split:expr, $feed:expr) => {
        #[kani::proof]
        #[kani::unwind(16)]
        fn $name() {
            let (k1, k2, p2): (u8, u8, u8) = (kani::any(), kani::any(), kani::any());
            let s = stream(k1, k2, p2);
            let mut p = Packetizer::new();
            let feed: fn(&mut Packetizer, &[u8]) = $feed;
            feed(&mut p, &s[..$split]);
            let mut got = 0usize;
            if $split >= F1 {
                match p.next_message() {
                    Some(m) => {
                        assert!(is_f1(&m, k1));
                    }
                    None => {
                        assert!(false);
                    }
                }
                got = 1;
                if $split >= TOTAL {
                    match p.next_message() {
                        Some(m) => {
                            assert!(is_f2(&m, k2, p2));
                        }
                        None => {
                            assert!(false);
                        }
                    }
                    got = 2;
                }
            }
            // an incomplete frame is never handed out
            assert!(p.next_message().is_none());
            feed(&mut p, &s[$split..]);
            if got == 0 {
                match p.next_message() {
                    Some(m) => {
                        assert!(is_f1(&m, k1));
                    }
                    None => {
                        assert!(false);
                    }
                }
                got = 1;
            }
            if got == 1 {
                match p.next_message() {
                    Some(m) => {
                        assert!(is_f2(&m, k2, p2));
                    }
                    None => {
                        assert!(false);
                    }
                }
            }
            assert!(p.next_message().is_none());
        }
    };
}

fn feed_slice(p: &mut Packetizer, bytes: &[u8]) {
    p.extend_from_slice(bytes);
}

// obligation: C14.split_slice_0 | harness: c14_split_slice_0 | kind: bounded | bound: two frames (5+6 bytes), split point 0, extend_from_slice | tier: quick
split_at!(c14_split_slice_0, 0, feed_slice);
// obligation: C14.split_slice_1 | harness: c14_split_slice_1 | kind: bounded | bound: two frames (5+6 bytes), split point 1, extend_from_slice | tier: quick
split_at!(c14_split_slice_1, 1, feed_slice);
// obligation: C14.split_slice_2 | harness: c14_split_slice_2 | kind: bounded | bound: two frames (5+6 bytes), split point 2, extend_from_slice | tier: quick
split_at!(c14_split_slice_2, 2, feed_slice);
// obligation: C14.split_slice_3 | harness: c14_split_slice_3 | kind: bounded | bound: two frames (5+6 bytes), split point 3, extend_from_slice | tier: quick
split_at!(c14_split_slice_3, 3, feed_slice);
// obligation: C14.split_slice_4 | harness: c14_split_slice_4 | kind: bounded | bound: two frames (5+6 bytes), split point 4, extend_from_slice | tier: quick
split_at!(c14_split_slice_4, 4, feed_slice);
// obligation: C14.split_slice_5 | harness: c14_split_slice_5 | kind: bounded | bound: two frames (5+6 bytes), split point 5, extend_from_slice | tier: quick
split_at!(c14_split_slice_5, 5, feed_slice);
// obligation: C14.split_slice_6 | harness: c14_split_slice_6 | kind: bounded | bound: two frames (5+6 bytes), split point 6, extend_from_slice | tier: quick
split_at!(c14_split_slice_6, 6, feed_slice);
// obligation: C14.split_slice_7 | harness: c14_split_slice_7 | kind: bounded | bound: two frames (5+6 bytes), split point 7, extend_from_slice | tier: quick
split_at!(c14_split_slice_7, 7, feed_slice);
// obligation: C14.split_slice_8 | harness: c14_split_slice_8 | kind: bounded | bound: two frames (5+6 bytes), split point 8, extend_from_slice | tier: quick
split_at!(c14_split_slice_8, 8, feed_slice);
// obligation: C14.split_slice_9 | harness: c14_split_slice_9 | kind: bounded | bound: two frames (5+6 bytes), split point 9, extend_from_slice | tier: quick
split_at!(c14_split_slice_9, 9, feed_slice);
// obligation: C14.split_slice_10 | harness: c14_split_slice_10 | kind: bounded | bound: two frames (5+6 bytes), split point 10, extend_from_slice | tier: quick
split_at!(c14_split_slice_10, 10, feed_slice);
// obligation: C14.split_slice_11 | harness: c14_split_slice_11 | kind: bounded | bound: two frames (5+6 bytes), split point 11, extend_from_slice | tier: quick
split_at!(c14_split_slice_11, 11, feed_slice);

// obligation: C14.split_uninit_3 | harness: c14_split_uninit_3 | kind: bounded | bound: two frames (5+6 bytes), split point 3, spare_capacity_mut/bytes_written | tier: quick
split_at!(c14_split_uninit_3, 3, feed_uninit);
// (split points 5 and 8 through the zero-copy interface: no verdict after 1800 s each - after the first frame has been
// split off, spare_capacity_mut() reserves 64 KiB on a shared buffer; only split points inside the first frame complete)

// single-byte feeding of one 6-byte frame: nothing until the last byte, then exactly the frame
// obligation: C14.byte_by_byte | harness: c14_byte_by_byte | kind: bounded | bound: one 6-byte frame fed one byte at a time | tier: quick
#[kani::proof]
#[kani::unwind(16)]
fn c14_byte_by_byte() {
    let (k2, p2): (u8, u8) = (kani::any(), kani::any());
    let f = [F2 as u8, 0, 0, 0, k2, p2];
    let mut p = Packetizer::new();
    let mut i = 0;
    while i < F2 {
        assert!(p.next_message().is_none());
        p.extend_from_slice(&f[i..i + 1]);
        i += 1;
    }
    match p.next_message() {
        Some(m) => {
            assert!(is_f2(&m, k2, p2));
        }
        None => {
            assert!(false);
        }
    }
    assert!(p.next_message().is_none());
}

// a frame whose prefix claims fewer than 4 bytes is handed out truncated (to be rejected by the codec) and never wedges
// the packetizer: the following frame still comes out intact
// obligation: C14.short_prefix | harness: c14_short_prefix | kind: bounded | bound: claimed length 0..=3, followed by one 5-byte frame | tier: quick
#[kani::proof]
#[kani::unwind(16)]
fn c14_short_prefix() {
    let claimed: u8 = kani::any();
    kani::assume(claimed <= 3);
    let k1: u8 = kani::any();
    let s = [claimed, 0, 0, 0, F1 as u8, 0, 0, 0, k1];
    let mut p = Packetizer::new();
    p.extend_from_slice(&s);
    match p.next_message() {
        Some(m) => {
            assert!(m.len() == claimed as usize);
        }
        None => {
            assert!(false);
        }
    }
    match p.next_message() {
        Some(m) => {
            assert!(is_f1(&m, k1));
        }
        None => {
            assert!(false);
        }
    }
    assert!(p.next_message().is_none());
}
