// Kani harnesses for core/src/tags/key_impl.rs (child module of `tags::key_impl`).
// Contracts are stated as assume-pre / assert-post around the real KeyTagImpl functions.
use super::KeyTagImpl;
use crate::tags::{String as TString, Uuid as TUuid, I16, I32, I64, I8, U16, U32, U64, U8};
use bytes::BytesMut;

// Sound stub: every harness writes into a BytesMut created with enough capacity, so BytesMut::reserve_inner (the
// re-allocation path that dominates CBMC's cost) must be unreachable. The stub turns "unreachable" into a proof
// obligation (assert!(false)); nothing is assumed about the bytes crate.
#[allow(dead_code)]
fn no_reserve_inner(_this: &mut BytesMut, _additional: usize, _allocate: bool) -> bool {
    assert!(false);
    true
}

// Contract of KeyTagImpl::skip relative to KeyTagImpl::deserialize_key (property C07):
//   for every byte string s:  skip(s) is Ok  <=>  deserialize_key(s) is Ok   (String: decode may additionally fail on UTF-8)
//   and when both are Ok they consume exactly the same number of bytes.
macro_rules! skip_agrees {
    ($name:ident, $tag:ty, $cap:expr, $mincover:expr) => {
        #[kani::proof]
        #[kani::stub(bytes::BytesMut::reserve_inner, no_reserve_inner)]
        #[kani::unwind(20)]
        fn $name() {
            let data: [u8; $cap] = kani::any();
            let len: usize = kani::any();
            kani::assume(len <= $cap);
            let mut s1: &[u8] = &data[..len];
            let mut s2: &[u8] = &data[..len];
            let ok1 = <$tag as KeyTagImpl>::deserialize_key(&mut s1).is_ok();
            let r2 = <$tag as KeyTagImpl>::skip(&mut s2);
            assert!(ok1 == r2.is_ok());
            if ok1 {
                assert!(s1.len() == s2.len());
                assert!(s1.len() <= len);
            }
            kani::cover!(ok1 && len - s1.len() >= $mincover);
            kani::cover!(!ok1);
        }
    };
}

// obligation: C07.key_skip_agrees_u8 | harness: c07_key_skip_agrees_u8 | kind: complete | bound: none (reads at most 1 byte; slice lengths 0..=3 symbolic) | tier: quick
skip_agrees!(c07_key_skip_agrees_u8, U8, 3, 1);
// obligation: C07.key_skip_agrees_i8 | harness: c07_key_skip_agrees_i8 | kind: complete | bound: none (reads at most 1 byte; slice lengths 0..=3 symbolic) | tier: quick
skip_agrees!(c07_key_skip_agrees_i8, I8, 3, 1);
// obligation: C07.key_skip_agrees_u16 | harness: c07_key_skip_agrees_u16 | kind: complete | bound: none (reads at most 3 bytes; slice lengths 0..=4 symbolic) | tier: quick
skip_agrees!(c07_key_skip_agrees_u16, U16, 4, 2);
// obligation: C07.key_skip_agrees_i16 | harness: c07_key_skip_agrees_i16 | kind: complete | bound: none (reads at most 3 bytes; slice lengths 0..=4 symbolic) | tier: quick
skip_agrees!(c07_key_skip_agrees_i16, I16, 4, 2);
// obligation: C07.key_skip_agrees_u32 | harness: c07_key_skip_agrees_u32 | kind: complete | bound: none (reads at most 5 bytes; slice lengths 0..=6 symbolic) | tier: quick
skip_agrees!(c07_key_skip_agrees_u32, U32, 6, 2);
// obligation: C07.key_skip_agrees_i32 | harness: c07_key_skip_agrees_i32 | kind: complete | bound: none (reads at most 5 bytes; slice lengths 0..=6 symbolic) | tier: quick
skip_agrees!(c07_key_skip_agrees_i32, I32, 6, 2);
// obligation: C07.key_skip_agrees_u64 | harness: c07_key_skip_agrees_u64 | kind: complete | bound: none (reads at most 9 bytes; slice lengths 0..=10 symbolic) | tier: quick
skip_agrees!(c07_key_skip_agrees_u64, U64, 10, 2);
// obligation: C07.key_skip_agrees_i64 | harness: c07_key_skip_agrees_i64 | kind: complete | bound: none (reads at most 9 bytes; slice lengths 0..=10 symbolic) | tier: quick
skip_agrees!(c07_key_skip_agrees_i64, I64, 10, 2);
// obligation: C07.key_skip_agrees_uuid | harness: c07_key_skip_agrees_uuid | kind: complete | bound: none (reads exactly 16 bytes; slice lengths 0..=17 symbolic) | tier: quick
skip_agrees!(c07_key_skip_agrees_uuid, TUuid, 17, 16);

// String keys are NOT covered: KeyTagImpl::deserialize_key for String goes through Buf::copy_to_bytes, whose default
// implementation for &[u8] builds a BytesMut; every harness touching it timed out (>300 s, measured). See DESIGN.md.

// Contract of serialize_key / deserialize_key (property C01, keyed containers): inverse, exact consumption.
macro_rules! key_roundtrip {
    ($name:ident, $tag:ty, $ty:ty) => {
        #[kani::proof]
        #[kani::stub(bytes::BytesMut::reserve_inner, no_reserve_inner)]
        #[kani::unwind(12)]
        fn $name() {
            let x: $ty = kani::any();
            let mut buf = BytesMut::with_capacity(96);
            let r = <$tag as KeyTagImpl>::serialize_key(x, &mut buf);
            assert!(r.is_ok());
            let mut s: &[u8] = &buf[..];
            match <$tag as KeyTagImpl>::deserialize_key(&mut s) {
                Ok(y) => {
                    assert!(y == x);
                }
                Err(_) => {
                    assert!(false);
                }
            }
            assert!(s.is_empty());
            // skipping the key consumes it completely as well
            let mut s2: &[u8] = &buf[..];
            assert!(<$tag as KeyTagImpl>::skip(&mut s2).is_ok());
            assert!(s2.is_empty());
        }
    };
}

// obligation: C01.key_roundtrip_u8 | harness: c01_key_roundtrip_u8 | kind: complete | bound: none (all values) | tier: quick
key_roundtrip!(c01_key_roundtrip_u8, U8, u8);
// obligation: C01.key_roundtrip_i8 | harness: c01_key_roundtrip_i8 | kind: complete | bound: none (all values) | tier: quick
key_roundtrip!(c01_key_roundtrip_i8, I8, i8);
// obligation: C01.key_roundtrip_u16 | harness: c01_key_roundtrip_u16 | kind: complete | bound: none (all values) | tier: quick
key_roundtrip!(c01_key_roundtrip_u16, U16, u16);
// obligation: C01.key_roundtrip_i16 | harness: c01_key_roundtrip_i16 | kind: complete | bound: none (all values) | tier: quick
key_roundtrip!(c01_key_roundtrip_i16, I16, i16);
// obligation: C01.key_roundtrip_u32 | harness: c01_key_roundtrip_u32 | kind: complete | bound: none (all values) | tier: quick
key_roundtrip!(c01_key_roundtrip_u32, U32, u32);
// obligation: C01.key_roundtrip_i32 | harness: c01_key_roundtrip_i32 | kind: complete | bound: none (all values) | tier: quick
key_roundtrip!(c01_key_roundtrip_i32, I32, i32);
// obligation: C01.key_roundtrip_u64 | harness: c01_key_roundtrip_u64 | kind: complete | bound: none (all values) | tier: quick
key_roundtrip!(c01_key_roundtrip_u64, U64, u64);
// obligation: C01.key_roundtrip_i64 | harness: c01_key_roundtrip_i64 | kind: complete | bound: none (all values) | tier: quick
key_roundtrip!(c01_key_roundtrip_i64, I64, i64);

// obligation: C01.key_roundtrip_uuid | harness: c01_key_roundtrip_uuid | kind: complete | bound: none (all 128-bit values) | tier: quick
#[kani::proof]
#[kani::stub(bytes::BytesMut::reserve_inner, no_reserve_inner)]
#[kani::unwind(20)]
fn c01_key_roundtrip_uuid() {
    let b: [u8; 16] = kani::any();
    let x = uuid::Uuid::from_bytes(b);
    let mut buf = BytesMut::with_capacity(96);
    assert!(<TUuid as KeyTagImpl>::serialize_key(x, &mut buf).is_ok());
    assert!(buf.len() == 16);
    let mut s: &[u8] = &buf[..];
    match <TUuid as KeyTagImpl>::deserialize_key(&mut s) {
        Ok(y) => {
            assert!(*y.as_bytes() == b);
        }
        Err(_) => {
            assert!(false);
        }
    }
    assert!(s.is_empty());
}

// Contract of KeyTagImpl::convert (property C13): on every input, convert succeeds exactly when deserialize_key
// succeeds (String: UTF-8 aside), consumes exactly what deserialize_key consumes, and writes exactly what
// serialize_key writes for the decoded key (i.e. the canonical encoding).
macro_rules! key_convert {
    ($name:ident, $tag:ty, $cap:expr, $mincover:expr) => {
        #[kani::proof]
        #[kani::stub(bytes::BytesMut::reserve_inner, no_reserve_inner)]
        #[kani::unwind(20)]
        fn $name() {
            let data: [u8; $cap] = kani::any();
            let len: usize = kani::any();
            kani::assume(len <= $cap);
            let mut s1: &[u8] = &data[..len];
            let mut s2: &[u8] = &data[..len];
            let mut dst = BytesMut::with_capacity(96);
            let mut canon = BytesMut::with_capacity(96);
            let ok1 = match <$tag as KeyTagImpl>::deserialize_key(&mut s1) {
                Ok(k) => {
                    assert!(<$tag as KeyTagImpl>::serialize_key(k, &mut canon).is_ok());
                    true
                }
                Err(_) => false,
            };
            let r2 = <$tag as KeyTagImpl>::convert(&mut s2, &mut dst);
            assert!(ok1 == r2.is_ok());
            if ok1 {
                assert!(s1.len() == s2.len());
                assert!(canon.len() == dst.len());
                let mut i = 0;
                while i < canon.len() {
                    assert!(canon[i] == dst[i]);
                    i += 1;
                }
            }
            kani::cover!(r2.is_ok() && len - s2.len() >= $mincover);
            kani::cover!(r2.is_err());
        }
    };
}

// obligation: C13.key_convert_u8 | harness: c13_key_convert_u8 | kind: complete | bound: none (reads at most 1 byte; lengths 0..=3) | tier: quick
key_convert!(c13_key_convert_u8, U8, 3, 1);
// obligation: C13.key_convert_i8 | harness: c13_key_convert_i8 | kind: complete | bound: none (reads at most 1 byte; lengths 0..=3) | tier: quick
key_convert!(c13_key_convert_i8, I8, 3, 1);
// obligation: C13.key_convert_u16 | harness: c13_key_convert_u16 | kind: complete | bound: none (reads at most 3 bytes; lengths 0..=4) | tier: quick
key_convert!(c13_key_convert_u16, U16, 4, 2);
// obligation: C13.key_convert_i16 | harness: c13_key_convert_i16 | kind: complete | bound: none (reads at most 3 bytes; lengths 0..=4) | tier: quick
key_convert!(c13_key_convert_i16, I16, 4, 2);
// obligation: C13.key_convert_u32 | harness: c13_key_convert_u32 | kind: complete | bound: none (reads at most 5 bytes; lengths 0..=6) | tier: quick
key_convert!(c13_key_convert_u32, U32, 6, 2);
// obligation: C13.key_convert_i32 | harness: c13_key_convert_i32 | kind: complete | bound: none (reads at most 5 bytes; lengths 0..=6) | tier: quick
key_convert!(c13_key_convert_i32, I32, 6, 2);
// obligation: C13.key_convert_u64 | harness: c13_key_convert_u64 | kind: complete | bound: none (reads at most 9 bytes; lengths 0..=10) | tier: quick
key_convert!(c13_key_convert_u64, U64, 10, 2);
// obligation: C13.key_convert_i64 | harness: c13_key_convert_i64 | kind: complete | bound: none (reads at most 9 bytes; lengths 0..=10) | tier: quick
key_convert!(c13_key_convert_i64, I64, 10, 2);
// obligation: C13.key_convert_uuid | harness: c13_key_convert_uuid | kind: complete | bound: none (reads exactly 16 bytes; lengths 0..=17) | tier: quick
key_convert!(c13_key_convert_uuid, TUuid, 17, 16);

// C07: String keys: skip = u32 varint length prefix + that many bytes (checked against the wire format; decoding String
// keys is out of reach, see above).
// obligation: C07.key_skip_string_spec | harness: c07_key_skip_string_spec | kind: bounded | bound: input 8 bytes (length prefix of every varint width) | tier: quick
#[kani::proof]
#[kani::unwind(6)]
fn c07_key_skip_string_spec() {
    let data: [u8; 8] = kani::any();
    let first = data[0];
    let (n, plen): (u64, usize) = if first <= 251 {
        (first as u64, 1)
    } else {
        let k = (first - 251) as usize;
        let mut v: u64 = 0;
        let mut i = 0;
        while i < k {
            v |= (data[1 + i] as u64) << (8 * i);
            i += 1;
        }
        (v, 1 + k)
    };
    let mut s: &[u8] = &data;
    let r = <TString as KeyTagImpl>::skip(&mut s);
    let avail = (8 - plen) as u64;
    if n <= avail {
        assert!(r.is_ok());
        assert!(s.len() as u64 == avail - n);
    } else {
        assert!(r.is_err());
    }
    kani::cover!(r.is_ok() && first > 251);
    kani::cover!(r.is_err());
}
