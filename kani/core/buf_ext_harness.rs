// Kani harnesses for core/src/buf_ext.rs. Injected as a child module of `buf_ext` in a scratch copy of /repo
// (`#[cfg(kani)] #[path = ".."] mod verif_kani_buf_ext;`), so private items are visible. Nothing is re-typed:
// every call below goes to the real functions.
//
// Contract style: assume-pre / assert-post around the real call (what #[kani::proof_for_contract] expands to).
// No unwrap/expect/assert_eq (they pull in fmt machinery).
use super::{
    zigzag_decode_i16, zigzag_decode_i32, zigzag_decode_i64, zigzag_encode_i16, zigzag_encode_i32,
    zigzag_encode_i64, BufMutExt, ValueBufExt,
};
use bytes::BytesMut;

// Sound stub: every harness writes into a BytesMut created with enough capacity, so BytesMut::reserve_inner (the
// re-allocation path that dominates CBMC's cost) must be unreachable. The stub turns "unreachable" into a proof
// obligation (assert!(false)); nothing is assumed about the bytes crate.
#[allow(dead_code)]
fn no_reserve_inner(_this: &mut BytesMut, _additional: usize, _allocate: bool) -> bool {
    assert!(false);
    true
}

// ------------------------------------------------------------------------------------------------------------
// Wire-format specification of the variable-length integer encoding, written independently of the code:
//   value v of an N-byte integer type, k = number of significant little-endian bytes of v (k = 1 for v = 0)
//   if v <= 255 - N:  one byte, the value itself
//   else:             marker byte (255 - N + k) followed by the k low-order bytes of v
fn spec_sig_bytes<const N: usize>(le: &[u8; N]) -> usize {
    let mut k = N;
    while k > 1 && le[k - 1] == 0 {
        k -= 1;
    }
    k
}

fn check_varint_format<const N: usize>(le: [u8; N], enc: &[u8]) {
    let k = spec_sig_bytes(&le);
    let small = k == 1 && le[0] <= 255 - N as u8;
    if small {
        assert!(enc.len() == 1);
        assert!(enc[0] == le[0]);
    } else {
        assert!(enc.len() == 1 + k);
        assert!(enc[0] == 255 - N as u8 + k as u8);
        let mut i = 0;
        while i < k {
            assert!(enc[1 + i] == le[i]);
            i += 1;
        }
    }
}

// obligation: C01.varint_u16_roundtrip | harness: c01_varint_u16_roundtrip | kind: complete | bound: none (all 2^16 values; loops bounded by N=2) | tier: quick
#[kani::proof]
#[kani::stub(bytes::BytesMut::reserve_inner, no_reserve_inner)]
#[kani::unwind(5)]
fn c01_varint_u16_roundtrip() {
    let x: u16 = kani::any();
    let mut buf = BytesMut::with_capacity(96);
    buf.put_varint_u16_le(x);
    check_varint_format::<2>(x.to_le_bytes(), &buf[..]);
    let mut s: &[u8] = &buf[..];
    match s.try_get_varint_u16_le() {
        Ok(y) => assert!(y == x),
        Err(_) => {
            assert!(false);
        }
    }
    assert!(s.is_empty());
    kani::cover!(buf.len() == 1);
    kani::cover!(buf.len() == 3);
}

// obligation: C01.varint_u32_roundtrip | harness: c01_varint_u32_roundtrip | kind: complete | bound: none (all 2^32 values; loops bounded by N=4) | tier: quick
#[kani::proof]
#[kani::stub(bytes::BytesMut::reserve_inner, no_reserve_inner)]
#[kani::unwind(7)]
fn c01_varint_u32_roundtrip() {
    let x: u32 = kani::any();
    let mut buf = BytesMut::with_capacity(96);
    buf.put_varint_u32_le(x);
    check_varint_format::<4>(x.to_le_bytes(), &buf[..]);
    let mut s: &[u8] = &buf[..];
    match s.try_get_varint_u32_le() {
        Ok(y) => assert!(y == x),
        Err(_) => {
            assert!(false);
        }
    }
    assert!(s.is_empty());
    kani::cover!(buf.len() == 1);
    kani::cover!(buf.len() == 5);
}

// obligation: C01.varint_u64_roundtrip | harness: c01_varint_u64_roundtrip | kind: complete | bound: none (all 2^64 values; loops bounded by N=8) | tier: quick
#[kani::proof]
#[kani::stub(bytes::BytesMut::reserve_inner, no_reserve_inner)]
#[kani::unwind(11)]
fn c01_varint_u64_roundtrip() {
    let x: u64 = kani::any();
    let mut buf = BytesMut::with_capacity(96);
    buf.put_varint_u64_le(x);
    check_varint_format::<8>(x.to_le_bytes(), &buf[..]);
    let mut s: &[u8] = &buf[..];
    match s.try_get_varint_u64_le() {
        Ok(y) => assert!(y == x),
        Err(_) => {
            assert!(false);
        }
    }
    assert!(s.is_empty());
    kani::cover!(buf.len() == 1);
    kani::cover!(buf.len() == 9);
}

// Zigzag: specification  x >= 0 -> 2x ; x < 0 -> -2x - 1  (so small magnitudes stay small), and inverse.
// obligation: C01.zigzag_i16 | harness: c01_zigzag_i16 | kind: complete | bound: none (all values, loop-free) | tier: quick
#[kani::proof]
#[kani::stub(bytes::BytesMut::reserve_inner, no_reserve_inner)]
fn c01_zigzag_i16() {
    let x: i16 = kani::any();
    let e = zigzag_encode_i16(x);
    let spec = if x >= 0 { (x as i32 * 2) as u16 } else { (-(x as i32) * 2 - 1) as u16 };
    assert!(e == spec);
    assert!(zigzag_decode_i16(e) == x);
    let u: u16 = kani::any();
    assert!(zigzag_encode_i16(zigzag_decode_i16(u)) == u);
}

// obligation: C01.zigzag_i32 | harness: c01_zigzag_i32 | kind: complete | bound: none (all values, loop-free) | tier: quick
#[kani::proof]
#[kani::stub(bytes::BytesMut::reserve_inner, no_reserve_inner)]
fn c01_zigzag_i32() {
    let x: i32 = kani::any();
    let e = zigzag_encode_i32(x);
    let spec = if x >= 0 { (x as i64 * 2) as u32 } else { (-(x as i64) * 2 - 1) as u32 };
    assert!(e == spec);
    assert!(zigzag_decode_i32(e) == x);
    let u: u32 = kani::any();
    assert!(zigzag_encode_i32(zigzag_decode_i32(u)) == u);
}

// obligation: C01.zigzag_i64 | harness: c01_zigzag_i64 | kind: complete | bound: none (all values, loop-free) | tier: quick
#[kani::proof]
#[kani::stub(bytes::BytesMut::reserve_inner, no_reserve_inner)]
fn c01_zigzag_i64() {
    let x: i64 = kani::any();
    let e = zigzag_encode_i64(x);
    let spec = if x >= 0 { (x as i128 * 2) as u64 } else { (-(x as i128) * 2 - 1) as u64 };
    assert!(e == spec);
    assert!(zigzag_decode_i64(e) == x);
    let u: u64 = kani::any();
    assert!(zigzag_encode_i64(zigzag_decode_i64(u)) == u);
}

// ------------------------------------------------------------------------------------------------------------
// C07: bounds-checked primitives. Contract (from the wire format, not from the code):
//   try_get_varint_le::<N>(s):  s empty -> Err(UnexpectedEoi)
//                               first <= 255-N -> Ok([first,0,..]), consumes 1
//                               else k = first-(255-N); fewer than k bytes follow -> Err(UnexpectedEoi)
//                                    otherwise Ok(the k bytes, zero-extended), consumes 1+k
//   try_skip_varint_le::<N>(s): Ok exactly when try_get_varint_le is Ok, consuming the same number of bytes
// The slice length is symbolic in 0..=N+2; the functions read at most N+1 bytes, so longer inputs add no behaviour.
use crate::DeserializeError;

fn check_get_varint<const N: usize, const CAP: usize>() {
    let data: [u8; CAP] = kani::any();
    let len: usize = kani::any();
    kani::assume(len <= CAP);
    let mut s: &[u8] = &data[..len];
    let mut s2: &[u8] = &data[..len];
    let r = ValueBufExt::try_get_varint_le::<N>(&mut s);
    let r2 = ValueBufExt::try_skip_varint_le::<N>(&mut s2);
    if len == 0 {
        assert!(matches!(r, Err(DeserializeError::UnexpectedEoi)));
        assert!(matches!(r2, Err(DeserializeError::UnexpectedEoi)));
        return;
    }
    let first = data[0];
    if first <= 255 - N as u8 {
        match r {
            Ok(b) => {
                assert!(b[0] == first);
                let mut i = 1;
                while i < N {
                    assert!(b[i] == 0);
                    i += 1;
                }
            }
            Err(_) => {
                assert!(false);
            }
        }
        assert!(s.len() == len - 1);
        assert!(r2.is_ok());
        assert!(s2.len() == len - 1);
    } else {
        let k = (first - (255 - N as u8)) as usize;
        assert!(k >= 1 && k <= N);
        if len - 1 < k {
            assert!(matches!(r, Err(DeserializeError::UnexpectedEoi)));
            assert!(matches!(r2, Err(DeserializeError::UnexpectedEoi)));
        } else {
            match r {
                Ok(b) => {
                    let mut i = 0;
                    while i < N {
                        if i < k {
                            assert!(b[i] == data[1 + i]);
                        } else {
                            assert!(b[i] == 0);
                        }
                        i += 1;
                    }
                }
                Err(_) => {
                    assert!(false);
                }
            }
            assert!(s.len() == len - 1 - k);
            assert!(r2.is_ok());
            assert!(s2.len() == len - 1 - k);
        }
    }
    kani::cover!(len > 0 && data[0] > 255 - N as u8 && s.len() < len - 1);
}

// obligation: C07.get_skip_varint_2 | harness: c07_get_skip_varint_2 | kind: complete | bound: none (N=2, slice lengths 0..=4 symbolic, reads at most 3 bytes) | tier: quick
#[kani::proof]
#[kani::stub(bytes::BytesMut::reserve_inner, no_reserve_inner)]
#[kani::unwind(6)]
fn c07_get_skip_varint_2() {
    check_get_varint::<2, 4>();
}

// obligation: C07.get_skip_varint_4 | harness: c07_get_skip_varint_4 | kind: complete | bound: none (N=4, slice lengths 0..=6 symbolic, reads at most 5 bytes) | tier: quick
#[kani::proof]
#[kani::stub(bytes::BytesMut::reserve_inner, no_reserve_inner)]
#[kani::unwind(8)]
fn c07_get_skip_varint_4() {
    check_get_varint::<4, 6>();
}

// obligation: C07.get_skip_varint_8 | harness: c07_get_skip_varint_8 | kind: complete | bound: none (N=8, slice lengths 0..=10 symbolic, reads at most 9 bytes) | tier: quick
#[kani::proof]
#[kani::stub(bytes::BytesMut::reserve_inner, no_reserve_inner)]
#[kani::unwind(12)]
fn c07_get_skip_varint_8() {
    check_get_varint::<8, 10>();
}

// try_skip: Err(UnexpectedEoi) exactly when fewer than `n` bytes remain, otherwise exactly n consumed
// obligation: C07.try_skip_bounds | harness: c07_try_skip_bounds | kind: complete | bound: none (request length any usize; slice lengths 0..=8 symbolic) | tier: quick
#[kani::proof]
#[kani::stub(bytes::BytesMut::reserve_inner, no_reserve_inner)]
#[kani::unwind(10)]
fn c07_try_skip_bounds() {
    let data: [u8; 8] = kani::any();
    let len: usize = kani::any();
    kani::assume(len <= 8);
    let n: usize = kani::any();
    let mut s: &[u8] = &data[..len];
    let r = ValueBufExt::try_skip(&mut s, n);
    if n <= len {
        assert!(r.is_ok());
        assert!(s.len() == len - n);
    } else {
        assert!(matches!(r, Err(DeserializeError::UnexpectedEoi)));
        assert!(s.len() == len);
    }
    kani::cover!(n > len);
    kani::cover!(n > 0 && n <= len);
}

// try_copy_to_bytes is NOT covered: Buf::copy_to_bytes for &[u8] builds a BytesMut internally; every harness touching
// it (even with the copy unreachable under the assumption) timed out (>300 s, measured). See DESIGN.md.

// discriminant helpers never read past the slice and map unknown bytes to InvalidSerialization
// obligation: C07.discriminant_bounds | harness: c07_discriminant_bounds | kind: complete | bound: none (slice lengths 0..=2 symbolic, all byte values) | tier: quick
#[kani::proof]
#[kani::stub(bytes::BytesMut::reserve_inner, no_reserve_inner)]
#[kani::unwind(4)]
fn c07_discriminant_bounds() {
    use crate::ValueKind;
    let data: [u8; 2] = kani::any();
    let len: usize = kani::any();
    kani::assume(len <= 2);
    let mut s: &[u8] = &data[..len];
    let peek = ValueBufExt::try_peek_discriminant_u8::<ValueKind>(&s);
    assert!(s.len() == len);
    let get = ValueBufExt::try_get_discriminant_u8::<ValueKind>(&mut s);
    if len == 0 {
        assert!(matches!(peek, Err(DeserializeError::UnexpectedEoi)));
        assert!(matches!(get, Err(DeserializeError::UnexpectedEoi)));
    } else {
        assert!(s.len() == len - 1);
        match (peek, get) {
            (Ok(a), Ok(b)) => {
                assert!(a == b);
                assert!(a as u8 == data[0]);
            }
            (Err(DeserializeError::InvalidSerialization), Err(DeserializeError::InvalidSerialization)) => {}
            _ => {
                assert!(false);
            }
        }
    }
}

// ------------------------------------------------------------------------------------------------------------
// C08: the message codec's own copies of the field primitives (MessageBufExt) obey the same wire-format contract as the
// value codec's; this is the byte level underneath the field-sequence model used by the Verus unit core_messages.
mod msg {
    use super::super::{BufMutExt, MessageBufExt};
    use crate::message::MessageDeserializeError;
    use crate::message::MessageKind;
    use bytes::BytesMut;

    #[allow(dead_code)]
    fn no_reserve_inner(_this: &mut BytesMut, _additional: usize, _allocate: bool) -> bool {
        assert!(false);
        true
    }

    // obligation: C08.msg_varint_u32_roundtrip | harness: c08_msg_varint_u32_roundtrip | kind: complete | bound: none (all 2^32 values) | tier: quick
    #[kani::proof]
    #[kani::stub(bytes::BytesMut::reserve_inner, no_reserve_inner)]
    #[kani::unwind(7)]
    fn c08_msg_varint_u32_roundtrip() {
        let x: u32 = kani::any();
        let mut buf = BytesMut::with_capacity(96);
        buf.put_varint_u32_le(x);
        let mut s: &[u8] = &buf[..];
        match MessageBufExt::try_get_varint_u32_le(&mut s) {
            Ok(y) => {
                assert!(y == x);
            }
            Err(_) => {
                assert!(false);
            }
        }
        assert!(s.is_empty());
    }

    // obligation: C08.msg_get_varint_4 | harness: c08_msg_get_varint_4 | kind: complete | bound: none (slice lengths 0..=6 symbolic, reads at most 5 bytes) | tier: quick
    #[kani::proof]
    #[kani::unwind(8)]
    fn c08_msg_get_varint_4() {
        let data: [u8; 6] = kani::any();
        let len: usize = kani::any();
        kani::assume(len <= 6);
        let mut s: &[u8] = &data[..len];
        let r = MessageBufExt::try_get_varint_le::<4>(&mut s);
        if len == 0 {
            assert!(matches!(r, Err(MessageDeserializeError::UnexpectedEoi)));
            return;
        }
        let first = data[0];
        if first <= 251 {
            match r {
                Ok(b) => {
                    assert!(b[0] == first && b[1] == 0 && b[2] == 0 && b[3] == 0);
                }
                Err(_) => {
                    assert!(false);
                }
            }
            assert!(s.len() == len - 1);
        } else {
            let k = (first - 251) as usize;
            if len - 1 < k {
                assert!(matches!(r, Err(MessageDeserializeError::UnexpectedEoi)));
            } else {
                match r {
                    Ok(b) => {
                        let mut i = 0;
                        while i < 4 {
                            if i < k {
                                assert!(b[i] == data[1 + i]);
                            } else {
                                assert!(b[i] == 0);
                            }
                            i += 1;
                        }
                    }
                    Err(_) => {
                        assert!(false);
                    }
                }
                assert!(s.len() == len - 1 - k);
            }
        }
    }

    // obligation: C08.msg_discriminant | harness: c08_msg_discriminant | kind: complete | bound: none (slice lengths 0..=2, all byte values) | tier: quick
    #[kani::proof]
    #[kani::unwind(4)]
    fn c08_msg_discriminant() {
        let data: [u8; 2] = kani::any();
        let len: usize = kani::any();
        kani::assume(len <= 2);
        let mut s: &[u8] = &data[..len];
        let r = MessageBufExt::try_get_discriminant_u8::<MessageKind>(&mut s);
        if len == 0 {
            assert!(matches!(r, Err(MessageDeserializeError::UnexpectedEoi)));
        } else {
            assert!(s.len() == len - 1);
            match r {
                Ok(k) => {
                    // num_enum: the parsed kind converts back to the byte that was read
                    let b: u8 = k.into();
                    assert!(b == data[0]);
                }
                Err(e) => {
                    assert!(matches!(e, MessageDeserializeError::InvalidSerialization));
                }
            }
        }
        // unknown kind bytes are rejected, known ones accepted: 63 kinds, numbered 0..=62
        kani::cover!(len > 0 && r.is_err());
        kani::cover!(r.is_ok());
    }
}
