// Kani harnesses for core/src/buf_ext.rs. Injected as a child module of `buf_ext` in a scratch copy of /repo
// (`#[cfg(kani)] #[path = ".."] mod verif_kani_buf_ext;`), so private items are visible. Nothing is re-typed:
// every call below goes to the real functions.
//
// Contract style: assume-pre / assert-post around the real call (what #[kani::proof_for_contract] expands to).
// No unwrap/expect/assert_eq (they pull in fmt machinery).
use super::{
    zigzag_decode_i16, zigzag_decode_i32, zigzag_decode_i64, zigzag_encode_i16, zigzag_encode_i32,
    zigzag_encode_i64, BufMutExt, ValueBufExt,
};
use bytes::BytesMut;

// ------------------------------------------------------------------------------------------------------------
// Wire-format specification of the variable-length integer encoding, written independently of the code:
//   value v of an N-byte integer type, k = number of significant little-endian bytes of v (k = 1 for v = 0)
//   if v <= 255 - N:  one byte, the value itself
//   else:             marker byte (255 - N + k) followed by the k low-order bytes of v
fn spec_sig_bytes<const N: usize>(le: &[u8; N]) -> usize {
    let mut k = N;
    while k > 1 && le[k - 1] == 0 {
        k -= 1;
    }
    k
}

fn check_varint_format<const N: usize>(le: [u8; N], enc: &[u8]) {
    let k = spec_sig_bytes(&le);
    let small = k == 1 && le[0] <= 255 - N as u8;
    if small {
        assert!(enc.len() == 1);
        assert!(enc[0] == le[0]);
    } else {
        assert!(enc.len() == 1 + k);
        assert!(enc[0] == 255 - N as u8 + k as u8);
        let mut i = 0;
        while i < k {
            assert!(enc[1 + i] == le[i]);
            i += 1;
        }
    }
}

// obligation: C01.varint_u16_roundtrip | harness: c01_varint_u16_roundtrip | kind: complete | bound: none (all 2^16 values; loops bounded by N=2) | tier: quick
#[kani::proof]
#[kani::unwind(5)]
fn c01_varint_u16_roundtrip() {
    let x: u16 = kani::any();
    let mut buf = BytesMut::new();
    buf.put_varint_u16_le(x);
    check_varint_format::<2>(x.to_le_bytes(), &buf[..]);
    let mut s: &[u8] = &buf[..];
    match s.try_get_varint_u16_le() {
        Ok(y) => assert!(y == x),
        Err(_) => {
            assert!(false);
        }
    }
    assert!(s.is_empty());
    kani::cover!(buf.len() == 1);
    kani::cover!(buf.len() == 3);
}

// obligation: C01.varint_u32_roundtrip | harness: c01_varint_u32_roundtrip | kind: complete | bound: none (all 2^32 values; loops bounded by N=4) | tier: quick
#[kani::proof]
#[kani::unwind(7)]
fn c01_varint_u32_roundtrip() {
    let x: u32 = kani::any();
    let mut buf = BytesMut::new();
    buf.put_varint_u32_le(x);
    check_varint_format::<4>(x.to_le_bytes(), &buf[..]);
    let mut s: &[u8] = &buf[..];
    match s.try_get_varint_u32_le() {
        Ok(y) => assert!(y == x),
        Err(_) => {
            assert!(false);
        }
    }
    assert!(s.is_empty());
    kani::cover!(buf.len() == 1);
    kani::cover!(buf.len() == 5);
}

// obligation: C01.varint_u64_roundtrip | harness: c01_varint_u64_roundtrip | kind: complete | bound: none (all 2^64 values; loops bounded by N=8) | tier: quick
#[kani::proof]
#[kani::unwind(11)]
fn c01_varint_u64_roundtrip() {
    let x: u64 = kani::any();
    let mut buf = BytesMut::new();
    buf.put_varint_u64_le(x);
    check_varint_format::<8>(x.to_le_bytes(), &buf[..]);
    let mut s: &[u8] = &buf[..];
    match s.try_get_varint_u64_le() {
        Ok(y) => assert!(y == x),
        Err(_) => {
            assert!(false);
        }
    }
    assert!(s.is_empty());
    kani::cover!(buf.len() == 1);
    kani::cover!(buf.len() == 9);
}

// Zigzag: specification  x >= 0 -> 2x ; x < 0 -> -2x - 1  (so small magnitudes stay small), and inverse.
// obligation: C01.zigzag_i16 | harness: c01_zigzag_i16 | kind: complete | bound: none (all values, loop-free) | tier: quick
#[kani::proof]
fn c01_zigzag_i16() {
    let x: i16 = kani::any();
    let e = zigzag_encode_i16(x);
    let spec = if x >= 0 { (x as i32 * 2) as u16 } else { (-(x as i32) * 2 - 1) as u16 };
    assert!(e == spec);
    assert!(zigzag_decode_i16(e) == x);
    let u: u16 = kani::any();
    assert!(zigzag_encode_i16(zigzag_decode_i16(u)) == u);
}

// obligation: C01.zigzag_i32 | harness: c01_zigzag_i32 | kind: complete | bound: none (all values, loop-free) | tier: quick
#[kani::proof]
fn c01_zigzag_i32() {
    let x: i32 = kani::any();
    let e = zigzag_encode_i32(x);
    let spec = if x >= 0 { (x as i64 * 2) as u32 } else { (-(x as i64) * 2 - 1) as u32 };
    assert!(e == spec);
    assert!(zigzag_decode_i32(e) == x);
    let u: u32 = kani::any();
    assert!(zigzag_encode_i32(zigzag_decode_i32(u)) == u);
}

// obligation: C01.zigzag_i64 | harness: c01_zigzag_i64 | kind: complete | bound: none (all values, loop-free) | tier: quick
#[kani::proof]
fn c01_zigzag_i64() {
    let x: i64 = kani::any();
    let e = zigzag_encode_i64(x);
    let spec = if x >= 0 { (x as i128 * 2) as u64 } else { (-(x as i128) * 2 - 1) as u64 };
    assert!(e == spec);
    assert!(zigzag_decode_i64(e) == x);
    let u: u64 = kani::any();
    assert!(zigzag_encode_i64(zigzag_decode_i64(u)) == u);
}
