// Kani harnesses for core/src/message.rs and core/src/message/{serializer,deserializer}.rs (child module of `message`).
// Byte level of the frame machinery, exercised through representative kinds. The per-kind field logic of 51 kinds is
// proved by the Verus unit core_messages against a field-sequence MODEL of MessageSerializer / *Deserializer; these
// harnesses tie that model to bytes: 4-byte little-endian length prefix == frame length, kind byte, varint / discriminant /
// uuid field bytes, value splitting, strict parsing of arbitrary bytes of a given length.
// CBMC needs every buffer LENGTH to be concrete (measured): a serial is therefore taken from one varint width class per
// harness (the five classes together are all of u32), and arbitrary-bytes parsing uses one harness per frame length.
use super::{CloseChannelEndReply, MessageKind, MessageOps, Sync};
use bytes::BytesMut;

#[allow(dead_code)]
fn no_reserve_inner(_this: &mut BytesMut, _additional: usize, _allocate: bool) -> bool {
    assert!(false);
    true
}

// wire format of a u32 varint, written independently of the code: number of bytes and the bytes
fn spec_varint_u32(x: u32, out: &mut [u8; 5]) -> usize {
    let le = x.to_le_bytes();
    if x <= 251 {
        out[0] = le[0];
        1
    } else {
        let k = if x <= 0xff { 1 } else if x <= 0xffff { 2 } else if x <= 0xff_ffff { 3 } else { 4 };
        out[0] = 251 + k as u8;
        let mut i = 0;
        while i < k {
            out[1 + i] = le[i];
            i += 1;
        }
        1 + k
    }
}

fn check_header(buf: &[u8], kind: MessageKind) {
    let n = buf.len();
    assert!(n >= 5);
    // 4-byte little-endian length prefix equals the frame length
    assert!(buf[0] as usize + ((buf[1] as usize) << 8) + ((buf[2] as usize) << 16) + ((buf[3] as usize) << 24) == n);
    assert!(buf[4] == kind as u8);
}

// ---- Sync: one varint field. The five width classes together cover every serial -----------------------------------
macro_rules! sync_frame {
    ($name:ident, $lo:expr, $hi:expr, $vlen:expr) => {
        #[kani::proof]
        #[kani::unwind(12)]
        fn $name() {
            let serial: u32 = kani::any();
            kani::assume(serial >= $lo && serial <= $hi);
            let buf = match (Sync { serial }).serialize_message() {
                Ok(b) => b,
                Err(_) => {
                    assert!(false);
                    return;
                }
            };
            assert!(buf.len() == 5 + $vlen);
            check_header(&buf[..], MessageKind::Sync);
            let mut v = [0u8; 5];
            let n = spec_varint_u32(serial, &mut v);
            assert!(n == $vlen);
            let mut i = 0;
            while i < $vlen {
                assert!(buf[5 + i] == v[i]);
                i += 1;
            }
            // and the frame parses back to the same message
            match Sync::deserialize_message(buf) {
                Ok(m) => {
                    assert!(m.serial == serial);
                }
                Err(_) => {
                    assert!(false);
                }
            }
        }
    };
}

// obligation: C08.frame_sync_w1 | harness: c08_frame_sync_w1 | kind: complete | bound: none (all serials 0..=251; with w2..w5 all of u32) | tier: quick
sync_frame!(c08_frame_sync_w1, 0u32, 251u32, 1);
// obligation: C08.frame_sync_w2 | harness: c08_frame_sync_w2 | kind: complete | bound: none (all serials 252..=255) | tier: thorough
sync_frame!(c08_frame_sync_w2, 252u32, 0xffu32, 2);
// obligation: C08.frame_sync_w3 | harness: c08_frame_sync_w3 | kind: complete | bound: none (all serials 256..=65535) | tier: thorough
sync_frame!(c08_frame_sync_w3, 0x100u32, 0xffffu32, 3);
// obligation: C08.frame_sync_w4 | harness: c08_frame_sync_w4 | kind: complete | bound: none (all serials 2^16..2^24-1) | tier: thorough
sync_frame!(c08_frame_sync_w4, 0x1_0000u32, 0xff_ffffu32, 4);
// obligation: C08.frame_sync_w5 | harness: c08_frame_sync_w5 | kind: complete | bound: none (all serials 2^24..2^32-1) | tier: quick
sync_frame!(c08_frame_sync_w5, 0x100_0000u32, u32::MAX, 5);

// ---- strict parsing of ARBITRARY bytes of a given length as a Sync frame ---------------------------------------------
// accepted iff: length prefix == length, kind byte == Sync, the payload is exactly one well-formed varint, nothing left
// over; the accepted message re-serializes to a frame that parses to the same message (checked by frame_sync_*).
macro_rules! parse_sync {
    ($name:ident, $len:expr) => {
        #[kani::proof]
        #[kani::stub(bytes::BytesMut::reserve_inner, no_reserve_inner)]
        #[kani::unwind(12)]
        fn $name() {
            let arr: [u8; $len] = kani::any();
            let data: &[u8] = &arr;
            // capacity == length: the tightest buffer a transport can hand over (an out-of-range split must panic here)
            let mut buf = BytesMut::with_capacity($len);
            buf.extend_from_slice(data);
            let r = Sync::deserialize_message(buf);
            let header_ok = $len >= 5 && data[0] as usize == $len && data[1] == 0 && data[2] == 0 && data[3] == 0
                && data[4] == MessageKind::Sync as u8;
            // payload = data[5..]: one varint that fills it exactly
            let plen = if $len >= 5 { $len - 5 } else { 0 };
            let mut payload_ok = false;
            let mut value: u32 = 0;
            if plen >= 1 {
                let first = data[5];
                if first <= 251 {
                    payload_ok = plen == 1;
                    value = first as u32;
                } else {
                    let k = (first - 251) as usize;
                    payload_ok = plen == 1 + k;
                    if payload_ok {
                        let mut i = 0;
                        while i < k {
                            value |= (data[6 + i] as u32) << (8 * i);
                            i += 1;
                        }
                    }
                }
            }
            match r {
                Ok(m) => {
                    assert!(header_ok && payload_ok);
                    assert!(m.serial == value);
                }
                Err(_) => {
                    assert!(!(header_ok && payload_ok));
                }
            }
            kani::cover!(r.is_err());
        }
    };
}

// obligation: C08.parse_sync_len4 | harness: c08_parse_sync_len4 | kind: bounded | bound: all byte strings of length 4 | tier: quick
parse_sync!(c08_parse_sync_len4, 4);
// obligation: C08.parse_sync_len5 | harness: c08_parse_sync_len5 | kind: bounded | bound: all byte strings of length 5 | tier: quick
parse_sync!(c08_parse_sync_len5, 5);
// obligation: C08.parse_sync_len6 | harness: c08_parse_sync_len6 | kind: bounded | bound: all byte strings of length 6 | tier: quick
parse_sync!(c08_parse_sync_len6, 6);
// obligation: C08.parse_sync_len7 | harness: c08_parse_sync_len7 | kind: bounded | bound: all byte strings of length 7 | tier: quick
parse_sync!(c08_parse_sync_len7, 7);
// obligation: C08.parse_sync_len8 | harness: c08_parse_sync_len8 | kind: bounded | bound: all byte strings of length 8 | tier: thorough
parse_sync!(c08_parse_sync_len8, 8);
// obligation: C08.parse_sync_len10 | harness: c08_parse_sync_len10 | kind: bounded | bound: all byte strings of length 10 | tier: thorough
parse_sync!(c08_parse_sync_len10, 10);
// obligation: C08.parse_sync_len11 | harness: c08_parse_sync_len11 | kind: bounded | bound: all byte strings of length 11 (longer than any Sync frame) | tier: thorough
parse_sync!(c08_parse_sync_len11, 11);

// ---- a kind with a discriminant field: CloseChannelEndReply ------------------------------------------------------
// (the serialize direction of kinds with more than one field - CloseChannelEndReply, CreateObject, Connect with a value -
// gave no verdict after 400-560 s each: every additional put grows the 4-byte initial buffer again; only Sync completes)
// obligation: C08.parse_close_channel_end_reply_len7 | harness: c08_parse_close_channel_end_reply_len7 | kind: bounded | bound: all byte strings of length 7 | tier: quick
#[kani::proof]
#[kani::stub(bytes::BytesMut::reserve_inner, no_reserve_inner)]
#[kani::unwind(12)]
fn c08_parse_close_channel_end_reply_len7() {
    let data: [u8; 7] = kani::any();
    let mut buf = BytesMut::with_capacity(7);
    buf.extend_from_slice(&data);
    let r = CloseChannelEndReply::deserialize_message(buf);
    let ok = data[0] == 7 && data[1] == 0 && data[2] == 0 && data[3] == 0
        && data[4] == MessageKind::CloseChannelEndReply as u8 && data[5] <= 251 && data[6] <= 2;
    match r {
        Ok(m) => {
            assert!(ok);
            assert!(m.serial == data[5] as u32);
            assert!(m.result as u8 == data[6]);
        }
        Err(_) => {
            assert!(!ok);
        }
    }
}

// (the Message dispatcher with a symbolic kind byte: no verdict after 1800 s)

// ---- strict parsing of arbitrary bytes as a frame that carries a value (Connect: value, then a varint) ------------------
// accepted iff: length prefix == length, kind == Connect, 1 <= value length <= what is there, and behind the value exactly
// one well-formed varint; never a panic (in particular not in BytesMut::split_off for an oversized claimed value length).
macro_rules! parse_connect {
    ($name:ident, $len:expr) => {
        #[kani::proof]
        #[kani::stub(bytes::BytesMut::reserve_inner, no_reserve_inner)]
        #[kani::unwind(14)]
        fn $name() {
            let arr: [u8; $len] = kani::any();
            let data: &[u8] = &arr;
            // capacity == length: the tightest buffer a transport can hand over (an out-of-range split must panic here)
            let mut buf = BytesMut::with_capacity($len);
            buf.extend_from_slice(data);
            let r = super::Connect::deserialize_message(buf);
            let header_ok = data[0] as usize == $len && data[1] == 0 && data[2] == 0 && data[3] == 0
                && data[4] == MessageKind::Connect as u8;
            let vlen = data[5] as usize + ((data[6] as usize) << 8) + ((data[7] as usize) << 16) + ((data[8] as usize) << 24);
            let avail = $len - 9;
            let mut ok = header_ok && vlen >= 1 && vlen <= avail;
            let mut version: u32 = 0;
            if ok {
                // the rest behind the value must be exactly one varint
                let rest = avail - vlen;
                if rest == 0 {
                    ok = false;
                } else {
                    let first = data[9 + vlen];
                    if first <= 251 {
                        ok = rest == 1;
                        version = first as u32;
                    } else {
                        let k = (first - 251) as usize;
                        ok = rest == 1 + k;
                        if ok {
                            let mut i = 0;
                            while i < k {
                                version |= (data[10 + vlen + i] as u32) << (8 * i);
                                i += 1;
                            }
                        }
                    }
                }
            }
            match r {
                Ok(m) => {
                    assert!(ok);
                    assert!(m.version == version);
                    let p: &[u8] = m.value.as_ref();
                    assert!(p.len() == vlen);
                    assert!(p[0] == data[9]);
                }
                Err(_) => {
                    assert!(!ok);
                }
            }
        }
    };
}

// obligation: C08.parse_connect_len11 | harness: c08_parse_connect_len11 | kind: bounded | bound: all byte strings of length 11 | tier: quick
parse_connect!(c08_parse_connect_len11, 11);
// obligation: C08.parse_connect_len12 | harness: c08_parse_connect_len12 | kind: bounded | bound: all byte strings of length 12 | tier: thorough
parse_connect!(c08_parse_connect_len12, 12);
