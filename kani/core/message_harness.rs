// Kani harnesses for core/src/message.rs and core/src/message/{serializer,deserializer}.rs (child module of `message`).
// Byte level of the frame machinery, exercised through representative kinds. The per-kind field logic of 51 kinds is
// proved by the Verus unit core_messages against a field-sequence MODEL of MessageSerializer / *Deserializer; these
// harnesses tie that model to bytes: 4-byte little-endian length prefix == frame length, kind byte, varint / discriminant /
// uuid field bytes, value splitting, strict parsing of arbitrary bytes of a given length.
// CBMC needs every buffer LENGTH to be concrete (measured): a serial is therefore taken from one varint width class per
// harness (the five classes together are all of u32), and arbitrary-bytes parsing uses one harness per frame length.
use super::{CloseChannelEndReply, MessageKind, MessageOps, Sync};
use bytes::BytesMut;

#[allow(dead_code)]
fn no_reserve_inner(_this: &mut BytesMut, _additional: usize, _allocate: bool) -> bool {
    assert!(false);
    true
}

// wire format of a u32 varint, written independently of the code: number of bytes and the bytes
fn spec_varint_u32(x: u32, out: &mut [u8; 5]) -> usize {
    let le = x.to_le_bytes();
    if x <= 251 {
        out[0] = le[0];
        1
    } else {
        let k = if x <= 0xff { 1 } else if x <= 0xffff { 2 } else if x <= 0xff_ffff { 3 } else { 4 };
        out[0] = 251 + k as u8;
        let mut i = 0;
        while i < k {
            out[1 + i] = le[i];
            i += 1;
        }
        1 + k
    }
}

fn check_header(buf: &[u8], kind: MessageKind) {
    let n = buf.len();
    assert!(n >= 5);
    // 4-byte little-endian length prefix equals the frame length
    assert!(buf[0] as usize + ((buf[1] as usize) << 8) + ((buf[2] as usize) << 16) + ((buf[3] as usize) << 24) == n);
    assert!(buf[4] == kind as u8);
}

// ---- Sync: one varint field. The five width classes together cover every serial -----------------------------------
macro_rules! sync_frame {
    ($name:ident, $lo:expr, $hi:expr, $vlen:expr) => {
        #[kani::proof]
        #[kani::unwind(12)]
        fn $name() {
            let serial: u32 = kani::any();
            kani::assume(serial >= $lo && serial <= $hi);
            let buf = match (Sync { serial }).serialize_message() {
                Ok(b) => b,
                Err(_) => {
                    assert!(false);
                    return;
                }
            };
            assert!(buf.len() == 5 + $vlen);
            check_header(&buf[..], MessageKind::Sync);
            let mut v = [0u8; 5];
            let n = spec_varint_u32(serial, &mut v);
            assert!(n == $vlen);
            let mut i = 0;
            while i < $vlen {
                assert!(buf[5 + i] == v[i]);
                i += 1;
            }
            // and the frame parses back to the same message
            match Sync::deserialize_message(buf) {
                Ok(m) => {
                    assert!(m.serial == serial);
                }
                Err(_) => {
                    assert!(false);
                }
            }
        }
    };
}

// obligation: C08.frame_sync_w1 | harness: c08_frame_sync_w1 | kind: complete | bound: none (all serials 0..=251; with w2..w5 all of u32) | tier: quick
sync_frame!(c08_frame_sync_w1, 0u32, 251u32, 1);
// obligation: C08.frame_sync_w2 | harness: c08_frame_sync_w2 | kind: complete | bound: none (all serials 252..=255) | tier: thorough
sync_frame!(c08_frame_sync_w2, 252u32, 0xffu32, 2);
// obligation: C08.frame_sync_w3 | harness: c08_frame_sync_w3 | kind: complete | bound: none (all serials 256..=65535) | tier: thorough
sync_frame!(c08_frame_sync_w3, 0x100u32, 0xffffu32, 3);
// obligation: C08.frame_sync_w4 | harness: c08_frame_sync_w4 | kind: complete | bound: none (all serials 2^16..2^24-1) | tier: thorough
sync_frame!(c08_frame_sync_w4, 0x1_0000u32, 0xff_ffffu32, 4);
// obligation: C08.frame_sync_w5 | harness: c08_frame_sync_w5 | kind: complete | bound: none (all serials 2^24..2^32-1) | tier: quick
sync_frame!(c08_frame_sync_w5, 0x100_0000u32, u32::MAX, 5);

// ---- strict parsing of ARBITRARY bytes of a given length as a Sync frame ---------------------------------------------
// accepted iff: length prefix == length, kind byte == Sync, the payload is exactly one well-formed varint, nothing left
// over; the accepted message re-serializes to a frame that parses to the same message (checked by frame_sync_*).
macro_rules! parse_sync {
    ($name:ident, $len:expr) => {
        #[kani::proof]
        #[kani::stub(bytes::BytesMut::reserve_inner, no_reserve_inner)]
        #[kani::unwind(12)]
        fn $name() {
            let arr: [u8; $len] = kani::any();
            let data: &[u8] = &arr;
            // capacity == length: the tightest buffer a transport can hand over (an out-of-range split must panic here)
            let mut buf = BytesMut::with_capacity($len);
            buf.extend_from_slice(data);
            let r = Sync::deserialize_message(buf);
            let header_ok = $len >= 5 && data[0] as usize == $len && data[1] == 0 && data[2] == 0 && data[3] == 0
                && data[4] == MessageKind::Sync as u8;
            // payload = data[5..]: one varint that fills it exactly
            let plen = if $len >= 5 { $len - 5 } else { 0 };
            let mut payload_ok = false;
            let mut value: u32 = 0;
            if plen >= 1 {
                let first = data[5];
                if first <= 251 {
                    payload_ok = plen == 1;
                    value = first as u32;
                } else {
                    let k = (first - 251) as usize;
                    payload_ok = plen == 1 + k;
                    if payload_ok {
                        let mut i = 0;
                        while i < k {
                            value |= (data[6 + i] as u32) << (8 * i);
                            i += 1;
                        }
                    }
                }
            }
            match r {
                Ok(m) => {
                    assert!(header_ok && payload_ok);
                    assert!(m.serial == value);
                }
                Err(_) => {
                    assert!(!(header_ok && payload_ok));
                }
            }
            kani::cover!(r.is_err());
        }
    };
}

// obligation: C08.parse_sync_len4 | harness: c08_parse_sync_len4 | kind: bounded | bound: all byte strings of length 4 | tier: quick
parse_sync!(c08_parse_sync_len4, 4);
// obligation: C08.parse_sync_len5 | harness: c08_parse_sync_len5 | kind: bounded | bound: all byte strings of length 5 | tier: quick
parse_sync!(c08_parse_sync_len5, 5);
// obligation: C08.parse_sync_len6 | harness: c08_parse_sync_len6 | kind: bounded | bound: all byte strings of length 6 | tier: quick
parse_sync!(c08_parse_sync_len6, 6);
// obligation: C08.parse_sync_len7 | harness: c08_parse_sync_len7 | kind: bounded | bound: all byte strings of length 7 | tier: quick
parse_sync!(c08_parse_sync_len7, 7);
// obligation: C08.parse_sync_len8 | harness: c08_parse_sync_len8 | kind: bounded | bound: all byte strings of length 8 | tier: thorough
parse_sync!(c08_parse_sync_len8, 8);
// obligation: C08.parse_sync_len10 | harness: c08_parse_sync_len10 | kind: bounded | bound: all byte strings of length 10 | tier: thorough
parse_sync!(c08_parse_sync_len10, 10);
// obligation: C08.parse_sync_len11 | harness: c08_parse_sync_len11 | kind: bounded | bound: all byte strings of length 11 (longer than any Sync frame) | tier: thorough
parse_sync!(c08_parse_sync_len11, 11);

// ---- a kind with a discriminant field: CloseChannelEndReply ------------------------------------------------------
// (the serialize direction of kinds with more than one field - CloseChannelEndReply, CreateObject, Connect with a value -
// gave no verdict after 400-560 s each: every additional put grows the 4-byte initial buffer again; only Sync completes)
// obligation: C08.parse_close_channel_end_reply_len7 | harness: c08_parse_close_channel_end_reply_len7 | kind: bounded | bound: all byte strings of length 7 | tier: quick
#[kani::proof]
#[kani::stub(bytes::BytesMut::reserve_inner, no_reserve_inner)]
#[kani::unwind(12)]
fn c08_parse_close_channel_end_reply_len7() {
    let data: [u8; 7] = kani::any();
    let mut buf = BytesMut::with_capacity(7);
    buf.extend_from_slice(&data);
    let r = CloseChannelEndReply::deserialize_message(buf);
    let ok = data[0] == 7 && data[1] == 0 && data[2] == 0 && data[3] == 0
        && data[4] == MessageKind::CloseChannelEndReply as u8 && data[5] <= 251 && data[6] <= 2;
    match r {
        Ok(m) => {
            assert!(ok);
            assert!(m.serial == data[5] as u32);
            assert!(m.result as u8 == data[6]);
        }
        Err(_) => {
            assert!(!ok);
        }
    }
}

// (the Message dispatcher with a symbolic kind byte: no verdict after 1800 s)

// ---- strict parsing of arbitrary bytes as a frame that carries a value (Connect: value, then a varint) ------------------
// accepted iff: length prefix == length, kind == Connect, 1 <= value length <= what is there, and behind the value exactly
// one well-formed varint; never a panic (in particular not in BytesMut::split_off for an oversized claimed value length).
macro_rules! parse_connect {
    ($name:ident, $len:expr) => {
        #[kani::proof]
        #[kani::stub(bytes::BytesMut::reserve_inner, no_reserve_inner)]
        #[kani::unwind(14)]
        fn $name() {
            let arr: [u8; $len] = kani::any();
            let data: &[u8] = &arr;
            // capacity == length: the tightest buffer a transport can hand over (an out-of-range split must panic here)
            let mut buf = BytesMut::with_capacity($len);
            buf.extend_from_slice(data);
            let r = super::Connect::deserialize_message(buf);
            let header_ok = data[0] as usize == $len && data[1] == 0 && data[2] == 0 && data[3] == 0
                && data[4] == MessageKind::Connect as u8;
            let vlen = data[5] as usize + ((data[6] as usize) << 8) + ((data[7] as usize) << 16) + ((data[8] as usize) << 24);
            let avail = $len - 9;
            let mut ok = header_ok && vlen >= 1 && vlen <= avail;
            let mut version: u32 = 0;
            if ok {
                // the rest behind the value must be exactly one varint
                let rest = avail - vlen;
                if rest == 0 {
                    ok = false;
                } else {
                    let first = data[9 + vlen];
                    if first <= 251 {
                        ok = rest == 1;
                        version = first as u32;
                    } else {
                        let k = (first - 251) as usize;
                        ok = rest == 1 + k;
                        if ok {
                            let mut i = 0;
                            while i < k {
                                version |= (data[10 + vlen + i] as u32) << (8 * i);
                                i += 1;
                            }
                        }
                    }
                }
            }
            match r {
                Ok(m) => {
                    assert!(ok);
                    assert!(m.version == version);
                    let p: &[u8] = m.value.as_ref();
                    assert!(p.len() == vlen);
                    assert!(p[0] == data[9]);
                }
                Err(_) => {
                    assert!(!ok);
                }
            }
        }
    };
}

// obligation: C08.parse_connect_len11 | harness: c08_parse_connect_len11 | kind: bounded | bound: all byte strings of length 11 | tier: quick
parse_connect!(c08_parse_connect_len11, 11);
// obligation: C08.parse_connect_len12 | harness: c08_parse_connect_len12 | kind: bounded | bound: all byte strings of length 12 | tier: thorough
parse_connect!(c08_parse_connect_len12, 12);

// ---- byte level of the serializer primitives, one representative kind per primitive (serialize direction only: together
// with a parse-back in the same harness CBMC gave no verdict; the parse direction has its own harnesses) ---------------
use super::{
    CallFunctionReply, CallFunctionResult, CloseChannelEndResult, Connect, CreateObject, ItemReceived,
};
use crate::{ChannelCookie, ObjectUuid, SerializedValue};
use uuid::Uuid;

fn value_of(bytes: &[u8]) -> SerializedValue {
    // a SerializedValue is its 9 reserved header bytes followed by the value bytes
    let mut raw = BytesMut::with_capacity(9 + bytes.len());
    raw.extend_from_slice(&[0u8; 9]);
    raw.extend_from_slice(bytes);
    SerializedValue::from_bytes_mut(raw)
}

// obligation: C08.bytes_close_channel_end_reply | harness: c08_bytes_close_channel_end_reply | kind: bounded | bound: serial <= 251 (one-byte varint), all three results | tier: quick
#[kani::proof]
#[kani::unwind(12)]
fn c08_bytes_close_channel_end_reply() {
    let serial: u32 = kani::any();
    kani::assume(serial <= 251);
    let which: u8 = kani::any();
    kani::assume(which < 3);
    let result = match which {
        0 => CloseChannelEndResult::Ok,
        1 => CloseChannelEndResult::InvalidChannel,
        _ => CloseChannelEndResult::ForeignChannel,
    };
    let buf = match (CloseChannelEndReply { serial, result }).serialize_message() {
        Ok(b) => b,
        Err(_) => {
            assert!(false);
            return;
        }
    };
    assert!(buf.len() == 7);
    check_header(&buf[..], MessageKind::CloseChannelEndReply);
    assert!(buf[5] == serial as u8 && buf[6] == which);
}

// (ClaimChannelEndReply - three puts - and CreateService - four puts: no verdict, CBMC exceeds 20 GB after ~2 min)
// obligation: C08.bytes_create_object | harness: c08_bytes_create_object | kind: bounded | bound: serial <= 251, all 128-bit uuids | tier: quick
#[kani::proof]
#[kani::unwind(20)]
fn c08_bytes_create_object() {
    let serial: u32 = kani::any();
    kani::assume(serial <= 251);
    let id: [u8; 16] = kani::any();
    let buf = match (CreateObject { serial, uuid: ObjectUuid(Uuid::from_bytes(id)) }).serialize_message() {
        Ok(b) => b,
        Err(_) => {
            assert!(false);
            return;
        }
    };
    assert!(buf.len() == 22);
    check_header(&buf[..], MessageKind::CreateObject);
    assert!(buf[5] == serial as u8);
    let mut i = 0;
    while i < 16 {
        assert!(buf[6 + i] == id[i]);
        i += 1;
    }
}

// frames with a value: [len][kind][value length: u32 LE][value bytes][fields]; the payload is in the frame unchanged
// obligation: C08.bytes_connect_value2 | harness: c08_bytes_connect_value2 | kind: bounded | bound: version <= 251, value of 2 bytes (symbolic content) | tier: quick
#[kani::proof]
#[kani::unwind(16)]
fn c08_bytes_connect_value2() {
    let version: u32 = kani::any();
    kani::assume(version <= 251);
    let v: [u8; 2] = kani::any();
    let buf = match (Connect { version, value: value_of(&v) }).serialize_message() {
        Ok(b) => b,
        Err(_) => {
            assert!(false);
            return;
        }
    };
    assert!(buf.len() == 12);
    check_header(&buf[..], MessageKind::Connect);
    assert!(buf[5] == 2 && buf[6] == 0 && buf[7] == 0 && buf[8] == 0);
    assert!(buf[9] == v[0] && buf[10] == v[1]);
    assert!(buf[11] == version as u8);
}

// obligation: C08.bytes_item_received_value3 | harness: c08_bytes_item_received_value3 | kind: bounded | bound: value of 3 bytes (symbolic content), all cookies | tier: quick
#[kani::proof]
#[kani::unwind(20)]
fn c08_bytes_item_received_value3() {
    let v: [u8; 3] = kani::any();
    let c: [u8; 16] = kani::any();
    let buf = match (ItemReceived { cookie: ChannelCookie(Uuid::from_bytes(c)), value: value_of(&v) }).serialize_message() {
        Ok(b) => b,
        Err(_) => {
            assert!(false);
            return;
        }
    };
    assert!(buf.len() == 28);
    check_header(&buf[..], MessageKind::ItemReceived);
    assert!(buf[5] == 3 && buf[6] == 0 && buf[7] == 0 && buf[8] == 0);
    assert!(buf[9] == v[0] && buf[10] == v[1] && buf[11] == v[2]);
    let mut i = 0;
    while i < 16 {
        assert!(buf[12 + i] == c[i]);
        i += 1;
    }
}

// obligation: C08.bytes_call_function_reply_ok | harness: c08_bytes_call_function_reply_ok | kind: bounded | bound: serial <= 251, Ok/Err with a value of 2 bytes | tier: quick
#[kani::proof]
#[kani::unwind(16)]
fn c08_bytes_call_function_reply_ok() {
    let serial: u32 = kani::any();
    kani::assume(serial <= 251);
    let v: [u8; 2] = kani::any();
    let is_ok: bool = kani::any();
    let result = if is_ok { CallFunctionResult::Ok(value_of(&v)) } else { CallFunctionResult::Err(value_of(&v)) };
    let buf = match (CallFunctionReply { serial, result }).serialize_message() {
        Ok(b) => b,
        Err(_) => {
            assert!(false);
            return;
        }
    };
    assert!(buf.len() == 13);
    check_header(&buf[..], MessageKind::CallFunctionReply);
    assert!(buf[5] == 2 && buf[6] == 0 && buf[7] == 0 && buf[8] == 0);
    assert!(buf[9] == v[0] && buf[10] == v[1]);
    assert!(buf[11] == serial as u8);
    assert!(buf[12] == if is_ok { 0 } else { 1 });
}
