// Kani harnesses for the container encodings, both epochs (child module of `serializer`).
// The containers are driven through the real typed Serializer / Deserializer front ends; element and key values
// are fully symbolic, the element COUNT is concrete (bounded obligations: <= 2 elements).
use super::Serializer;
use crate::deserializer::Deserializer;
use crate::tags;
use crate::ValueKind;
use bytes::BytesMut;

// Sound stub: every harness writes into a BytesMut created with enough capacity, so BytesMut::reserve_inner (the
// re-allocation path that dominates CBMC's cost) must be unreachable. The stub turns "unreachable" into a proof
// obligation (assert!(false)); nothing is assumed about the bytes crate.
#[allow(dead_code)]
fn no_reserve_inner(_this: &mut BytesMut, _additional: usize, _allocate: bool) -> bool {
    assert!(false);
    true
}

macro_rules! ok {
    ($e:expr) => {
        match $e {
            Ok(v) => v,
            Err(_) => {
                assert!(false);
                return;
            }
        }
    };
}

macro_rules! some {
    ($e:expr) => {
        match $e {
            Some(v) => v,
            None => {
                assert!(false);
                return;
            }
        }
    };
}

// ---- Vec ------------------------------------------------------------------------------------------------------
// obligation: C01.vec1_u32x2 | harness: c01_vec1_u32x2 | kind: bounded | bound: 2 elements (values all u32) | tier: quick
#[kani::proof]
#[kani::stub(bytes::BytesMut::reserve_inner, no_reserve_inner)]
#[kani::unwind(8)]
fn c01_vec1_u32x2() {
    let (a, b): (u32, u32) = (kani::any(), kani::any());
    let mut buf = BytesMut::with_capacity(96);
    {
        let mut v = ok!(ok!(Serializer::new(&mut buf, 0)).serialize_vec1(2));
        ok!(v.serialize::<tags::U32>(a));
        ok!(v.serialize::<tags::U32>(b));
        ok!(v.finish());
    }
    assert!(buf[0] == ValueKind::Vec1 as u8);
    assert!(buf[1] == 2);
    // legacy-specific and generic front end both accept it
    let mut s: &[u8] = &buf[..];
    let mut d = ok!(ok!(Deserializer::new(&mut s, 0)).deserialize_vec1());
    assert!(d.len() == 2);
    assert!(some!(ok!(d.deserialize::<tags::U32, u32>())) == a);
    assert!(some!(ok!(d.deserialize::<tags::U32, u32>())) == b);
    assert!(ok!(d.deserialize::<tags::U32, u32>()).is_none());
    ok!(d.finish(()));
    assert!(s.is_empty());
    let mut s2: &[u8] = &buf[..];
    let mut g = ok!(ok!(Deserializer::new(&mut s2, 0)).deserialize_vec());
    assert!(some!(ok!(g.deserialize::<tags::U32, u32>())) == a);
    assert!(some!(ok!(g.deserialize::<tags::U32, u32>())) == b);
    assert!(ok!(g.deserialize::<tags::U32, u32>()).is_none());
    ok!(g.finish(()));
    assert!(s2.is_empty());
}

// obligation: C01.vec2_u32x2 | harness: c01_vec2_u32x2 | kind: bounded | bound: 2 elements (values all u32) | tier: quick
#[kani::proof]
#[kani::stub(bytes::BytesMut::reserve_inner, no_reserve_inner)]
#[kani::unwind(8)]
fn c01_vec2_u32x2() {
    let (a, b): (u32, u32) = (kani::any(), kani::any());
    let mut buf = BytesMut::with_capacity(96);
    {
        let mut v = ok!(ok!(Serializer::new(&mut buf, 0)).serialize_vec2());
        ok!(v.serialize::<tags::U32>(a));
        ok!(v.serialize::<tags::U32>(b));
        ok!(v.finish());
    }
    assert!(buf[0] == ValueKind::Vec2 as u8);
    assert!(buf[buf.len() - 1] == ValueKind::None as u8);
    let mut s: &[u8] = &buf[..];
    let mut d = ok!(ok!(Deserializer::new(&mut s, 0)).deserialize_vec2());
    assert!(some!(ok!(d.deserialize::<tags::U32, u32>())) == a);
    assert!(some!(ok!(d.deserialize::<tags::U32, u32>())) == b);
    assert!(ok!(d.deserialize::<tags::U32, u32>()).is_none());
    ok!(d.finish(()));
    assert!(s.is_empty());
    let mut s2: &[u8] = &buf[..];
    let mut g = ok!(ok!(Deserializer::new(&mut s2, 0)).deserialize_vec());
    assert!(some!(ok!(g.deserialize::<tags::U32, u32>())) == a);
    assert!(some!(ok!(g.deserialize::<tags::U32, u32>())) == b);
    assert!(ok!(g.deserialize::<tags::U32, u32>()).is_none());
    ok!(g.finish(()));
    assert!(s2.is_empty());
}

// ---- Sets: every integer key tag, both epochs, keys symbolic over the full width --------------------------------
macro_rules! set_roundtrip {
    ($name1:ident, $name2:ident, $tag:ty, $ty:ty, $k1:expr, $k2:expr) => {
        #[kani::proof]
        #[kani::stub(bytes::BytesMut::reserve_inner, no_reserve_inner)]
        #[kani::unwind(12)]
        fn $name1() {
            let (a, b): ($ty, $ty) = (kani::any(), kani::any());
            let mut buf = BytesMut::with_capacity(96);
            {
                let mut v = ok!(ok!(Serializer::new(&mut buf, 0)).serialize_set1::<$tag>(2));
                ok!(v.serialize(&a));
                ok!(v.serialize(&b));
                ok!(v.finish());
            }
            assert!(buf[0] == $k1 as u8);
            let mut s: &[u8] = &buf[..];
            let mut d = ok!(ok!(Deserializer::new(&mut s, 0)).deserialize_set1::<$tag>());
            assert!(some!(ok!(d.deserialize::<$ty>())) == a);
            assert!(some!(ok!(d.deserialize::<$ty>())) == b);
            assert!(ok!(d.deserialize::<$ty>()).is_none());
            ok!(d.finish(()));
            assert!(s.is_empty());
            let mut s2: &[u8] = &buf[..];
            let mut g = ok!(ok!(Deserializer::new(&mut s2, 0)).deserialize_set::<$tag>());
            assert!(some!(ok!(g.deserialize::<$ty>())) == a);
            assert!(some!(ok!(g.deserialize::<$ty>())) == b);
            assert!(ok!(g.deserialize::<$ty>()).is_none());
            ok!(g.finish(()));
            assert!(s2.is_empty());
            // skipping the typed container consumes exactly the same bytes (C07: skip agrees with decode)
            let mut s3: &[u8] = &buf[..];
            ok!(ok!(ok!(Deserializer::new(&mut s3, 0)).deserialize_set1::<$tag>()).skip());
            assert!(s3.is_empty());
        }

        #[kani::proof]
        #[kani::stub(bytes::BytesMut::reserve_inner, no_reserve_inner)]
        #[kani::unwind(12)]
        fn $name2() {
            let (a, b): ($ty, $ty) = (kani::any(), kani::any());
            let mut buf = BytesMut::with_capacity(96);
            {
                let mut v = ok!(ok!(Serializer::new(&mut buf, 0)).serialize_set2::<$tag>());
                ok!(v.serialize(&a));
                ok!(v.serialize(&b));
                ok!(v.finish());
            }
            assert!(buf[0] == $k2 as u8);
            let mut s: &[u8] = &buf[..];
            let mut d = ok!(ok!(Deserializer::new(&mut s, 0)).deserialize_set2::<$tag>());
            assert!(some!(ok!(d.deserialize::<$ty>())) == a);
            assert!(some!(ok!(d.deserialize::<$ty>())) == b);
            assert!(ok!(d.deserialize::<$ty>()).is_none());
            ok!(d.finish(()));
            assert!(s.is_empty());
            let mut s2: &[u8] = &buf[..];
            let mut g = ok!(ok!(Deserializer::new(&mut s2, 0)).deserialize_set::<$tag>());
            assert!(some!(ok!(g.deserialize::<$ty>())) == a);
            assert!(some!(ok!(g.deserialize::<$ty>())) == b);
            assert!(ok!(g.deserialize::<$ty>()).is_none());
            ok!(g.finish(()));
            assert!(s2.is_empty());
            let mut s3: &[u8] = &buf[..];
            ok!(ok!(ok!(Deserializer::new(&mut s3, 0)).deserialize_set2::<$tag>()).skip());
            assert!(s3.is_empty());
        }
    };
}

// obligation: C01.set1_u8x2 | harness: c01_set1_u8x2 | kind: bounded | bound: 2 keys (all values) | tier: thorough
// obligation: C01.set2_u8x2 | harness: c01_set2_u8x2 | kind: bounded | bound: 2 keys (all values) | tier: thorough
set_roundtrip!(c01_set1_u8x2, c01_set2_u8x2, tags::U8, u8, ValueKind::U8Set1, ValueKind::U8Set2);
// obligation: C01.set1_i8x2 | harness: c01_set1_i8x2 | kind: bounded | bound: 2 keys (all values) | tier: thorough
// obligation: C01.set2_i8x2 | harness: c01_set2_i8x2 | kind: bounded | bound: 2 keys (all values) | tier: thorough
set_roundtrip!(c01_set1_i8x2, c01_set2_i8x2, tags::I8, i8, ValueKind::I8Set1, ValueKind::I8Set2);
// obligation: C01.set1_u16x2 | harness: c01_set1_u16x2 | kind: bounded | bound: 2 keys (all values) | tier: quick
// obligation: C01.set2_u16x2 | harness: c01_set2_u16x2 | kind: bounded | bound: 2 keys (all values) | tier: quick
set_roundtrip!(c01_set1_u16x2, c01_set2_u16x2, tags::U16, u16, ValueKind::U16Set1, ValueKind::U16Set2);
// obligation: C01.set1_i16x2 | harness: c01_set1_i16x2 | kind: bounded | bound: 2 keys (all values) | tier: thorough
// obligation: C01.set2_i16x2 | harness: c01_set2_i16x2 | kind: bounded | bound: 2 keys (all values) | tier: thorough
set_roundtrip!(c01_set1_i16x2, c01_set2_i16x2, tags::I16, i16, ValueKind::I16Set1, ValueKind::I16Set2);
// obligation: C01.set1_u32x2 | harness: c01_set1_u32x2 | kind: bounded | bound: 2 keys (all values) | tier: thorough
// obligation: C01.set2_u32x2 | harness: c01_set2_u32x2 | kind: bounded | bound: 2 keys (all values) | tier: thorough
set_roundtrip!(c01_set1_u32x2, c01_set2_u32x2, tags::U32, u32, ValueKind::U32Set1, ValueKind::U32Set2);
// obligation: C01.set1_i32x2 | harness: c01_set1_i32x2 | kind: bounded | bound: 2 keys (all values) | tier: thorough
// obligation: C01.set2_i32x2 | harness: c01_set2_i32x2 | kind: bounded | bound: 2 keys (all values) | tier: thorough
set_roundtrip!(c01_set1_i32x2, c01_set2_i32x2, tags::I32, i32, ValueKind::I32Set1, ValueKind::I32Set2);
// obligation: C01.set1_u64x2 | harness: c01_set1_u64x2 | kind: bounded | bound: 2 keys (all values) | tier: thorough
// obligation: C01.set2_u64x2 | harness: c01_set2_u64x2 | kind: bounded | bound: 2 keys (all values) | tier: thorough
set_roundtrip!(c01_set1_u64x2, c01_set2_u64x2, tags::U64, u64, ValueKind::U64Set1, ValueKind::U64Set2);
// obligation: C01.set1_i64x2 | harness: c01_set1_i64x2 | kind: bounded | bound: 2 keys (all values) | tier: quick
// obligation: C01.set2_i64x2 | harness: c01_set2_i64x2 | kind: bounded | bound: 2 keys (all values) | tier: quick
set_roundtrip!(c01_set1_i64x2, c01_set2_i64x2, tags::I64, i64, ValueKind::I64Set1, ValueKind::I64Set2);

// ---- Maps: key symbolic over the full width, value a symbolic u16 ---------------------------------------------------
macro_rules! map_roundtrip {
    ($name1:ident, $name2:ident, $tag:ty, $ty:ty, $k1:expr, $k2:expr) => {
        #[kani::proof]
        #[kani::stub(bytes::BytesMut::reserve_inner, no_reserve_inner)]
        #[kani::unwind(12)]
        fn $name1() {
            let (a, b): ($ty, $ty) = (kani::any(), kani::any());
            let (x, y): (u16, u16) = (kani::any(), kani::any());
            let mut buf = BytesMut::with_capacity(96);
            {
                let mut v = ok!(ok!(Serializer::new(&mut buf, 0)).serialize_map1::<$tag>(2));
                ok!(v.serialize::<tags::U16>(&a, x));
                ok!(v.serialize::<tags::U16>(&b, y));
                ok!(v.finish());
            }
            assert!(buf[0] == $k1 as u8);
            let mut s: &[u8] = &buf[..];
            let mut d = ok!(ok!(Deserializer::new(&mut s, 0)).deserialize_map1::<$tag>());
            let e1 = some!(ok!(d.deserialize_element::<$ty, tags::U16, u16>()));
            assert!(e1.0 == a && e1.1 == x);
            let e2 = some!(ok!(d.deserialize_element::<$ty, tags::U16, u16>()));
            assert!(e2.0 == b && e2.1 == y);
            assert!(ok!(d.deserialize_element::<$ty, tags::U16, u16>()).is_none());
            ok!(d.finish(()));
            assert!(s.is_empty());
            let mut s2: &[u8] = &buf[..];
            let mut g = ok!(ok!(Deserializer::new(&mut s2, 0)).deserialize_map::<$tag>());
            let e1 = some!(ok!(g.deserialize_element::<$ty, tags::U16, u16>()));
            assert!(e1.0 == a && e1.1 == x);
            let e2 = some!(ok!(g.deserialize_element::<$ty, tags::U16, u16>()));
            assert!(e2.0 == b && e2.1 == y);
            assert!(ok!(g.deserialize_element::<$ty, tags::U16, u16>()).is_none());
            ok!(g.finish(()));
            assert!(s2.is_empty());
        }

        #[kani::proof]
        #[kani::stub(bytes::BytesMut::reserve_inner, no_reserve_inner)]
        #[kani::unwind(12)]
        fn $name2() {
            let (a, b): ($ty, $ty) = (kani::any(), kani::any());
            let (x, y): (u16, u16) = (kani::any(), kani::any());
            let mut buf = BytesMut::with_capacity(96);
            {
                let mut v = ok!(ok!(Serializer::new(&mut buf, 0)).serialize_map2::<$tag>());
                ok!(v.serialize::<tags::U16>(&a, x));
                ok!(v.serialize::<tags::U16>(&b, y));
                ok!(v.finish());
            }
            assert!(buf[0] == $k2 as u8);
            let mut s: &[u8] = &buf[..];
            let mut d = ok!(ok!(Deserializer::new(&mut s, 0)).deserialize_map2::<$tag>());
            let e1 = some!(ok!(d.deserialize_element::<$ty, tags::U16, u16>()));
            assert!(e1.0 == a && e1.1 == x);
            let e2 = some!(ok!(d.deserialize_element::<$ty, tags::U16, u16>()));
            assert!(e2.0 == b && e2.1 == y);
            assert!(ok!(d.deserialize_element::<$ty, tags::U16, u16>()).is_none());
            ok!(d.finish(()));
            assert!(s.is_empty());
            let mut s2: &[u8] = &buf[..];
            let mut g = ok!(ok!(Deserializer::new(&mut s2, 0)).deserialize_map::<$tag>());
            let e1 = some!(ok!(g.deserialize_element::<$ty, tags::U16, u16>()));
            assert!(e1.0 == a && e1.1 == x);
            let e2 = some!(ok!(g.deserialize_element::<$ty, tags::U16, u16>()));
            assert!(e2.0 == b && e2.1 == y);
            assert!(ok!(g.deserialize_element::<$ty, tags::U16, u16>()).is_none());
            ok!(g.finish(()));
            assert!(s2.is_empty());
        }
    };
}

// obligation: C01.map1_u8x2 | harness: c01_map1_u8x2 | kind: bounded | bound: 2 entries (keys and values all values) | tier: thorough
// obligation: C01.map2_u8x2 | harness: c01_map2_u8x2 | kind: bounded | bound: 2 entries (keys and values all values) | tier: thorough
map_roundtrip!(c01_map1_u8x2, c01_map2_u8x2, tags::U8, u8, ValueKind::U8Map1, ValueKind::U8Map2);
// obligation: C01.map1_i8x2 | harness: c01_map1_i8x2 | kind: bounded | bound: 2 entries (keys and values all values) | tier: thorough
// obligation: C01.map2_i8x2 | harness: c01_map2_i8x2 | kind: bounded | bound: 2 entries (keys and values all values) | tier: thorough
map_roundtrip!(c01_map1_i8x2, c01_map2_i8x2, tags::I8, i8, ValueKind::I8Map1, ValueKind::I8Map2);
// obligation: C01.map1_u16x2 | harness: c01_map1_u16x2 | kind: bounded | bound: 2 entries (keys and values all values) | tier: thorough
// obligation: C01.map2_u16x2 | harness: c01_map2_u16x2 | kind: bounded | bound: 2 entries (keys and values all values) | tier: thorough
map_roundtrip!(c01_map1_u16x2, c01_map2_u16x2, tags::U16, u16, ValueKind::U16Map1, ValueKind::U16Map2);
// obligation: C01.map1_i16x2 | harness: c01_map1_i16x2 | kind: bounded | bound: 2 entries (keys and values all values) | tier: thorough
// obligation: C01.map2_i16x2 | harness: c01_map2_i16x2 | kind: bounded | bound: 2 entries (keys and values all values) | tier: thorough
map_roundtrip!(c01_map1_i16x2, c01_map2_i16x2, tags::I16, i16, ValueKind::I16Map1, ValueKind::I16Map2);
// obligation: C01.map1_u32x2 | harness: c01_map1_u32x2 | kind: bounded | bound: 2 entries (keys and values all values) | tier: quick
// obligation: C01.map2_u32x2 | harness: c01_map2_u32x2 | kind: bounded | bound: 2 entries (keys and values all values) | tier: quick
map_roundtrip!(c01_map1_u32x2, c01_map2_u32x2, tags::U32, u32, ValueKind::U32Map1, ValueKind::U32Map2);
// obligation: C01.map1_i32x2 | harness: c01_map1_i32x2 | kind: bounded | bound: 2 entries (keys and values all values) | tier: thorough
// obligation: C01.map2_i32x2 | harness: c01_map2_i32x2 | kind: bounded | bound: 2 entries (keys and values all values) | tier: thorough
map_roundtrip!(c01_map1_i32x2, c01_map2_i32x2, tags::I32, i32, ValueKind::I32Map1, ValueKind::I32Map2);
// obligation: C01.map1_u64x2 | harness: c01_map1_u64x2 | kind: bounded | bound: 2 entries (keys and values all values) | tier: thorough
// obligation: C01.map2_u64x2 | harness: c01_map2_u64x2 | kind: bounded | bound: 2 entries (keys and values all values) | tier: thorough
map_roundtrip!(c01_map1_u64x2, c01_map2_u64x2, tags::U64, u64, ValueKind::U64Map1, ValueKind::U64Map2);
// obligation: C01.map1_i64x2 | harness: c01_map1_i64x2 | kind: bounded | bound: 2 entries (keys and values all values) | tier: thorough
// obligation: C01.map2_i64x2 | harness: c01_map2_i64x2 | kind: bounded | bound: 2 entries (keys and values all values) | tier: thorough
map_roundtrip!(c01_map1_i64x2, c01_map2_i64x2, tags::I64, i64, ValueKind::I64Map1, ValueKind::I64Map2);

// ---- Struct, Enum, Option ----------------------------------------------------------------------------------------
// obligation: C01.struct1_x2 | harness: c01_struct1_x2 | kind: bounded | bound: 2 fields (ids all u32, values all u16/u8) | tier: quick
#[kani::proof]
#[kani::stub(bytes::BytesMut::reserve_inner, no_reserve_inner)]
#[kani::unwind(10)]
fn c01_struct1_x2() {
    let (i, j): (u32, u32) = (kani::any(), kani::any());
    let (x, y): (u16, u8) = (kani::any(), kani::any());
    let mut buf = BytesMut::with_capacity(96);
    {
        let mut v = ok!(ok!(Serializer::new(&mut buf, 0)).serialize_struct1(2));
        ok!(v.serialize::<tags::U16>(i, x));
        ok!(v.serialize::<tags::U8>(j, y));
        ok!(v.finish());
    }
    assert!(buf[0] == ValueKind::Struct1 as u8);
    let mut s: &[u8] = &buf[..];
    let mut d = ok!(ok!(Deserializer::new(&mut s, 0)).deserialize_struct());
    {
        let f = some!(ok!(d.deserialize()));
        assert!(f.id() == i);
        assert!(ok!(f.deserialize::<tags::U16, u16>()) == x);
    }
    {
        let f = some!(ok!(d.deserialize()));
        assert!(f.id() == j);
        assert!(ok!(f.deserialize::<tags::U8, u8>()) == y);
    }
    assert!(ok!(d.deserialize()).is_none());
    ok!(d.finish(()));
    assert!(s.is_empty());
}

// obligation: C01.struct2_x2 | harness: c01_struct2_x2 | kind: bounded | bound: 2 fields (ids all u32, values all u16/u8) | tier: quick
#[kani::proof]
#[kani::stub(bytes::BytesMut::reserve_inner, no_reserve_inner)]
#[kani::unwind(10)]
fn c01_struct2_x2() {
    let (i, j): (u32, u32) = (kani::any(), kani::any());
    let (x, y): (u16, u8) = (kani::any(), kani::any());
    let mut buf = BytesMut::with_capacity(96);
    {
        let mut v = ok!(ok!(Serializer::new(&mut buf, 0)).serialize_struct2());
        ok!(v.serialize::<tags::U16>(i, x));
        ok!(v.serialize::<tags::U8>(j, y));
        ok!(v.finish());
    }
    assert!(buf[0] == ValueKind::Struct2 as u8);
    let mut s: &[u8] = &buf[..];
    let mut d = ok!(ok!(Deserializer::new(&mut s, 0)).deserialize_struct());
    {
        let f = some!(ok!(d.deserialize()));
        assert!(f.id() == i);
        assert!(ok!(f.deserialize::<tags::U16, u16>()) == x);
    }
    {
        let f = some!(ok!(d.deserialize()));
        assert!(f.id() == j);
        assert!(ok!(f.deserialize::<tags::U8, u8>()) == y);
    }
    assert!(ok!(d.deserialize()).is_none());
    ok!(d.finish(()));
    assert!(s.is_empty());
}

// obligation: C01.enum_roundtrip | harness: c01_enum_roundtrip | kind: complete | bound: none (all variant ids, all u16 payloads) | tier: quick
#[kani::proof]
#[kani::stub(bytes::BytesMut::reserve_inner, no_reserve_inner)]
#[kani::unwind(10)]
fn c01_enum_roundtrip() {
    let id: u32 = kani::any();
    let x: u16 = kani::any();
    let mut buf = BytesMut::with_capacity(96);
    ok!(ok!(Serializer::new(&mut buf, 0)).serialize_enum::<tags::U16>(id, x));
    assert!(buf[0] == ValueKind::Enum as u8);
    let mut s: &[u8] = &buf[..];
    let d = ok!(ok!(Deserializer::new(&mut s, 0)).deserialize_enum());
    assert!(d.id() == id);
    assert!(ok!(d.deserialize::<tags::U16, u16>()) == x);
    assert!(s.is_empty());
}

// obligation: C01.option_roundtrip | harness: c01_option_roundtrip | kind: complete | bound: none (None and Some(all u32)) | tier: quick
#[kani::proof]
#[kani::stub(bytes::BytesMut::reserve_inner, no_reserve_inner)]
#[kani::unwind(10)]
fn c01_option_roundtrip() {
    let v: Option<u32> = if kani::any() { Some(kani::any()) } else { None };
    let mut buf = BytesMut::with_capacity(96);
    ok!(ok!(Serializer::new(&mut buf, 0)).serialize::<tags::Option<tags::U32>>(v));
    let mut s: &[u8] = &buf[..];
    let r = ok!(ok!(Deserializer::new(&mut s, 0)).deserialize_option::<tags::U32, u32>());
    assert!(r == v);
    assert!(s.is_empty());
}

// ---- Bytes ---------------------------------------------------------------------------------------------------------
// obligation: C01.bytes1_len3 | harness: c01_bytes1_len3 | kind: bounded | bound: 3 bytes (contents symbolic) | tier: quick
#[kani::proof]
#[kani::stub(bytes::BytesMut::reserve_inner, no_reserve_inner)]
#[kani::unwind(8)]
fn c01_bytes1_len3() {
    let data: [u8; 3] = kani::any();
    let mut buf = BytesMut::with_capacity(96);
    ok!(ok!(Serializer::new(&mut buf, 0)).serialize_byte_slice1(&data));
    assert!(buf[0] == ValueKind::Bytes1 as u8);
    assert!(buf.len() == 5);
    let mut s: &[u8] = &buf[..];
    {
        let d = ok!(ok!(Deserializer::new(&mut s, 0)).deserialize_bytes());
        let sl = ok!(d.as_slice());
        assert!(sl.len() == 3 && sl[0] == data[0] && sl[1] == data[1] && sl[2] == data[2]);
        ok!(d.skip());
    }
    assert!(s.is_empty());
}

// obligation: C01.bytes2_len3 | harness: c01_bytes2_len3 | kind: bounded | bound: 3 bytes (contents symbolic) | tier: quick
#[kani::proof]
#[kani::stub(bytes::BytesMut::reserve_inner, no_reserve_inner)]
#[kani::unwind(8)]
fn c01_bytes2_len3() {
    let data: [u8; 3] = kani::any();
    let mut buf = BytesMut::with_capacity(96);
    ok!(ok!(Serializer::new(&mut buf, 0)).serialize_byte_slice2(&data));
    assert!(buf[0] == ValueKind::Bytes2 as u8);
    let mut s: &[u8] = &buf[..];
    {
        let d = ok!(ok!(Deserializer::new(&mut s, 0)).deserialize_bytes());
        let sl = ok!(d.as_slice());
        assert!(sl.len() == 3 && sl[0] == data[0] && sl[1] == data[1] && sl[2] == data[2]);
        ok!(d.skip());
    }
    assert!(s.is_empty());
}
