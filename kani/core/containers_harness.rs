// Kani harnesses for the container encodings, both epochs (child module of `serializer`).
// The containers are driven through the real typed Serializer / Deserializer front ends; element and key values
// are fully symbolic, the element COUNT is concrete (bounded obligations: <= 2 elements).
use super::Serializer;
use crate::deserializer::Deserializer;
use crate::tags;
use crate::ValueKind;
use bytes::BytesMut;

// Sound stub: every harness writes into a BytesMut created with enough capacity, so BytesMut::reserve_inner (the
// re-allocation path that dominates CBMC's cost) must be unreachable. The stub turns "unreachable" into a proof
// obligation (assert!(false)); nothing is assumed about the bytes crate.
#[allow(dead_code)]
fn no_reserve_inner(_this: &mut BytesMut, _additional: usize, _allocate: bool) -> bool {
    assert!(false);
    true
}

macro_rules! ok {
    ($e:expr) => {
        match $e {
            Ok(v) => v,
            Err(_) => {
                assert!(false);
                return;
            }
        }
    };
}

macro_rules! some {
    ($e:expr) => {
        match $e {
            Some(v) => v,
            None => {
                assert!(false);
                return;
            }
        }
    };
}

// ---- Vec ------------------------------------------------------------------------------------------------------
// Each container obligation is split into small harnesses (typed decode / generic front end / skip) because one
// harness doing all three needed >12 GB in CBMC (measured).
macro_rules! vec_harness {
    ($name:ident, $epoch:tt, $mode:tt) => {
        #[kani::proof]
        #[kani::stub(bytes::BytesMut::reserve_inner, no_reserve_inner)]
        #[kani::unwind(8)]
        fn $name() {
            let (a, b): (u32, u32) = (kani::any(), kani::any());
            let mut buf = BytesMut::with_capacity(96);
            vec_ser!($epoch, buf, a, b);
            let mut s: &[u8] = &buf[..];
            vec_de!($epoch, $mode, s, a, b);
            assert!(s.is_empty());
        }
    };
}
macro_rules! vec_ser {
    (1, $buf:ident, $a:ident, $b:ident) => {{
        let mut v = ok!(ok!(Serializer::new(&mut $buf, 0)).serialize_vec1(2));
        ok!(v.serialize::<tags::U32>($a));
        ok!(v.serialize::<tags::U32>($b));
        ok!(v.finish());
        assert!($buf[0] == ValueKind::Vec1 as u8);
        assert!($buf[1] == 2);
    }};
    (2, $buf:ident, $a:ident, $b:ident) => {{
        let mut v = ok!(ok!(Serializer::new(&mut $buf, 0)).serialize_vec2());
        ok!(v.serialize::<tags::U32>($a));
        ok!(v.serialize::<tags::U32>($b));
        ok!(v.finish());
        assert!($buf[0] == ValueKind::Vec2 as u8);
        assert!($buf[$buf.len() - 1] == ValueKind::None as u8);
    }};
}
macro_rules! vec_de {
    (1, typed, $s:ident, $a:ident, $b:ident) => {{
        let mut d = ok!(ok!(Deserializer::new(&mut $s, 0)).deserialize_vec1());
        assert!(d.len() == 2);
        vec_de_body!(d, $a, $b);
    }};
    (2, typed, $s:ident, $a:ident, $b:ident) => {{
        let mut d = ok!(ok!(Deserializer::new(&mut $s, 0)).deserialize_vec2());
        vec_de_body!(d, $a, $b);
    }};
    ($e:tt, generic, $s:ident, $a:ident, $b:ident) => {{
        let mut d = ok!(ok!(Deserializer::new(&mut $s, 0)).deserialize_vec());
        vec_de_body!(d, $a, $b);
    }};
}
macro_rules! vec_de_body {
    ($d:ident, $a:ident, $b:ident) => {{
        assert!(some!(ok!($d.deserialize::<tags::U32, u32>())) == $a);
        assert!(some!(ok!($d.deserialize::<tags::U32, u32>())) == $b);
        assert!(ok!($d.deserialize::<tags::U32, u32>()).is_none());
        ok!($d.finish(()));
    }};
}

// obligation: C01.vec1_u32x2_typed | harness: c01_vec1_u32x2_typed | kind: bounded | bound: 2 elements (values all u32) | tier: quick
vec_harness!(c01_vec1_u32x2_typed, 1, typed);
// obligation: C01.vec1_u32x2_generic | harness: c01_vec1_u32x2_generic | kind: bounded | bound: 2 elements (values all u32) | tier: thorough
vec_harness!(c01_vec1_u32x2_generic, 1, generic);
// obligation: C01.vec2_u32x2_typed | harness: c01_vec2_u32x2_typed | kind: bounded | bound: 2 elements (values all u32) | tier: quick
vec_harness!(c01_vec2_u32x2_typed, 2, typed);
// obligation: C01.vec2_u32x2_generic | harness: c01_vec2_u32x2_generic | kind: bounded | bound: 2 elements (values all u32) | tier: thorough
vec_harness!(c01_vec2_u32x2_generic, 2, generic);

// ---- Sets and maps: every integer key tag, both epochs, keys symbolic over the full width ---------------------------
macro_rules! set_harness {
    ($name:ident, $tag:ty, $ty:ty, $kind:expr, $ser:ident ( $($serarg:expr),* ), $de:ident, $mode:tt) => {
        #[kani::proof]
        #[kani::stub(bytes::BytesMut::reserve_inner, no_reserve_inner)]
        #[kani::unwind(12)]
        fn $name() {
            let (a, b): ($ty, $ty) = (kani::any(), kani::any());
            let mut buf = BytesMut::with_capacity(96);
            {
                let mut v = ok!(ok!(Serializer::new(&mut buf, 0)).$ser::<$tag>($($serarg),*));
                ok!(v.serialize(&a));
                ok!(v.serialize(&b));
                ok!(v.finish());
            }
            assert!(buf[0] == $kind as u8);
            let mut s: &[u8] = &buf[..];
            set_de!($mode, $de, $tag, $ty, s, a, b);
            assert!(s.is_empty());
        }
    };
}
macro_rules! set_de {
    (decode, $de:ident, $tag:ty, $ty:ty, $s:ident, $a:ident, $b:ident) => {{
        let mut d = ok!(ok!(Deserializer::new(&mut $s, 0)).$de::<$tag>());
        assert!(some!(ok!(d.deserialize::<$ty>())) == $a);
        assert!(some!(ok!(d.deserialize::<$ty>())) == $b);
        assert!(ok!(d.deserialize::<$ty>()).is_none());
        ok!(d.finish(()));
    }};
    (skip, $de:ident, $tag:ty, $ty:ty, $s:ident, $a:ident, $b:ident) => {{
        // skipping the typed container consumes exactly what decoding consumes (C07: skip agrees with decode)
        ok!(ok!(ok!(Deserializer::new(&mut $s, 0)).$de::<$tag>()).skip());
    }};
}
macro_rules! map_harness {
    ($name:ident, $tag:ty, $ty:ty, $kind:expr, $ser:ident ( $($serarg:expr),* ), $de:ident, $mode:tt) => {
        #[kani::proof]
        #[kani::stub(bytes::BytesMut::reserve_inner, no_reserve_inner)]
        #[kani::unwind(12)]
        fn $name() {
            let (a, b): ($ty, $ty) = (kani::any(), kani::any());
            let (x, y): (u16, u16) = (kani::any(), kani::any());
            let mut buf = BytesMut::with_capacity(96);
            {
                let mut v = ok!(ok!(Serializer::new(&mut buf, 0)).$ser::<$tag>($($serarg),*));
                ok!(v.serialize::<tags::U16>(&a, x));
                ok!(v.serialize::<tags::U16>(&b, y));
                ok!(v.finish());
            }
            assert!(buf[0] == $kind as u8);
            let mut s: &[u8] = &buf[..];
            map_de!($mode, $de, $tag, $ty, s, a, b, x, y);
            assert!(s.is_empty());
        }
    };
}
// (generic-front-end map harnesses for the key tags i16, u32, i32, u64, i64 were removed: 8 of the 10 gave no verdict in
// the thorough calibration run - out of memory or 1800 s; the typed variants of the same tags complete)
macro_rules! map_de {
    (decode, $de:ident, $tag:ty, $ty:ty, $s:ident, $a:ident, $b:ident, $x:ident, $y:ident) => {{
        let mut d = ok!(ok!(Deserializer::new(&mut $s, 0)).$de::<$tag>());
        let e1 = some!(ok!(d.deserialize_element::<$ty, tags::U16, u16>()));
        assert!(e1.0 == $a && e1.1 == $x);
        let e2 = some!(ok!(d.deserialize_element::<$ty, tags::U16, u16>()));
        assert!(e2.0 == $b && e2.1 == $y);
        assert!(ok!(d.deserialize_element::<$ty, tags::U16, u16>()).is_none());
        ok!(d.finish(()));
    }};
}

// obligation: C01.set1_u8x2_typed | harness: c01_set1_u8x2_typed | kind: bounded | bound: 2 keys (all values) | tier: quick
set_harness!(c01_set1_u8x2_typed, tags::U8, u8, ValueKind::U8Set1, serialize_set1(2), deserialize_set1, decode);
// obligation: C01.set1_u8x2_generic | harness: c01_set1_u8x2_generic | kind: bounded | bound: 2 keys (all values) | tier: thorough
set_harness!(c01_set1_u8x2_generic, tags::U8, u8, ValueKind::U8Set1, serialize_set1(2), deserialize_set, decode);
// obligation: C07.set1_u8x2_skip | harness: c07_set1_u8x2_skip | kind: bounded | bound: 2 keys (all values) | tier: thorough
set_harness!(c07_set1_u8x2_skip, tags::U8, u8, ValueKind::U8Set1, serialize_set1(2), deserialize_set1, skip);
// obligation: C01.set2_u8x2_typed | harness: c01_set2_u8x2_typed | kind: bounded | bound: 2 keys (all values) | tier: thorough
set_harness!(c01_set2_u8x2_typed, tags::U8, u8, ValueKind::U8Set2, serialize_set2(), deserialize_set2, decode);
// obligation: C01.set2_u8x2_generic | harness: c01_set2_u8x2_generic | kind: bounded | bound: 2 keys (all values) | tier: thorough
set_harness!(c01_set2_u8x2_generic, tags::U8, u8, ValueKind::U8Set2, serialize_set2(), deserialize_set, decode);
// obligation: C07.set2_u8x2_skip | harness: c07_set2_u8x2_skip | kind: bounded | bound: 2 keys (all values) | tier: thorough
set_harness!(c07_set2_u8x2_skip, tags::U8, u8, ValueKind::U8Set2, serialize_set2(), deserialize_set2, skip);
// obligation: C01.set1_i8x2_typed | harness: c01_set1_i8x2_typed | kind: bounded | bound: 2 keys (all values) | tier: thorough
set_harness!(c01_set1_i8x2_typed, tags::I8, i8, ValueKind::I8Set1, serialize_set1(2), deserialize_set1, decode);
// obligation: C01.set1_i8x2_generic | harness: c01_set1_i8x2_generic | kind: bounded | bound: 2 keys (all values) | tier: thorough
set_harness!(c01_set1_i8x2_generic, tags::I8, i8, ValueKind::I8Set1, serialize_set1(2), deserialize_set, decode);
// obligation: C07.set1_i8x2_skip | harness: c07_set1_i8x2_skip | kind: bounded | bound: 2 keys (all values) | tier: thorough
set_harness!(c07_set1_i8x2_skip, tags::I8, i8, ValueKind::I8Set1, serialize_set1(2), deserialize_set1, skip);
// obligation: C01.set2_i8x2_typed | harness: c01_set2_i8x2_typed | kind: bounded | bound: 2 keys (all values) | tier: thorough
set_harness!(c01_set2_i8x2_typed, tags::I8, i8, ValueKind::I8Set2, serialize_set2(), deserialize_set2, decode);
// obligation: C01.set2_i8x2_generic | harness: c01_set2_i8x2_generic | kind: bounded | bound: 2 keys (all values) | tier: thorough
set_harness!(c01_set2_i8x2_generic, tags::I8, i8, ValueKind::I8Set2, serialize_set2(), deserialize_set, decode);
// obligation: C07.set2_i8x2_skip | harness: c07_set2_i8x2_skip | kind: bounded | bound: 2 keys (all values) | tier: thorough
set_harness!(c07_set2_i8x2_skip, tags::I8, i8, ValueKind::I8Set2, serialize_set2(), deserialize_set2, skip);
// obligation: C01.set1_u16x2_typed | harness: c01_set1_u16x2_typed | kind: bounded | bound: 2 keys (all values) | tier: quick
set_harness!(c01_set1_u16x2_typed, tags::U16, u16, ValueKind::U16Set1, serialize_set1(2), deserialize_set1, decode);
// obligation: C01.set1_u16x2_generic | harness: c01_set1_u16x2_generic | kind: bounded | bound: 2 keys (all values) | tier: thorough
set_harness!(c01_set1_u16x2_generic, tags::U16, u16, ValueKind::U16Set1, serialize_set1(2), deserialize_set, decode);
// obligation: C07.set1_u16x2_skip | harness: c07_set1_u16x2_skip | kind: bounded | bound: 2 keys (all values) | tier: thorough
set_harness!(c07_set1_u16x2_skip, tags::U16, u16, ValueKind::U16Set1, serialize_set1(2), deserialize_set1, skip);
// obligation: C01.set2_u16x2_typed | harness: c01_set2_u16x2_typed | kind: bounded | bound: 2 keys (all values) | tier: quick
set_harness!(c01_set2_u16x2_typed, tags::U16, u16, ValueKind::U16Set2, serialize_set2(), deserialize_set2, decode);
// obligation: C01.set2_u16x2_generic | harness: c01_set2_u16x2_generic | kind: bounded | bound: 2 keys (all values) | tier: thorough
set_harness!(c01_set2_u16x2_generic, tags::U16, u16, ValueKind::U16Set2, serialize_set2(), deserialize_set, decode);
// obligation: C07.set2_u16x2_skip | harness: c07_set2_u16x2_skip | kind: bounded | bound: 2 keys (all values) | tier: quick
set_harness!(c07_set2_u16x2_skip, tags::U16, u16, ValueKind::U16Set2, serialize_set2(), deserialize_set2, skip);
// obligation: C01.set1_i16x2_typed | harness: c01_set1_i16x2_typed | kind: bounded | bound: 2 keys (all values) | tier: thorough
set_harness!(c01_set1_i16x2_typed, tags::I16, i16, ValueKind::I16Set1, serialize_set1(2), deserialize_set1, decode);
// obligation: C01.set1_i16x2_generic | harness: c01_set1_i16x2_generic | kind: bounded | bound: 2 keys (all values) | tier: thorough
set_harness!(c01_set1_i16x2_generic, tags::I16, i16, ValueKind::I16Set1, serialize_set1(2), deserialize_set, decode);
// obligation: C07.set1_i16x2_skip | harness: c07_set1_i16x2_skip | kind: bounded | bound: 2 keys (all values) | tier: thorough
set_harness!(c07_set1_i16x2_skip, tags::I16, i16, ValueKind::I16Set1, serialize_set1(2), deserialize_set1, skip);
// obligation: C01.set2_i16x2_typed | harness: c01_set2_i16x2_typed | kind: bounded | bound: 2 keys (all values) | tier: thorough
set_harness!(c01_set2_i16x2_typed, tags::I16, i16, ValueKind::I16Set2, serialize_set2(), deserialize_set2, decode);
// obligation: C01.set2_i16x2_generic | harness: c01_set2_i16x2_generic | kind: bounded | bound: 2 keys (all values) | tier: thorough
set_harness!(c01_set2_i16x2_generic, tags::I16, i16, ValueKind::I16Set2, serialize_set2(), deserialize_set, decode);
// obligation: C07.set2_i16x2_skip | harness: c07_set2_i16x2_skip | kind: bounded | bound: 2 keys (all values) | tier: thorough
set_harness!(c07_set2_i16x2_skip, tags::I16, i16, ValueKind::I16Set2, serialize_set2(), deserialize_set2, skip);
// obligation: C01.set1_u32x2_typed | harness: c01_set1_u32x2_typed | kind: bounded | bound: 2 keys (all values) | tier: thorough
set_harness!(c01_set1_u32x2_typed, tags::U32, u32, ValueKind::U32Set1, serialize_set1(2), deserialize_set1, decode);
// obligation: C01.set1_u32x2_generic | harness: c01_set1_u32x2_generic | kind: bounded | bound: 2 keys (all values) | tier: thorough
set_harness!(c01_set1_u32x2_generic, tags::U32, u32, ValueKind::U32Set1, serialize_set1(2), deserialize_set, decode);
// obligation: C07.set1_u32x2_skip | harness: c07_set1_u32x2_skip | kind: bounded | bound: 2 keys (all values) | tier: quick
set_harness!(c07_set1_u32x2_skip, tags::U32, u32, ValueKind::U32Set1, serialize_set1(2), deserialize_set1, skip);
// obligation: C01.set2_u32x2_typed | harness: c01_set2_u32x2_typed | kind: bounded | bound: 2 keys (all values) | tier: thorough
set_harness!(c01_set2_u32x2_typed, tags::U32, u32, ValueKind::U32Set2, serialize_set2(), deserialize_set2, decode);
// obligation: C01.set2_u32x2_generic | harness: c01_set2_u32x2_generic | kind: bounded | bound: 2 keys (all values) | tier: thorough
set_harness!(c01_set2_u32x2_generic, tags::U32, u32, ValueKind::U32Set2, serialize_set2(), deserialize_set, decode);
// obligation: C07.set2_u32x2_skip | harness: c07_set2_u32x2_skip | kind: bounded | bound: 2 keys (all values) | tier: thorough
set_harness!(c07_set2_u32x2_skip, tags::U32, u32, ValueKind::U32Set2, serialize_set2(), deserialize_set2, skip);
// obligation: C01.set1_i32x2_typed | harness: c01_set1_i32x2_typed | kind: bounded | bound: 2 keys (all values) | tier: thorough
set_harness!(c01_set1_i32x2_typed, tags::I32, i32, ValueKind::I32Set1, serialize_set1(2), deserialize_set1, decode);
// obligation: C01.set1_i32x2_generic | harness: c01_set1_i32x2_generic | kind: bounded | bound: 2 keys (all values) | tier: thorough
set_harness!(c01_set1_i32x2_generic, tags::I32, i32, ValueKind::I32Set1, serialize_set1(2), deserialize_set, decode);
// obligation: C07.set1_i32x2_skip | harness: c07_set1_i32x2_skip | kind: bounded | bound: 2 keys (all values) | tier: thorough
set_harness!(c07_set1_i32x2_skip, tags::I32, i32, ValueKind::I32Set1, serialize_set1(2), deserialize_set1, skip);
// obligation: C01.set2_i32x2_typed | harness: c01_set2_i32x2_typed | kind: bounded | bound: 2 keys (all values) | tier: thorough
set_harness!(c01_set2_i32x2_typed, tags::I32, i32, ValueKind::I32Set2, serialize_set2(), deserialize_set2, decode);
// obligation: C01.set2_i32x2_generic | harness: c01_set2_i32x2_generic | kind: bounded | bound: 2 keys (all values) | tier: thorough
set_harness!(c01_set2_i32x2_generic, tags::I32, i32, ValueKind::I32Set2, serialize_set2(), deserialize_set, decode);
// obligation: C07.set2_i32x2_skip | harness: c07_set2_i32x2_skip | kind: bounded | bound: 2 keys (all values) | tier: thorough
set_harness!(c07_set2_i32x2_skip, tags::I32, i32, ValueKind::I32Set2, serialize_set2(), deserialize_set2, skip);
// obligation: C01.set1_u64x2_typed | harness: c01_set1_u64x2_typed | kind: bounded | bound: 2 keys (all values) | tier: thorough
set_harness!(c01_set1_u64x2_typed, tags::U64, u64, ValueKind::U64Set1, serialize_set1(2), deserialize_set1, decode);
// obligation: C01.set1_u64x2_generic | harness: c01_set1_u64x2_generic | kind: bounded | bound: 2 keys (all values) | tier: thorough
set_harness!(c01_set1_u64x2_generic, tags::U64, u64, ValueKind::U64Set1, serialize_set1(2), deserialize_set, decode);
// obligation: C07.set1_u64x2_skip | harness: c07_set1_u64x2_skip | kind: bounded | bound: 2 keys (all values) | tier: thorough
set_harness!(c07_set1_u64x2_skip, tags::U64, u64, ValueKind::U64Set1, serialize_set1(2), deserialize_set1, skip);
// obligation: C01.set2_u64x2_typed | harness: c01_set2_u64x2_typed | kind: bounded | bound: 2 keys (all values) | tier: thorough
set_harness!(c01_set2_u64x2_typed, tags::U64, u64, ValueKind::U64Set2, serialize_set2(), deserialize_set2, decode);
// obligation: C01.set2_u64x2_generic | harness: c01_set2_u64x2_generic | kind: bounded | bound: 2 keys (all values) | tier: thorough
set_harness!(c01_set2_u64x2_generic, tags::U64, u64, ValueKind::U64Set2, serialize_set2(), deserialize_set, decode);
// obligation: C07.set2_u64x2_skip | harness: c07_set2_u64x2_skip | kind: bounded | bound: 2 keys (all values) | tier: thorough
set_harness!(c07_set2_u64x2_skip, tags::U64, u64, ValueKind::U64Set2, serialize_set2(), deserialize_set2, skip);
// obligation: C01.set1_i64x2_typed | harness: c01_set1_i64x2_typed | kind: bounded | bound: 2 keys (all values) | tier: thorough
set_harness!(c01_set1_i64x2_typed, tags::I64, i64, ValueKind::I64Set1, serialize_set1(2), deserialize_set1, decode);
// obligation: C01.set1_i64x2_generic | harness: c01_set1_i64x2_generic | kind: bounded | bound: 2 keys (all values) | tier: thorough
set_harness!(c01_set1_i64x2_generic, tags::I64, i64, ValueKind::I64Set1, serialize_set1(2), deserialize_set, decode);
// obligation: C07.set1_i64x2_skip | harness: c07_set1_i64x2_skip | kind: bounded | bound: 2 keys (all values) | tier: thorough
set_harness!(c07_set1_i64x2_skip, tags::I64, i64, ValueKind::I64Set1, serialize_set1(2), deserialize_set1, skip);
// obligation: C01.set2_i64x2_typed | harness: c01_set2_i64x2_typed | kind: bounded | bound: 2 keys (all values) | tier: thorough
set_harness!(c01_set2_i64x2_typed, tags::I64, i64, ValueKind::I64Set2, serialize_set2(), deserialize_set2, decode);
// obligation: C01.set2_i64x2_generic | harness: c01_set2_i64x2_generic | kind: bounded | bound: 2 keys (all values) | tier: thorough
set_harness!(c01_set2_i64x2_generic, tags::I64, i64, ValueKind::I64Set2, serialize_set2(), deserialize_set, decode);
// obligation: C07.set2_i64x2_skip | harness: c07_set2_i64x2_skip | kind: bounded | bound: 2 keys (all values) | tier: thorough
set_harness!(c07_set2_i64x2_skip, tags::I64, i64, ValueKind::I64Set2, serialize_set2(), deserialize_set2, skip);
// obligation: C01.map1_u8x2_typed | harness: c01_map1_u8x2_typed | kind: bounded | bound: 2 entries (keys and values all values) | tier: thorough
map_harness!(c01_map1_u8x2_typed, tags::U8, u8, ValueKind::U8Map1, serialize_map1(2), deserialize_map1, decode);
// obligation: C01.map1_u8x2_generic | harness: c01_map1_u8x2_generic | kind: bounded | bound: 2 entries (keys and values all values) | tier: thorough
map_harness!(c01_map1_u8x2_generic, tags::U8, u8, ValueKind::U8Map1, serialize_map1(2), deserialize_map, decode);
// obligation: C01.map2_u8x2_typed | harness: c01_map2_u8x2_typed | kind: bounded | bound: 2 entries (keys and values all values) | tier: thorough
map_harness!(c01_map2_u8x2_typed, tags::U8, u8, ValueKind::U8Map2, serialize_map2(), deserialize_map2, decode);
// obligation: C01.map2_u8x2_generic | harness: c01_map2_u8x2_generic | kind: bounded | bound: 2 entries (keys and values all values) | tier: thorough
map_harness!(c01_map2_u8x2_generic, tags::U8, u8, ValueKind::U8Map2, serialize_map2(), deserialize_map, decode);
// obligation: C01.map1_i8x2_typed | harness: c01_map1_i8x2_typed | kind: bounded | bound: 2 entries (keys and values all values) | tier: thorough
map_harness!(c01_map1_i8x2_typed, tags::I8, i8, ValueKind::I8Map1, serialize_map1(2), deserialize_map1, decode);
// obligation: C01.map1_i8x2_generic | harness: c01_map1_i8x2_generic | kind: bounded | bound: 2 entries (keys and values all values) | tier: thorough
map_harness!(c01_map1_i8x2_generic, tags::I8, i8, ValueKind::I8Map1, serialize_map1(2), deserialize_map, decode);
// obligation: C01.map2_i8x2_typed | harness: c01_map2_i8x2_typed | kind: bounded | bound: 2 entries (keys and values all values) | tier: thorough
map_harness!(c01_map2_i8x2_typed, tags::I8, i8, ValueKind::I8Map2, serialize_map2(), deserialize_map2, decode);
// obligation: C01.map2_i8x2_generic | harness: c01_map2_i8x2_generic | kind: bounded | bound: 2 entries (keys and values all values) | tier: thorough
map_harness!(c01_map2_i8x2_generic, tags::I8, i8, ValueKind::I8Map2, serialize_map2(), deserialize_map, decode);
// obligation: C01.map1_u16x2_typed | harness: c01_map1_u16x2_typed | kind: bounded | bound: 2 entries (keys and values all values) | tier: thorough
map_harness!(c01_map1_u16x2_typed, tags::U16, u16, ValueKind::U16Map1, serialize_map1(2), deserialize_map1, decode);
// obligation: C01.map1_u16x2_generic | harness: c01_map1_u16x2_generic | kind: bounded | bound: 2 entries (keys and values all values) | tier: thorough
map_harness!(c01_map1_u16x2_generic, tags::U16, u16, ValueKind::U16Map1, serialize_map1(2), deserialize_map, decode);
// obligation: C01.map2_u16x2_typed | harness: c01_map2_u16x2_typed | kind: bounded | bound: 2 entries (keys and values all values) | tier: thorough
map_harness!(c01_map2_u16x2_typed, tags::U16, u16, ValueKind::U16Map2, serialize_map2(), deserialize_map2, decode);
// obligation: C01.map2_u16x2_generic | harness: c01_map2_u16x2_generic | kind: bounded | bound: 2 entries (keys and values all values) | tier: thorough
map_harness!(c01_map2_u16x2_generic, tags::U16, u16, ValueKind::U16Map2, serialize_map2(), deserialize_map, decode);
// obligation: C01.map1_i16x2_typed | harness: c01_map1_i16x2_typed | kind: bounded | bound: 2 entries (keys and values all values) | tier: thorough
map_harness!(c01_map1_i16x2_typed, tags::I16, i16, ValueKind::I16Map1, serialize_map1(2), deserialize_map1, decode);
// obligation: C01.map2_i16x2_typed | harness: c01_map2_i16x2_typed | kind: bounded | bound: 2 entries (keys and values all values) | tier: thorough
map_harness!(c01_map2_i16x2_typed, tags::I16, i16, ValueKind::I16Map2, serialize_map2(), deserialize_map2, decode);
// obligation: C01.map1_u32x2_typed | harness: c01_map1_u32x2_typed | kind: bounded | bound: 2 entries (keys and values all values) | tier: thorough
map_harness!(c01_map1_u32x2_typed, tags::U32, u32, ValueKind::U32Map1, serialize_map1(2), deserialize_map1, decode);
// obligation: C01.map2_u32x2_typed | harness: c01_map2_u32x2_typed | kind: bounded | bound: 2 entries (keys and values all values) | tier: thorough
map_harness!(c01_map2_u32x2_typed, tags::U32, u32, ValueKind::U32Map2, serialize_map2(), deserialize_map2, decode);
// obligation: C01.map1_i32x2_typed | harness: c01_map1_i32x2_typed | kind: bounded | bound: 2 entries (keys and values all values) | tier: thorough
map_harness!(c01_map1_i32x2_typed, tags::I32, i32, ValueKind::I32Map1, serialize_map1(2), deserialize_map1, decode);
// obligation: C01.map2_i32x2_typed | harness: c01_map2_i32x2_typed | kind: bounded | bound: 2 entries (keys and values all values) | tier: thorough
map_harness!(c01_map2_i32x2_typed, tags::I32, i32, ValueKind::I32Map2, serialize_map2(), deserialize_map2, decode);
// obligation: C01.map1_u64x2_typed | harness: c01_map1_u64x2_typed | kind: bounded | bound: 2 entries (keys and values all values) | tier: thorough
map_harness!(c01_map1_u64x2_typed, tags::U64, u64, ValueKind::U64Map1, serialize_map1(2), deserialize_map1, decode);
// obligation: C01.map2_u64x2_typed | harness: c01_map2_u64x2_typed | kind: bounded | bound: 2 entries (keys and values all values) | tier: thorough
map_harness!(c01_map2_u64x2_typed, tags::U64, u64, ValueKind::U64Map2, serialize_map2(), deserialize_map2, decode);
// obligation: C01.map1_i64x2_typed | harness: c01_map1_i64x2_typed | kind: bounded | bound: 2 entries (keys and values all values) | tier: thorough
map_harness!(c01_map1_i64x2_typed, tags::I64, i64, ValueKind::I64Map1, serialize_map1(2), deserialize_map1, decode);
// obligation: C01.map2_i64x2_typed | harness: c01_map2_i64x2_typed | kind: bounded | bound: 2 entries (keys and values all values) | tier: thorough
map_harness!(c01_map2_i64x2_typed, tags::I64, i64, ValueKind::I64Map2, serialize_map2(), deserialize_map2, decode);

// ---- Struct, Enum, Option ----------------------------------------------------------------------------------------
// Struct decoding is NOT covered: every struct deserializer constructs an UnknownFields (a HashMap), and
// std's RandomState::new() reaches getrandom(2), which Kani cannot execute ("foreign function syscall not supported").

// obligation: C01.enum_roundtrip | harness: c01_enum_roundtrip | kind: complete | bound: none (all variant ids, all u16 payloads) | tier: quick
#[kani::proof]
#[kani::stub(bytes::BytesMut::reserve_inner, no_reserve_inner)]
#[kani::unwind(10)]
fn c01_enum_roundtrip() {
    let id: u32 = kani::any();
    let x: u16 = kani::any();
    let mut buf = BytesMut::with_capacity(96);
    ok!(ok!(Serializer::new(&mut buf, 0)).serialize_enum::<tags::U16>(id, x));
    assert!(buf[0] == ValueKind::Enum as u8);
    let mut s: &[u8] = &buf[..];
    let d = ok!(ok!(Deserializer::new(&mut s, 0)).deserialize_enum());
    assert!(d.id() == id);
    assert!(ok!(d.deserialize::<tags::U16, u16>()) == x);
    assert!(s.is_empty());
}

// obligation: C01.option_roundtrip | harness: c01_option_roundtrip | kind: complete | bound: none (None and Some(all u32)) | tier: quick
#[kani::proof]
#[kani::stub(bytes::BytesMut::reserve_inner, no_reserve_inner)]
#[kani::unwind(10)]
fn c01_option_roundtrip() {
    let v: Option<u32> = if kani::any() { Some(kani::any()) } else { None };
    let mut buf = BytesMut::with_capacity(96);
    ok!(ok!(Serializer::new(&mut buf, 0)).serialize::<tags::Option<tags::U32>>(v));
    let mut s: &[u8] = &buf[..];
    let r = ok!(ok!(Deserializer::new(&mut s, 0)).deserialize_option::<tags::U32, u32>());
    assert!(r == v);
    assert!(s.is_empty());
}

// ---- Bytes ---------------------------------------------------------------------------------------------------------
// obligation: C01.bytes1_len3 | harness: c01_bytes1_len3 | kind: bounded | bound: 3 bytes (contents symbolic) | tier: thorough
#[kani::proof]
#[kani::stub(bytes::BytesMut::reserve_inner, no_reserve_inner)]
#[kani::unwind(8)]
fn c01_bytes1_len3() {
    let data: [u8; 3] = kani::any();
    let mut buf = BytesMut::with_capacity(96);
    ok!(ok!(Serializer::new(&mut buf, 0)).serialize_byte_slice1(&data));
    assert!(buf[0] == ValueKind::Bytes1 as u8);
    assert!(buf.len() == 5);
    let mut s: &[u8] = &buf[..];
    {
        let d = ok!(ok!(Deserializer::new(&mut s, 0)).deserialize_bytes());
        let sl = ok!(d.as_slice());
        assert!(sl.len() == 3 && sl[0] == data[0] && sl[1] == data[1] && sl[2] == data[2]);
        ok!(d.skip());
    }
    assert!(s.is_empty());
}

// obligation: C01.bytes2_len3 | harness: c01_bytes2_len3 | kind: bounded | bound: 3 bytes (contents symbolic) | tier: thorough
#[kani::proof]
#[kani::stub(bytes::BytesMut::reserve_inner, no_reserve_inner)]
#[kani::unwind(8)]
fn c01_bytes2_len3() {
    let data: [u8; 3] = kani::any();
    let mut buf = BytesMut::with_capacity(96);
    ok!(ok!(Serializer::new(&mut buf, 0)).serialize_byte_slice2(&data));
    assert!(buf[0] == ValueKind::Bytes2 as u8);
    let mut s: &[u8] = &buf[..];
    {
        let d = ok!(ok!(Deserializer::new(&mut s, 0)).deserialize_bytes());
        let sl = ok!(d.as_slice());
        assert!(sl.len() == 3 && sl[0] == data[0] && sl[1] == data[1] && sl[2] == data[2]);
        ok!(d.skip());
    }
    assert!(s.is_empty());
}

// ---- Nesting: every container kind used as a nesting step costs exactly one level, on both sides ---------------------
// Specification (property C01): a value nested at most 32 levels serializes/deserializes, a deeper one is rejected with
// TooDeeplyNested. Serializer::new / Deserializer::new at depth d put the value itself at level d+1; a container step
// puts its element at level d+2. So for every d in 0..=31: step(leaf) succeeds iff d + 2 <= 32, else TooDeeplyNested.
// With the depth_limit_symmetric obligation this gives the limit by induction over the nesting chain, for chains of any
// shape, instead of sampling a few chains.
use crate::{DeserializeError, SerializeError};

macro_rules! depth_step_ser {
    ($name:ident, |$s:ident, $leaf:ident| $body:block) => {
        #[kani::proof]
        #[kani::stub(bytes::BytesMut::reserve_inner, no_reserve_inner)]
        #[kani::unwind(8)]
        fn $name() {
            let d: u8 = kani::any();
            kani::assume(d <= 31);
            let $leaf: u8 = kani::any();
            let mut buf = BytesMut::with_capacity(96);
            let $s = ok!(Serializer::new(&mut buf, d));
            let r: Result<(), SerializeError> = $body;
            match r {
                Ok(()) => {
                    assert!(d <= 30);
                }
                Err(e) => {
                    assert!(d == 31);
                    assert!(matches!(e, SerializeError::TooDeeplyNested));
                }
            }
            kani::cover!(d == 30);
            kani::cover!(d == 31);
        }
    };
}

// obligation: C01.depth_step_ser_some | harness: c01_depth_step_ser_some | kind: complete | bound: none (all outer depths 0..=31) | tier: quick
depth_step_ser!(c01_depth_step_ser_some, |s, leaf| { s.serialize_some::<tags::U8>(leaf) });
// obligation: C01.depth_step_ser_enum | harness: c01_depth_step_ser_enum | kind: complete | bound: none (all outer depths 0..=31) | tier: quick
depth_step_ser!(c01_depth_step_ser_enum, |s, leaf| { s.serialize_enum::<tags::U8>(7u32, leaf) });
// obligation: C01.depth_step_ser_vec1 | harness: c01_depth_step_ser_vec1 | kind: complete | bound: none (all outer depths 0..=31) | tier: quick
depth_step_ser!(c01_depth_step_ser_vec1, |s, leaf| {
    match s.serialize_vec1(1) {
        Ok(mut v) => match v.serialize::<tags::U8>(leaf) {
            Ok(_) => v.finish(),
            Err(e) => Err(e),
        },
        Err(e) => Err(e),
    }
});
// obligation: C01.depth_step_ser_vec2 | harness: c01_depth_step_ser_vec2 | kind: complete | bound: none (all outer depths 0..=31) | tier: quick
depth_step_ser!(c01_depth_step_ser_vec2, |s, leaf| {
    match s.serialize_vec2() {
        Ok(mut v) => match v.serialize::<tags::U8>(leaf) {
            Ok(_) => v.finish(),
            Err(e) => Err(e),
        },
        Err(e) => Err(e),
    }
});
// obligation: C01.depth_step_ser_map1 | harness: c01_depth_step_ser_map1 | kind: complete | bound: none (all outer depths 0..=31) | tier: quick
depth_step_ser!(c01_depth_step_ser_map1, |s, leaf| {
    match s.serialize_map1::<tags::U8>(1) {
        Ok(mut v) => match v.serialize::<tags::U8>(&3u8, leaf) {
            Ok(_) => v.finish(),
            Err(e) => Err(e),
        },
        Err(e) => Err(e),
    }
});
// obligation: C01.depth_step_ser_map2 | harness: c01_depth_step_ser_map2 | kind: complete | bound: none (all outer depths 0..=31) | tier: quick
depth_step_ser!(c01_depth_step_ser_map2, |s, leaf| {
    match s.serialize_map2::<tags::U8>() {
        Ok(mut v) => match v.serialize::<tags::U8>(&3u8, leaf) {
            Ok(_) => v.finish(),
            Err(e) => Err(e),
        },
        Err(e) => Err(e),
    }
});
// obligation: C01.depth_step_ser_struct1 | harness: c01_depth_step_ser_struct1 | kind: complete | bound: none (all outer depths 0..=31) | tier: quick
depth_step_ser!(c01_depth_step_ser_struct1, |s, leaf| {
    match s.serialize_struct1(1) {
        Ok(mut v) => match v.serialize::<tags::U8>(5u32, leaf) {
            Ok(_) => v.finish(),
            Err(e) => Err(e),
        },
        Err(e) => Err(e),
    }
});
// obligation: C01.depth_step_ser_struct2 | harness: c01_depth_step_ser_struct2 | kind: complete | bound: none (all outer depths 0..=31) | tier: quick
depth_step_ser!(c01_depth_step_ser_struct2, |s, leaf| {
    match s.serialize_struct2() {
        Ok(mut v) => match v.serialize::<tags::U8>(5u32, leaf) {
            Ok(_) => v.finish(),
            Err(e) => Err(e),
        },
        Err(e) => Err(e),
    }
});

// Deserializer side: the concrete encoding of step(U8 leaf) fed to a deserializer at outer depth d.
macro_rules! depth_step_de {
    ($name:ident, [$($byte:expr),*], |$dz:ident| $body:block) => {
        #[kani::proof]
        #[kani::unwind(8)]
        fn $name() {
            let d: u8 = kani::any();
            kani::assume(d <= 31);
            let data = [$($byte),*];
            let mut s: &[u8] = &data;
            let $dz = ok!(Deserializer::new(&mut s, d));
            let r: Result<u8, DeserializeError> = $body;
            match r {
                Ok(x) => {
                    assert!(d <= 30);
                    assert!(x == 9);
                }
                Err(e) => {
                    assert!(d == 31);
                    assert!(matches!(e, DeserializeError::TooDeeplyNested));
                }
            }
            kani::cover!(d == 30);
            kani::cover!(d == 31);
        }
    };
}

const K_U8: u8 = ValueKind::U8 as u8;

// obligation: C01.depth_step_de_some | harness: c01_depth_step_de_some | kind: complete | bound: none (all outer depths 0..=31) | tier: quick
depth_step_de!(c01_depth_step_de_some, [ValueKind::Some as u8, K_U8, 9], |dz| { dz.deserialize_some::<tags::U8, u8>() });
// obligation: C01.depth_step_de_option | harness: c01_depth_step_de_option | kind: complete | bound: none (all outer depths 0..=31) | tier: quick
depth_step_de!(c01_depth_step_de_option, [ValueKind::Some as u8, K_U8, 9], |dz| {
    match dz.deserialize_option::<tags::U8, u8>() {
        Ok(Some(x)) => Ok(x),
        Ok(None) => Err(DeserializeError::InvalidSerialization),
        Err(e) => Err(e),
    }
});
// obligation: C01.depth_step_de_enum | harness: c01_depth_step_de_enum | kind: complete | bound: none (all outer depths 0..=31) | tier: quick
depth_step_de!(c01_depth_step_de_enum, [ValueKind::Enum as u8, 7, K_U8, 9], |dz| {
    match dz.deserialize_enum() {
        Ok(e) => e.deserialize::<tags::U8, u8>(),
        Err(e) => Err(e),
    }
});
// obligation: C01.depth_step_de_vec1 | harness: c01_depth_step_de_vec1 | kind: complete | bound: none (all outer depths 0..=31) | tier: quick
depth_step_de!(c01_depth_step_de_vec1, [ValueKind::Vec1 as u8, 1, K_U8, 9], |dz| {
    match dz.deserialize_vec1() {
        Ok(mut v) => match v.deserialize::<tags::U8, u8>() {
            Ok(Some(x)) => Ok(x),
            Ok(None) => Err(DeserializeError::InvalidSerialization),
            Err(e) => Err(e),
        },
        Err(e) => Err(e),
    }
});
// obligation: C01.depth_step_de_vec2 | harness: c01_depth_step_de_vec2 | kind: complete | bound: none (all outer depths 0..=31) | tier: quick
depth_step_de!(c01_depth_step_de_vec2, [ValueKind::Vec2 as u8, ValueKind::Some as u8, K_U8, 9, ValueKind::None as u8], |dz| {
    match dz.deserialize_vec2() {
        Ok(mut v) => match v.deserialize::<tags::U8, u8>() {
            Ok(Some(x)) => Ok(x),
            Ok(None) => Err(DeserializeError::InvalidSerialization),
            Err(e) => Err(e),
        },
        Err(e) => Err(e),
    }
});
// obligation: C01.depth_step_de_map1 | harness: c01_depth_step_de_map1 | kind: complete | bound: none (all outer depths 0..=31) | tier: quick
depth_step_de!(c01_depth_step_de_map1, [ValueKind::U8Map1 as u8, 1, 3, K_U8, 9], |dz| {
    match dz.deserialize_map1::<tags::U8>() {
        Ok(mut v) => match v.deserialize_element::<u8, tags::U8, u8>() {
            Ok(Some((_, x))) => Ok(x),
            Ok(None) => Err(DeserializeError::InvalidSerialization),
            Err(e) => Err(e),
        },
        Err(e) => Err(e),
    }
});
// obligation: C01.depth_step_de_map2 | harness: c01_depth_step_de_map2 | kind: complete | bound: none (all outer depths 0..=31) | tier: quick
depth_step_de!(c01_depth_step_de_map2, [ValueKind::U8Map2 as u8, ValueKind::Some as u8, 3, K_U8, 9, ValueKind::None as u8], |dz| {
    match dz.deserialize_map2::<tags::U8>() {
        Ok(mut v) => match v.deserialize_element::<u8, tags::U8, u8>() {
            Ok(Some((_, x))) => Ok(x),
            Ok(None) => Err(DeserializeError::InvalidSerialization),
            Err(e) => Err(e),
        },
        Err(e) => Err(e),
    }
});
