// Kani harnesses for core/src/convert_value.rs (child module of `convert_value`): private Epoch, Convert visible.
use super::{convert, Convert, Epoch, ValueConversionError};
use crate::deserializer::Deserializer;
use crate::serializer::Serializer;
use crate::{ProtocolVersion, SerializedValueSlice, ValueKind};
use bytes::BytesMut;
use std::borrow::Cow;

// Sound stub: see buf_ext_harness.rs (reachability of the real reserve_inner is a proof obligation).
#[allow(dead_code)]
fn no_reserve_inner(_this: &mut BytesMut, _additional: usize, _allocate: bool) -> bool {
    assert!(false);
    true
}

// Sound stub for the identity-rule harnesses: under their assumption (not current->legacy) the recursive walker must
// be unreachable; the stub turns that into a proof obligation instead of exploring the 66-way recursion.
#[allow(dead_code, single_use_lifetimes)]
fn no_walker<'a, 'b>(_c: Convert<'a, 'b>) -> Result<(), ValueConversionError>
where
    'b: 'a,
    'a: 'a,
{
    assert!(false);
    Ok(())
}

fn any_version() -> ProtocolVersion {
    ProtocolVersion::new(kani::any(), kani::any())
}

// specification of the epoch of a protocol version, from the property statement:
//   1.14 ..= 1.19 -> legacy epoch, 1.20 -> current epoch, everything else is not a supported version
fn spec_epoch(major: u32, minor: u32) -> Option<u8> {
    if major == 1 && minor >= 14 && minor <= 19 {
        Some(1)
    } else if major == 1 && minor == 20 {
        Some(2)
    } else {
        None
    }
}

// obligation: C12.epoch_mapping | harness: c12_epoch_mapping | kind: complete | bound: none (all u32 x u32 versions, loop-free) | tier: quick
#[kani::proof]
fn c12_epoch_mapping() {
    let (major, minor): (u32, u32) = (kani::any(), kani::any());
    let r = Epoch::try_from(ProtocolVersion::new(major, minor));
    match spec_epoch(major, minor) {
        Some(1) => {
            assert!(matches!(r, Ok(Epoch::V1)));
        }
        Some(_) => {
            assert!(matches!(r, Ok(Epoch::V2)));
        }
        None => {
            assert!(matches!(r, Err(ValueConversionError::InvalidVersion)));
        }
    }
    assert!(Epoch::V1 < Epoch::V2);
}

// obligation: C13.epoch_mapping | harness: c13_epoch_mapping | kind: complete | bound: none (all u32 x u32 versions, loop-free) | tier: quick
#[kani::proof]
fn c13_epoch_mapping() {
    c12_epoch_mapping();
}

// convert(value, from, to): InvalidVersion exactly when one of the versions is unsupported; otherwise the input is
// returned unchanged (borrowed, pointer-equal) whenever the target epoch is the same or newer than the source epoch.
// The remaining case (current -> legacy) is excluded here and covered by the C13.convert_* obligations, because the
// top-level function writes through BytesMut::zeroed(9) and has to grow it (re-allocation path, see DESIGN).
fn check_convert_identity_rule() {
    let data = [ValueKind::None as u8];
    let value = SerializedValueSlice::new(&data);
    let from: Option<ProtocolVersion> = if kani::any() { Some(any_version()) } else { None };
    let to = any_version();
    let ef = match from {
        Some(v) => spec_epoch(v.major(), v.minor()),
        None => Some(2),
    };
    let et = spec_epoch(to.major(), to.minor());
    kani::assume(!(ef == Some(2) && et == Some(1)));
    let r = convert(value, from, to);
    match (ef, et) {
        (Some(f), Some(t)) => {
            assert!(t >= f);
            match r {
                Ok(Cow::Borrowed(b)) => {
                    let p: &[u8] = b.as_ref();
                    assert!(p.as_ptr() == data.as_ptr() && p.len() == 1);
                }
                _ => {
                    assert!(false);
                }
            }
        }
        _ => {
            assert!(matches!(r, Err(ValueConversionError::InvalidVersion)));
        }
    }
    kani::cover!(ef == Some(1) && et == Some(2));
    kani::cover!(ef.is_none());
}

// obligation: C12.convert_identity_rule | harness: c12_convert_identity_rule | kind: complete | bound: none (all from/to versions except current->legacy) | tier: quick
#[kani::proof]
#[kani::unwind(4)]
#[kani::stub(Convert::convert, no_walker)]
fn c12_convert_identity_rule() {
    check_convert_identity_rule();
}

// obligation: C13.convert_identity_rule | harness: c13_convert_identity_rule | kind: complete | bound: none (all from/to versions except current->legacy) | tier: quick
#[kani::proof]
#[kani::unwind(4)]
#[kani::stub(Convert::convert, no_walker)]
fn c13_convert_identity_rule() {
    check_convert_identity_rule();
}

// obligation: C13.convert_depth_limit | harness: c13_convert_depth_limit | kind: complete | bound: none (all depths 0..=32) | tier: quick
#[kani::proof]
#[kani::unwind(4)]
#[kani::stub(bytes::BytesMut::reserve_inner, no_reserve_inner)]
fn c13_convert_depth_limit() {
    let d: u8 = kani::any();
    kani::assume(d <= crate::MAX_VALUE_DEPTH);
    let data = [0u8; 1];
    let mut src: &[u8] = &data;
    let mut dst = BytesMut::with_capacity(16);
    let r = Convert::new(&mut src, &mut dst, Epoch::V1, d);
    match r {
        Ok(_) => {
            assert!(d < 32);
        }
        Err(e) => {
            assert!(d == 32);
            assert!(matches!(
                e,
                ValueConversionError::Deserialize(crate::DeserializeError::TooDeeplyNested)
            ));
        }
    }
}

// Scalar arms of the converter: for ALL bytes following the kind byte, conversion succeeds exactly when the typed
// decoder succeeds, consumes exactly what it consumes, and the output is the canonical encoding of the decoded value
// (kind byte preserved, bool normalised to 0/1, varints re-encoded minimally).
macro_rules! convert_scalar {
    ($name:ident, $kind:expr, $cap:expr, $de:ident, $ser:ident, $unw:expr) => {
        #[kani::proof]
        #[kani::unwind($unw)]
        #[kani::stub(bytes::BytesMut::reserve_inner, no_reserve_inner)]
        fn $name() {
            let mut data: [u8; $cap] = kani::any();
            data[0] = $kind as u8;
            let mut s1: &[u8] = &data;
            let mut s2: &[u8] = &data;
            let mut canon = BytesMut::with_capacity(96);
            let ok1 = match Deserializer::new(&mut s1, 0) {
                Ok(d) => match d.$de() {
                    Ok(v) => match Serializer::new(&mut canon, 0) {
                        Ok(s) => {
                            assert!(s.$ser(v).is_ok());
                            true
                        }
                        Err(_) => {
                            assert!(false);
                            false
                        }
                    },
                    Err(_) => false,
                },
                Err(_) => false,
            };
            let mut dst = BytesMut::with_capacity(96);
            let ok2 = match Convert::new(&mut s2, &mut dst, Epoch::V1, 0) {
                Ok(c) => c.convert().is_ok(),
                Err(_) => {
                    assert!(false);
                    false
                }
            };
            assert!(ok1 == ok2);
            if ok1 {
                assert!(s1.len() == s2.len());
                assert!(dst.len() == canon.len());
                assert!(dst[0] == $kind as u8);
                let mut i = 0;
                while i < canon.len() {
                    assert!(dst[i] == canon[i]);
                    i += 1;
                }
            }
            kani::cover!(ok1);
        }
    };
}

// obligation: C13.convert_scalar_bool | harness: c13_convert_scalar_bool | kind: complete | bound: none (all payload bytes) | tier: quick
convert_scalar!(c13_convert_scalar_bool, ValueKind::Bool, 3, deserialize_bool, serialize_bool, 6);
// obligation: C13.convert_scalar_u8 | harness: c13_convert_scalar_u8 | kind: complete | bound: none (all payload bytes) | tier: quick
convert_scalar!(c13_convert_scalar_u8, ValueKind::U8, 3, deserialize_u8, serialize_u8, 6);
// obligation: C13.convert_scalar_i8 | harness: c13_convert_scalar_i8 | kind: complete | bound: none (all payload bytes) | tier: thorough
convert_scalar!(c13_convert_scalar_i8, ValueKind::I8, 3, deserialize_i8, serialize_i8, 6);
// obligation: C13.convert_scalar_u16 | harness: c13_convert_scalar_u16 | kind: complete | bound: none (all payload bytes, incl. non-minimal varints) | tier: quick
convert_scalar!(c13_convert_scalar_u16, ValueKind::U16, 5, deserialize_u16, serialize_u16, 8);
// obligation: C13.convert_scalar_i16 | harness: c13_convert_scalar_i16 | kind: complete | bound: none (all payload bytes, incl. non-minimal varints) | tier: thorough
convert_scalar!(c13_convert_scalar_i16, ValueKind::I16, 5, deserialize_i16, serialize_i16, 8);
// obligation: C13.convert_scalar_u32 | harness: c13_convert_scalar_u32 | kind: complete | bound: none (all payload bytes, incl. non-minimal varints) | tier: thorough
convert_scalar!(c13_convert_scalar_u32, ValueKind::U32, 7, deserialize_u32, serialize_u32, 10);
// obligation: C13.convert_scalar_i32 | harness: c13_convert_scalar_i32 | kind: complete | bound: none (all payload bytes, incl. non-minimal varints) | tier: quick
convert_scalar!(c13_convert_scalar_i32, ValueKind::I32, 7, deserialize_i32, serialize_i32, 10);
// obligation: C13.convert_scalar_u64 | harness: c13_convert_scalar_u64 | kind: complete | bound: none (all payload bytes, incl. non-minimal varints) | tier: quick
convert_scalar!(c13_convert_scalar_u64, ValueKind::U64, 11, deserialize_u64, serialize_u64, 14);
// obligation: C13.convert_scalar_i64 | harness: c13_convert_scalar_i64 | kind: complete | bound: none (all payload bytes, incl. non-minimal varints) | tier: thorough
convert_scalar!(c13_convert_scalar_i64, ValueKind::I64, 11, deserialize_i64, serialize_i64, 14);
// obligation: C13.convert_scalar_f32 | harness: c13_convert_scalar_f32 | kind: complete | bound: none (all bit patterns) | tier: quick
convert_scalar!(c13_convert_scalar_f32, ValueKind::F32, 6, deserialize_f32, serialize_f32, 9);
// obligation: C13.convert_scalar_f64 | harness: c13_convert_scalar_f64 | kind: complete | bound: none (all bit patterns) | tier: thorough
convert_scalar!(c13_convert_scalar_f64, ValueKind::F64, 10, deserialize_f64, serialize_f64, 13);
// obligation: C13.convert_scalar_uuid | harness: c13_convert_scalar_uuid | kind: complete | bound: none (all 128-bit values) | tier: quick
convert_scalar!(c13_convert_scalar_uuid, ValueKind::Uuid, 18, deserialize_uuid, serialize_uuid, 21);
// (object_id / service_id arms are not covered: the byte-wise comparison needs an unwinding bound of 36 / 68, which also
// unwinds the converter's recursion that deep: no verdict after 680 s, measured)
// obligation: C13.convert_scalar_sender | harness: c13_convert_scalar_sender | kind: complete | bound: none (all 128-bit values) | tier: thorough
convert_scalar!(c13_convert_scalar_sender, ValueKind::Sender, 18, deserialize_sender, serialize_sender, 21);
// obligation: C13.convert_scalar_receiver | harness: c13_convert_scalar_receiver | kind: complete | bound: none (all 128-bit values) | tier: thorough
convert_scalar!(c13_convert_scalar_receiver, ValueKind::Receiver, 18, deserialize_receiver, serialize_receiver, 21);

// truncated scalar payloads are rejected, never read out of bounds
macro_rules! convert_scalar_truncated {
    ($name:ident, $kind:expr, $len:expr) => {
        #[kani::proof]
        #[kani::unwind(12)]
        #[kani::stub(bytes::BytesMut::reserve_inner, no_reserve_inner)]
        fn $name() {
            let mut data: [u8; $len] = kani::any();
            data[0] = $kind as u8;
            let mut s1: &[u8] = &data;
            let mut s2: &[u8] = &data;
            let ok1 = match Deserializer::new(&mut s1, 0) {
                Ok(d) => d.skip().is_ok(),
                Err(_) => false,
            };
            let mut dst = BytesMut::with_capacity(96);
            let ok2 = match Convert::new(&mut s2, &mut dst, Epoch::V1, 0) {
                Ok(c) => c.convert().is_ok(),
                Err(_) => false,
            };
            // conversion fails only for ill-formed input: it accepts exactly what skipping accepts
            assert!(ok1 == ok2);
            if ok1 {
                assert!(s1.len() == s2.len());
            }
        }
    };
}

// obligation: C13.convert_truncated_u32_len2 | harness: c13_convert_truncated_u32_len2 | kind: bounded | bound: U32 value, input length 2 | tier: quick
convert_scalar_truncated!(c13_convert_truncated_u32_len2, ValueKind::U32, 2);
// obligation: C13.convert_truncated_u64_len4 | harness: c13_convert_truncated_u64_len4 | kind: bounded | bound: U64 value, input length 4 | tier: thorough
convert_scalar_truncated!(c13_convert_truncated_u64_len4, ValueKind::U64, 4);
// obligation: C13.convert_truncated_uuid_len9 | harness: c13_convert_truncated_uuid_len9 | kind: bounded | bound: Uuid value, input length 9 | tier: thorough
convert_scalar_truncated!(c13_convert_truncated_uuid_len9, ValueKind::Uuid, 9);
