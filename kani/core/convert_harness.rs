// Kani harnesses for core/src/convert_value.rs (child module of `convert_value`): private Epoch, Convert visible.
use super::{convert, Convert, Epoch, ValueConversionError};
use crate::deserializer::Deserializer;
use crate::serializer::Serializer;
use crate::{ProtocolVersion, SerializedValueSlice, ValueKind};
use bytes::BytesMut;
use std::borrow::Cow;

// Sound stub: see buf_ext_harness.rs (reachability of the real reserve_inner is a proof obligation).
#[allow(dead_code)]
fn no_reserve_inner(_this: &mut BytesMut, _additional: usize, _allocate: bool) -> bool {
    assert!(false);
    true
}

// Sound stub for the identity-rule harnesses: under their assumption (not current->legacy) the recursive walker must
// be unreachable; the stub turns that into a proof obligation instead of exploring the 66-way recursion.
#[allow(dead_code, single_use_lifetimes)]
fn no_walker<'a, 'b>(_c: Convert<'a, 'b>) -> Result<(), ValueConversionError>
where
    'b: 'a,
    'a: 'a,
{
    assert!(false);
    Ok(())
}

fn any_version() -> ProtocolVersion {
    ProtocolVersion::new(kani::any(), kani::any())
}

// specification of the epoch of a protocol version, from the property statement:
//   1.14 ..= 1.19 -> legacy epoch, 1.20 -> current epoch, everything else is not a supported version
fn spec_epoch(major: u32, minor: u32) -> Option<u8> {
    if major == 1 && minor >= 14 && minor <= 19 {
        Some(1)
    } else if major == 1 && minor == 20 {
        Some(2)
    } else {
        None
    }
}

// obligation: C12.epoch_mapping | harness: c12_epoch_mapping | kind: complete | bound: none (all u32 x u32 versions, loop-free) | tier: quick
#[kani::proof]
fn c12_epoch_mapping() {
    let (major, minor): (u32, u32) = (kani::any(), kani::any());
    let r = Epoch::try_from(ProtocolVersion::new(major, minor));
    match spec_epoch(major, minor) {
        Some(1) => {
            assert!(matches!(r, Ok(Epoch::V1)));
        }
        Some(_) => {
            assert!(matches!(r, Ok(Epoch::V2)));
        }
        None => {
            assert!(matches!(r, Err(ValueConversionError::InvalidVersion)));
        }
    }
    assert!(Epoch::V1 < Epoch::V2);
}

// obligation: C13.epoch_mapping | harness: c13_epoch_mapping | kind: complete | bound: none (all u32 x u32 versions, loop-free) | tier: quick
#[kani::proof]
fn c13_epoch_mapping() {
    c12_epoch_mapping();
}

// convert(value, from, to): InvalidVersion exactly when one of the versions is unsupported; otherwise the input is
// returned unchanged (borrowed, pointer-equal) whenever the target epoch is the same or newer than the source epoch.
// The remaining case (current -> legacy) is excluded here and covered by the C13.convert_* obligations, because the
// top-level function writes through BytesMut::zeroed(9) and has to grow it (re-allocation path, see DESIGN).
fn check_convert_identity_rule() {
    let data = [ValueKind::None as u8];
    let value = SerializedValueSlice::new(&data);
    let from: Option<ProtocolVersion> = if kani::any() { Some(any_version()) } else { None };
    let to = any_version();
    let ef = match from {
        Some(v) => spec_epoch(v.major(), v.minor()),
        None => Some(2),
    };
    let et = spec_epoch(to.major(), to.minor());
    kani::assume(!(ef == Some(2) && et == Some(1)));
    let r = convert(value, from, to);
    match (ef, et) {
        (Some(f), Some(t)) => {
            assert!(t >= f);
            match r {
                Ok(Cow::Borrowed(b)) => {
                    let p: &[u8] = b.as_ref();
                    assert!(p.as_ptr() == data.as_ptr() && p.len() == 1);
                }
                _ => {
                    assert!(false);
                }
            }
        }
        _ => {
            assert!(matches!(r, Err(ValueConversionError::InvalidVersion)));
        }
    }
    kani::cover!(ef == Some(1) && et == Some(2));
    kani::cover!(ef.is_none());
}

// obligation: C12.convert_identity_rule | harness: c12_convert_identity_rule | kind: complete | bound: none (all from/to versions except current->legacy) | tier: quick
#[kani::proof]
#[kani::unwind(4)]
#[kani::stub(Convert::convert, no_walker)]
fn c12_convert_identity_rule() {
    check_convert_identity_rule();
}

// obligation: C13.convert_identity_rule | harness: c13_convert_identity_rule | kind: complete | bound: none (all from/to versions except current->legacy) | tier: quick
#[kani::proof]
#[kani::unwind(4)]
#[kani::stub(Convert::convert, no_walker)]
fn c13_convert_identity_rule() {
    check_convert_identity_rule();
}

// obligation: C13.convert_depth_limit | harness: c13_convert_depth_limit | kind: complete | bound: none (all depths 0..=32) | tier: quick
#[kani::proof]
#[kani::unwind(4)]
#[kani::stub(bytes::BytesMut::reserve_inner, no_reserve_inner)]
fn c13_convert_depth_limit() {
    let d: u8 = kani::any();
    kani::assume(d <= crate::MAX_VALUE_DEPTH);
    let data = [0u8; 1];
    let mut src: &[u8] = &data;
    let mut dst = BytesMut::with_capacity(16);
    let r = Convert::new(&mut src, &mut dst, Epoch::V1, d);
    match r {
        Ok(_) => {
            assert!(d < 32);
        }
        Err(e) => {
            assert!(d == 32);
            assert!(matches!(
                e,
                ValueConversionError::Deserialize(crate::DeserializeError::TooDeeplyNested)
            ));
        }
    }
}

// Scalar arms of the converter: for ALL bytes following the kind byte, conversion succeeds exactly when the typed
// decoder succeeds, consumes exactly what it consumes, and the output is the canonical encoding of the decoded value
// (kind byte preserved, bool normalised to 0/1, varints re-encoded minimally).
macro_rules! convert_scalar {
    ($name:ident, $kind:expr, $cap:expr, $de:ident, $ser:ident, $unw:expr) => {
        #[kani::proof]
        #[kani::unwind($unw)]
        #[kani::stub(bytes::BytesMut::reserve_inner, no_reserve_inner)]
        fn $name() {
            let mut data: [u8; $cap] = kani::any();
            data[0] = $kind as u8;
            let mut s1: &[u8] = &data;
            let mut s2: &[u8] = &data;
            let mut canon = BytesMut::with_capacity(96);
            let ok1 = match Deserializer::new(&mut s1, 0) {
                Ok(d) => match d.$de() {
                    Ok(v) => match Serializer::new(&mut canon, 0) {
                        Ok(s) => {
                            assert!(s.$ser(v).is_ok());
                            true
                        }
                        Err(_) => {
                            assert!(false);
                            false
                        }
                    },
                    Err(_) => false,
                },
                Err(_) => false,
            };
            let mut dst = BytesMut::with_capacity(96);
            let ok2 = match Convert::new(&mut s2, &mut dst, Epoch::V1, 0) {
                Ok(c) => c.convert().is_ok(),
                Err(_) => {
                    assert!(false);
                    false
                }
            };
            assert!(ok1 == ok2);
            if ok1 {
                assert!(s1.len() == s2.len());
                assert!(dst.len() == canon.len());
                assert!(dst[0] == $kind as u8);
                let mut i = 0;
                while i < canon.len() {
                    assert!(dst[i] == canon[i]);
                    i += 1;
                }
            }
            kani::cover!(ok1);
        }
    };
}

// obligation: C13.convert_scalar_bool | harness: c13_convert_scalar_bool | kind: complete | bound: none (all payload bytes) | tier: quick
convert_scalar!(c13_convert_scalar_bool, ValueKind::Bool, 3, deserialize_bool, serialize_bool, 6);
// obligation: C13.convert_scalar_u8 | harness: c13_convert_scalar_u8 | kind: complete | bound: none (all payload bytes) | tier: quick
convert_scalar!(c13_convert_scalar_u8, ValueKind::U8, 3, deserialize_u8, serialize_u8, 6);
// obligation: C13.convert_scalar_i8 | harness: c13_convert_scalar_i8 | kind: complete | bound: none (all payload bytes) | tier: thorough
convert_scalar!(c13_convert_scalar_i8, ValueKind::I8, 3, deserialize_i8, serialize_i8, 6);
// obligation: C13.convert_scalar_u16 | harness: c13_convert_scalar_u16 | kind: complete | bound: none (all payload bytes, incl. non-minimal varints) | tier: quick
convert_scalar!(c13_convert_scalar_u16, ValueKind::U16, 5, deserialize_u16, serialize_u16, 8);
// obligation: C13.convert_scalar_i16 | harness: c13_convert_scalar_i16 | kind: complete | bound: none (all payload bytes, incl. non-minimal varints) | tier: thorough
convert_scalar!(c13_convert_scalar_i16, ValueKind::I16, 5, deserialize_i16, serialize_i16, 8);
// obligation: C13.convert_scalar_u32 | harness: c13_convert_scalar_u32 | kind: complete | bound: none (all payload bytes, incl. non-minimal varints) | tier: thorough
convert_scalar!(c13_convert_scalar_u32, ValueKind::U32, 7, deserialize_u32, serialize_u32, 10);
// obligation: C13.convert_scalar_i32 | harness: c13_convert_scalar_i32 | kind: complete | bound: none (all payload bytes, incl. non-minimal varints) | tier: quick
convert_scalar!(c13_convert_scalar_i32, ValueKind::I32, 7, deserialize_i32, serialize_i32, 10);
// obligation: C13.convert_scalar_u64 | harness: c13_convert_scalar_u64 | kind: complete | bound: none (all payload bytes, incl. non-minimal varints) | tier: quick
convert_scalar!(c13_convert_scalar_u64, ValueKind::U64, 11, deserialize_u64, serialize_u64, 14);
// obligation: C13.convert_scalar_i64 | harness: c13_convert_scalar_i64 | kind: complete | bound: none (all payload bytes, incl. non-minimal varints) | tier: thorough
convert_scalar!(c13_convert_scalar_i64, ValueKind::I64, 11, deserialize_i64, serialize_i64, 14);
// obligation: C13.convert_scalar_f32 | harness: c13_convert_scalar_f32 | kind: complete | bound: none (all bit patterns) | tier: quick
convert_scalar!(c13_convert_scalar_f32, ValueKind::F32, 6, deserialize_f32, serialize_f32, 9);
// obligation: C13.convert_scalar_f64 | harness: c13_convert_scalar_f64 | kind: complete | bound: none (all bit patterns) | tier: thorough
convert_scalar!(c13_convert_scalar_f64, ValueKind::F64, 10, deserialize_f64, serialize_f64, 13);
// obligation: C13.convert_scalar_uuid | harness: c13_convert_scalar_uuid | kind: complete | bound: none (all 128-bit values) | tier: quick
convert_scalar!(c13_convert_scalar_uuid, ValueKind::Uuid, 18, deserialize_uuid, serialize_uuid, 21);
// (object_id / service_id arms are not covered: the byte-wise comparison needs an unwinding bound of 36 / 68, which also
// unwinds the converter's recursion that deep: no verdict after 680 s, measured)
// obligation: C13.convert_scalar_sender | harness: c13_convert_scalar_sender | kind: complete | bound: none (all 128-bit values) | tier: thorough
convert_scalar!(c13_convert_scalar_sender, ValueKind::Sender, 18, deserialize_sender, serialize_sender, 21);
// obligation: C13.convert_scalar_receiver | harness: c13_convert_scalar_receiver | kind: complete | bound: none (all 128-bit values) | tier: thorough
convert_scalar!(c13_convert_scalar_receiver, ValueKind::Receiver, 18, deserialize_receiver, serialize_receiver, 21);

// truncated scalar payloads are rejected, never read out of bounds
macro_rules! convert_scalar_truncated {
    ($name:ident, $kind:expr, $len:expr) => {
        #[kani::proof]
        #[kani::unwind(12)]
        #[kani::stub(bytes::BytesMut::reserve_inner, no_reserve_inner)]
        fn $name() {
            let mut data: [u8; $len] = kani::any();
            data[0] = $kind as u8;
            let mut s1: &[u8] = &data;
            let mut s2: &[u8] = &data;
            let ok1 = match Deserializer::new(&mut s1, 0) {
                Ok(d) => d.skip().is_ok(),
                Err(_) => false,
            };
            let mut dst = BytesMut::with_capacity(96);
            let ok2 = match Convert::new(&mut s2, &mut dst, Epoch::V1, 0) {
                Ok(c) => c.convert().is_ok(),
                Err(_) => false,
            };
            // conversion fails only for ill-formed input: it accepts exactly what skipping accepts
            assert!(ok1 == ok2);
            if ok1 {
                assert!(s1.len() == s2.len());
            }
        }
    };
}

// obligation: C13.convert_truncated_u32_len2 | harness: c13_convert_truncated_u32_len2 | kind: bounded | bound: U32 value, input length 2 | tier: quick
convert_scalar_truncated!(c13_convert_truncated_u32_len2, ValueKind::U32, 2);
// obligation: C13.convert_truncated_u64_len4 | harness: c13_convert_truncated_u64_len4 | kind: bounded | bound: U64 value, input length 4 | tier: thorough
convert_scalar_truncated!(c13_convert_truncated_u64_len4, ValueKind::U64, 4);
// obligation: C13.convert_truncated_uuid_len9 | harness: c13_convert_truncated_uuid_len9 | kind: bounded | bound: Uuid value, input length 9 | tier: thorough
convert_scalar_truncated!(c13_convert_truncated_uuid_len9, ValueKind::Uuid, 9);

// ------------------------------------------------------------------------------------------------------------
// Container arms: current-epoch (terminated) containers are re-encoded as legacy (counted) ones. The SHAPE of every input
// is concrete (kind bytes, element counts, one-byte varints), element payloads are symbolic. Expected outputs are written
// from the two wire formats, independently of the code:
//   Vec2    = [43] ([1] elem)* [0]                  Vec1    = [17] n elem*
//   Bytes2  = [44] (len bytes{len})* [0]            Bytes1  = [18] total bytes*
//   XMap2   = [kind2] ([1] key elem)* [0]           XMap1   = [kind1] n (key elem)*
//   XSet2   = [kind2] ([1] key)* [0]                XSet1   = [kind1] n key*
//   Struct2 = [65] ([1] id elem)* [0]               Struct1 = [39] n (id elem)*
// Checked: result Ok, the whole input consumed, output bytes == expected (hence no 1.20 container kind in the output and
// the same logical content), and converting the output again gives the output (idempotence).
fn run_convert(input: &[u8], out: &mut [u8; 32]) -> Option<usize> {
    let mut src: &[u8] = input;
    let mut dst = BytesMut::with_capacity(64);
    let r = match Convert::new(&mut src, &mut dst, Epoch::V1, 0) {
        Ok(c) => c.convert(),
        Err(_) => return None,
    };
    if r.is_err() || !src.is_empty() {
        return None;
    }
    let n = dst.len();
    if n > 32 {
        return None;
    }
    let mut i = 0;
    while i < n {
        out[i] = dst[i];
        i += 1;
    }
    Some(n)
}

fn check_convert(input: &[u8], expected: &[u8]) {
    let mut out = [0u8; 32];
    let n = match run_convert(input, &mut out) {
        Some(n) => n,
        None => {
            assert!(false);
            return;
        }
    };
    assert!(n == expected.len());
    let mut i = 0;
    while i < n {
        assert!(out[i] == expected[i]);
        i += 1;
    }
    // idempotence: the legacy encoding converts to itself
    let mut out2 = [0u8; 32];
    let n2 = match run_convert(&out[..n], &mut out2) {
        Some(n2) => n2,
        None => {
            assert!(false);
            return;
        }
    };
    assert!(n2 == n);
    let mut j = 0;
    while j < n {
        assert!(out2[j] == out[j]);
        j += 1;
    }
}

const K_NONE: u8 = ValueKind::None as u8;
const K_SOME: u8 = ValueKind::Some as u8;
const K_U8: u8 = ValueKind::U8 as u8;

// obligation: C13.convert_vec2_x0 | harness: c13_convert_vec2_x0 | kind: bounded | bound: empty Vec2 | tier: quick
#[kani::proof]
#[kani::unwind(34)]
fn c13_convert_vec2_x0() {
    check_convert(&[ValueKind::Vec2 as u8, K_NONE], &[ValueKind::Vec1 as u8, 0]);
}

// obligation: C13.convert_vec2_x2 | harness: c13_convert_vec2_x2 | kind: bounded | bound: Vec2 of 2 u8 elements (values symbolic) | tier: quick
#[kani::proof]
#[kani::unwind(34)]
fn c13_convert_vec2_x2() {
    let (x, y): (u8, u8) = (kani::any(), kani::any());
    check_convert(
        &[ValueKind::Vec2 as u8, K_SOME, K_U8, x, K_SOME, K_U8, y, K_NONE],
        &[ValueKind::Vec1 as u8, 2, K_U8, x, K_U8, y],
    );
}

// obligation: C13.convert_vec2_nested | harness: c13_convert_vec2_nested | kind: bounded | bound: Vec2 [ Vec2 [u8], Some(u8) ] | tier: quick
#[kani::proof]
#[kani::unwind(34)]
fn c13_convert_vec2_nested() {
    let (x, y): (u8, u8) = (kani::any(), kani::any());
    check_convert(
        &[ValueKind::Vec2 as u8, K_SOME, ValueKind::Vec2 as u8, K_SOME, K_U8, x, K_NONE, K_SOME, K_SOME, K_U8, y, K_NONE],
        &[ValueKind::Vec1 as u8, 2, ValueKind::Vec1 as u8, 1, K_U8, x, K_SOME, K_U8, y],
    );
}

// obligation: C13.convert_bytes2_segments | harness: c13_convert_bytes2_segments | kind: bounded | bound: Bytes2 of two segments (2 + 1 bytes, contents symbolic) | tier: quick
#[kani::proof]
#[kani::unwind(34)]
fn c13_convert_bytes2_segments() {
    let (a, b, c): (u8, u8, u8) = (kani::any(), kani::any(), kani::any());
    check_convert(&[ValueKind::Bytes2 as u8, 2, a, b, 1, c, 0], &[ValueKind::Bytes1 as u8, 3, a, b, c]);
}

// obligation: C13.convert_map2_u8_x2 | harness: c13_convert_map2_u8_x2 | kind: bounded | bound: U8Map2 of 2 entries (keys and u8 values symbolic) | tier: quick
#[kani::proof]
#[kani::unwind(34)]
fn c13_convert_map2_u8_x2() {
    let (k1, k2, x, y): (u8, u8, u8, u8) = (kani::any(), kani::any(), kani::any(), kani::any());
    check_convert(
        &[ValueKind::U8Map2 as u8, K_SOME, k1, K_U8, x, K_SOME, k2, K_U8, y, K_NONE],
        &[ValueKind::U8Map1 as u8, 2, k1, K_U8, x, k2, K_U8, y],
    );
}

// (varint-encoded keys and ids are concrete in these shape harnesses: a symbolic varint makes a buffer length symbolic and
// CBMC gives no verdict in 1800 s, measured; all key values are covered by the C13.key_convert_* obligations)
// obligation: C13.convert_map2_u16_key | harness: c13_convert_map2_u16_key | kind: bounded | bound: U16Map2 {1000: None} | tier: quick
#[kani::proof]
#[kani::unwind(34)]
fn c13_convert_map2_u16_key() {
    // 1000 = 0x03e8 -> varint [255, 0xe8, 0x03]
    check_convert(
        &[ValueKind::U16Map2 as u8, K_SOME, 255, 0xe8, 0x03, K_NONE, K_NONE],
        &[ValueKind::U16Map1 as u8, 1, 255, 0xe8, 0x03, K_NONE],
    );
}

// obligation: C13.convert_set2_i8_x2 | harness: c13_convert_set2_i8_x2 | kind: bounded | bound: I8Set2 of 2 keys (symbolic) | tier: quick
#[kani::proof]
#[kani::unwind(34)]
fn c13_convert_set2_i8_x2() {
    let (k1, k2): (u8, u8) = (kani::any(), kani::any());
    check_convert(&[ValueKind::I8Set2 as u8, K_SOME, k1, K_SOME, k2, K_NONE], &[ValueKind::I8Set1 as u8, 2, k1, k2]);
}

// obligation: C13.convert_set2_uuid_x1 | harness: c13_convert_set2_uuid_x1 | kind: bounded | bound: UuidSet2 of 1 key (all 128-bit values) | tier: thorough
#[kani::proof]
#[kani::unwind(34)]
fn c13_convert_set2_uuid_x1() {
    let u: [u8; 16] = kani::any();
    let mut input = [0u8; 19];
    input[0] = ValueKind::UuidSet2 as u8;
    input[1] = K_SOME;
    let mut expected = [0u8; 18];
    expected[0] = ValueKind::UuidSet1 as u8;
    expected[1] = 1;
    let mut i = 0;
    while i < 16 {
        input[2 + i] = u[i];
        expected[2 + i] = u[i];
        i += 1;
    }
    input[18] = K_NONE;
    check_convert(&input, &expected);
}

// obligation: C13.convert_struct2_x2 | harness: c13_convert_struct2_x2 | kind: bounded | bound: Struct2 of 2 fields (ids 3 and 200, u8 values symbolic) | tier: quick
#[kani::proof]
#[kani::unwind(34)]
fn c13_convert_struct2_x2() {
    let (x, y): (u8, u8) = (kani::any(), kani::any());
    let (i1, i2): (u8, u8) = (3, 200);
    check_convert(
        &[ValueKind::Struct2 as u8, K_SOME, i1, K_U8, x, K_SOME, i2, K_U8, y, K_NONE],
        &[ValueKind::Struct1 as u8, 2, i1, K_U8, x, i2, K_U8, y],
    );
}

// obligation: C13.convert_enum_of_vec2 | harness: c13_convert_enum_of_vec2 | kind: bounded | bound: Enum(id 9, Vec2 [u8]) | tier: quick
#[kani::proof]
#[kani::unwind(34)]
fn c13_convert_enum_of_vec2() {
    let x: u8 = kani::any();
    let id: u8 = 9;
    check_convert(
        &[ValueKind::Enum as u8, id, ValueKind::Vec2 as u8, K_SOME, K_U8, x, K_NONE],
        &[ValueKind::Enum as u8, id, ValueKind::Vec1 as u8, 1, K_U8, x],
    );
}

// legacy containers pass through unchanged
// obligation: C13.convert_legacy_unchanged | harness: c13_convert_legacy_unchanged | kind: bounded | bound: Vec1 [u8, Bytes1(2)] and U8Map1 {k: u8} (payloads symbolic) | tier: quick
#[kani::proof]
#[kani::unwind(34)]
fn c13_convert_legacy_unchanged() {
    let (x, a, b, k, y): (u8, u8, u8, u8, u8) = (kani::any(), kani::any(), kani::any(), kani::any(), kani::any());
    let v = [ValueKind::Vec1 as u8, 2, K_U8, x, ValueKind::Bytes1 as u8, 2, a, b];
    check_convert(&v, &v);
    let m = [ValueKind::U8Map1 as u8, 1, k, K_U8, y];
    check_convert(&m, &m);
}

// malformed terminated containers are rejected (never a panic): a marker other than Some/None, or a missing terminator
// obligation: C13.convert_vec2_malformed | harness: c13_convert_vec2_malformed | kind: bounded | bound: Vec2 with one symbolic marker byte; truncated Vec2 | tier: quick
#[kani::proof]
#[kani::unwind(34)]
fn c13_convert_vec2_malformed() {
    let m: u8 = kani::any();
    kani::assume(m > 1);
    let mut out = [0u8; 32];
    assert!(run_convert(&[ValueKind::Vec2 as u8, m, K_U8, 7, K_NONE], &mut out).is_none());
    assert!(run_convert(&[ValueKind::Vec2 as u8, K_SOME, K_U8, 7], &mut out).is_none());
}

// nesting limit inside the converter: a container step with a u8 leaf converts at outer depth 30 and is rejected with
// TooDeeplyNested at outer depth 31 - the same boundary as serializer and deserializer (C01.depth_step_*). The depth is
// concrete per harness: with a symbolic depth CBMC cannot prune the converter's recursion (no verdict in 600 s, measured).
macro_rules! convert_depth_step {
    ($name:ident, $depth:expr, $ok:expr, [$($byte:expr),*]) => {
        #[kani::proof]
        #[kani::unwind(8)]
        fn $name() {
            let data = [$($byte),*];
            let mut src: &[u8] = &data;
            let mut dst = BytesMut::with_capacity(64);
            let r = match Convert::new(&mut src, &mut dst, Epoch::V1, $depth) {
                Ok(c) => c.convert(),
                Err(_) => {
                    assert!(false);
                    return;
                }
            };
            match r {
                Ok(()) => {
                    assert!($ok);
                }
                Err(e) => {
                    assert!(!$ok);
                    assert!(matches!(e, ValueConversionError::Deserialize(crate::DeserializeError::TooDeeplyNested)));
                }
            }
        }
    };
}

// obligation: C13.convert_depth30_some | harness: c13_convert_depth30_some | kind: bounded | bound: outer depth 30 | tier: quick
convert_depth_step!(c13_convert_depth30_some, 30, true, [K_SOME, K_U8, 9]);
// obligation: C13.convert_depth31_some | harness: c13_convert_depth31_some | kind: bounded | bound: outer depth 31 | tier: quick
convert_depth_step!(c13_convert_depth31_some, 31, false, [K_SOME, K_U8, 9]);
// obligation: C13.convert_depth30_vec2 | harness: c13_convert_depth30_vec2 | kind: bounded | bound: outer depth 30 | tier: quick
convert_depth_step!(c13_convert_depth30_vec2, 30, true, [ValueKind::Vec2 as u8, K_SOME, K_U8, 9, K_NONE]);
// obligation: C13.convert_depth31_vec2 | harness: c13_convert_depth31_vec2 | kind: bounded | bound: outer depth 31 | tier: quick
convert_depth_step!(c13_convert_depth31_vec2, 31, false, [ValueKind::Vec2 as u8, K_SOME, K_U8, 9, K_NONE]);
// obligation: C13.convert_depth30_enum | harness: c13_convert_depth30_enum | kind: bounded | bound: outer depth 30 | tier: quick
convert_depth_step!(c13_convert_depth30_enum, 30, true, [ValueKind::Enum as u8, 7, K_U8, 9]);
// obligation: C13.convert_depth31_enum | harness: c13_convert_depth31_enum | kind: bounded | bound: outer depth 31 | tier: quick
convert_depth_step!(c13_convert_depth31_enum, 31, false, [ValueKind::Enum as u8, 7, K_U8, 9]);
// obligation: C13.convert_depth31_map2 | harness: c13_convert_depth31_map2 | kind: bounded | bound: outer depth 31 | tier: quick
convert_depth_step!(c13_convert_depth31_map2, 31, false, [ValueKind::U8Map2 as u8, K_SOME, 3, K_U8, 9, K_NONE]);
// obligation: C13.convert_depth31_struct2 | harness: c13_convert_depth31_struct2 | kind: bounded | bound: outer depth 31 | tier: quick
convert_depth_step!(c13_convert_depth31_struct2, 31, false, [ValueKind::Struct2 as u8, K_SOME, 5, K_U8, 9, K_NONE]);
// obligation: C13.convert_depth31_vec1 | harness: c13_convert_depth31_vec1 | kind: bounded | bound: outer depth 31 | tier: quick
convert_depth_step!(c13_convert_depth31_vec1, 31, false, [ValueKind::Vec1 as u8, 1, K_U8, 9]);
