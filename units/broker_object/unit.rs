// unit: broker_object   (leaf facts for C02/C03: who owns an object, which services hang off it)
use vstd::prelude::*;
use vstd::std_specs::hash::*;
use std::collections::HashSet;
use std::hash::{Hash, Hasher};

verus! {

#[verifier::external_body]
pub struct ConnectionId { _p: () }

macro_rules! opaque_copy_key {
    ($t:ident) => {
        verus! {
        #[verifier::external_body]
        #[derive(Clone, Copy)]
        pub struct $t { _p: () }
        impl PartialEq for $t {
            #[verifier::external_body]
            fn eq(&self, other: &Self) -> (r: bool) { unimplemented!() }
        }
        impl Eq for $t {}
        impl Hash for $t {
            #[verifier::external_body]
            fn hash<H: Hasher>(&self, state: &mut H) { unimplemented!() }
        }
        }
    };
}
opaque_copy_key!(ObjectCookie);
opaque_copy_key!(ServiceCookie);

pub mod trusted {
    use super::*;
    pub broadcast axiom fn axiom_service_cookie_key_model() ensures #[trigger] obeys_key_model::<ServiceCookie>();
}
broadcast use {trusted::axiom_service_cookie_key_model, vstd::std_specs::hash::group_hash_axioms};

//@item broker/src/broker/object.rs struct Object

impl Object {
    //@fn broker/src/broker/object.rs Object::new
        ensures r.conn_id == conn_id, r.cookie == cookie, r.svcs@ == Set::<ServiceCookie>::empty(),
    //@end

    //@fn broker/src/broker/object.rs Object::conn_id
        ensures *r == self.conn_id,
    //@end

    //@fn broker/src/broker/object.rs Object::cookie
        ensures r == self.cookie,
    //@end

    //@fn broker/src/broker/object.rs Object::add_service
        requires !old(self).svcs@.contains(cookie),
        ensures final(self).svcs@ == old(self).svcs@.insert(cookie),
            final(self).conn_id == old(self).conn_id, final(self).cookie == old(self).cookie,
    //@end

    //@fn broker/src/broker/object.rs Object::remove_service
        requires old(self).svcs@.contains(cookie),
        ensures final(self).svcs@ == old(self).svcs@.remove(cookie),
            final(self).conn_id == old(self).conn_id, final(self).cookie == old(self).cookie,
    //@end
}

} // verus!

fn main() {}
