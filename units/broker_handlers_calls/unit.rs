// unit: broker_handlers_calls   property: C02 (reply acceptance and abort at handler level); C11 (the expect()s of these
// handlers are discharged from the invariant)
// Handlers of broker/src/broker.rs verified against the contracts of SerialMap, Object, Service and ConnectionState.
#![feature(allocator_api)]
use vstd::prelude::*;
use vstd::std_specs::hash::*;
use vstd::std_specs::cmp::*;
use std::collections::hash_map::{Entry, HashMap, OccupiedEntry};
use std::collections::HashSet;
use std::hash::{Hash, Hasher};
use std::mem;

verus! {

//@include _shared/handler_prelude.rs
opaque!(Channel);
opaque!(BusListener);

// ---- messages -------------------------------------------------------------------------------------------
//@item core/src/message/call_function_reply.rs enum CallFunctionResult
//@item core/src/message/call_function_reply.rs struct CallFunctionReply
//@item core/src/message/abort_function_call.rs struct AbortFunctionCall
//@item core/src/message/call_function2.rs struct CallFunction2

// protocol minor version that introduced each message kind sent by these handlers (0 = base protocol 1.14)
impl IntoMessage for CallFunctionReply { open spec fn min_minor() -> u32 { 0 } }
impl IntoMessage for AbortFunctionCall { open spec fn min_minor() -> u32 { 16 } }

// ---- callee structures: real structs, methods ASSUMED with the contracts verified in their leaf units ---------
//@item broker/src/serial_map.rs struct SerialMap
impl<T> SerialMap<T> {
    //@fn-from broker_serial_map broker/src/serial_map.rs SerialMap::get_mut
    //@fn-from broker_serial_map broker/src/serial_map.rs SerialMap::entry
}

//@item broker/src/broker/object.rs struct Object
impl Object {
    //@fn-from broker_object broker/src/broker/object.rs Object::conn_id
}

//@item broker/src/broker/service.rs struct Service
impl Service {
    //@include _shared/service_specs.rs
    //@fn-from broker_service broker/src/broker/service.rs Service::remove_function_call
}

//@item broker/src/broker/conn_state.rs struct ConnectionState
impl ConnectionState {
    //@include _shared/conn_state_specs.rs
    //@fn-from broker_conn_state broker/src/broker/conn_state.rs ConnectionState::version
    //@fn-from broker_conn_state broker/src/broker/conn_state.rs ConnectionState::remove_call

    // call_data maps with a tuple-pattern closure (outside Verus's subset): contract ASSUMED
    //@fn broker/src/broker/conn_state.rs ConnectionState::call_data nobody
        ensures
            match r {
                Some(d) => self.calls@.contains_key(caller_serial) && d.0 == self.calls@[caller_serial].0
                    && *d.1 == self.calls@[caller_serial].1,
                None => !self.calls@.contains_key(caller_serial),
            },
    //@end

    // sending only pushes into the connection's outgoing queue (interior mutability); no broker state changes.
    // Precondition: the message kind exists in the connection's negotiated protocol version (see handler_prelude.rs).
    #[verifier::external_body]
    pub(crate) fn send(&self, msg: VersionedMessage) -> (r: Result<(), ()>)
        requires self.version.allows(msg.min_minor())
    { unimplemented!() }
}

// ---- Broker -------------------------------------------------------------------------------------------
//@item broker/src/broker.rs macro send
//@item broker/src/broker.rs struct PendingFunctionCall
//@item broker/src/broker.rs struct Broker

impl Broker {
    #[verifier::inline]
    spec fn calls(&self) -> Map<u32, PendingFunctionCall> {
        self.function_calls.elems@
    }

    // Invariant of the call tables: every pending call refers to a live object and service, the service lists it, and a
    // call that has not been aborted is known to its (still connected) caller under the caller's own serial.
    spec fn calls_inv(&self) -> bool {
        forall|s: u32| #![trigger self.calls()[s]] self.calls().contains_key(s) ==> {
            let c = self.calls()[s];
            &&& self.objs@.contains_key(c.callee_obj)
            &&& self.svcs@.contains_key((c.callee_obj, c.callee_svc))
            &&& self.svcs@[(c.callee_obj, c.callee_svc)].function_calls@.contains(s)
            &&& (!c.aborted ==> forall|k: ConnectionId| #![trigger self.conns@[k]]
                    k.id() == c.caller_conn_id.id() && self.conns@.contains_key(k)
                        ==> self.conns@[k].calls@.contains_key(c.caller_serial)
                            && self.conns@[k].calls@[c.caller_serial].0 == s)
        }
    }

    spec fn same_rest(&self, o: &Self) -> bool {
        &&& self.recv == o.recv &&& self.handle == o.handle &&& self.obj_uuids == o.obj_uuids
        &&& self.objs == o.objs &&& self.svc_uuids == o.svc_uuids
        &&& self.channels == o.channels &&& self.bus_listeners == o.bus_listeners
    }

    // the reply `serial` is acceptable from connection `id`: the call is pending and `id` owns the called object
    spec fn reply_acceptable(&self, id: &ConnectionId, serial: u32) -> bool {
        &&& self.conns@.contains_key(*id)
        &&& self.calls().contains_key(serial)
        &&& self.objs@[self.calls()[serial].callee_obj].conn_id.id() == id.id()
    }

    //@fn broker/src/broker.rs Broker::call_function_reply
        requires
            old(self).calls_inv(),
        ensures
            final(self).calls_inv(),
            final(self).same_rest(old(self)),
            final(self).conns@.dom() == old(self).conns@.dom(),
            final(self).svcs@.dom() == old(self).svcs@.dom(),
            // replies from non-owners, duplicate or stale replies and replies from unknown connections change nothing:
            // in particular the caller's pending-call entry is still there, so the caller still gets its one reply later
            !old(self).reply_acceptable(id, req.serial) ==> {
                &&& final(self).calls() == old(self).calls()
                &&& final(self).conns@ == old(self).conns@
                &&& final(self).svcs@ == old(self).svcs@
            },
            // an acceptable reply consumes the pending call exactly once ...
            old(self).reply_acceptable(id, req.serial) ==> {
                let c = old(self).calls()[req.serial];
                &&& final(self).calls() == old(self).calls().remove(req.serial)
                &&& final(self).svcs@[(c.callee_obj, c.callee_svc)].function_calls@
                        == old(self).svcs@[(c.callee_obj, c.callee_svc)].function_calls@.remove(req.serial)
                // ... a reply after an abort is not delivered: the caller's bookkeeping is not touched (it was already
                // answered with Aborted)
                &&& (c.aborted ==> final(self).conns@ == old(self).conns@)
                // ... otherwise the caller's entry for its own serial is consumed, and only that one
                &&& (!c.aborted ==> forall|k: ConnectionId| #![trigger final(self).conns@[k]] old(self).conns@.contains_key(k) ==> {
                        if k.id() == c.caller_conn_id.id() {
                            final(self).conns@[k].calls@ == old(self).conns@[k].calls@.remove(c.caller_serial)
                        } else {
                            final(self).conns@[k] == old(self).conns@[k]
                        }
                    })
            },
    //@end

    //@fn broker/src/broker.rs Broker::abort_call
        requires
            old(self).calls_inv(),
        ensures
            final(self).calls_inv(),
            final(self).same_rest(old(self)),
            final(self).svcs == old(self).svcs,
            final(self).conns@.dom() == old(self).conns@.dom(),
            final(self).calls().dom() == old(self).calls().dom(),
            // unknown or already aborted calls: nothing happens (no second Aborted reply)
            (!old(self).calls().contains_key(callee_serial) || old(self).calls()[callee_serial].aborted) ==> {
                &&& final(self).calls() == old(self).calls()
                &&& final(self).conns@ == old(self).conns@
            },
            // otherwise the call is marked aborted (so that the callee's late reply is dropped) and the caller's entry is
            // consumed
            (old(self).calls().contains_key(callee_serial) && !old(self).calls()[callee_serial].aborted) ==> {
                let c = old(self).calls()[callee_serial];
                &&& final(self).calls()[callee_serial].aborted
                &&& final(self).calls()[callee_serial].caller_serial == c.caller_serial
                &&& final(self).calls()[callee_serial].caller_conn_id == c.caller_conn_id
                &&& final(self).calls()[callee_serial].callee_obj == c.callee_obj
                &&& final(self).calls()[callee_serial].callee_svc == c.callee_svc
                &&& forall|s: u32| s != callee_serial && old(self).calls().contains_key(s) ==> final(self).calls()[s] == old(self).calls()[s]
                &&& forall|k: ConnectionId| #![trigger final(self).conns@[k]] old(self).conns@.contains_key(k) ==> {
                        if k.id() == c.caller_conn_id.id() {
                            final(self).conns@[k].calls@ == old(self).conns@[k].calls@.remove(c.caller_serial)
                        } else {
                            final(self).conns@[k] == old(self).conns@[k]
                        }
                    }
            },
    //@end

    //@fn broker/src/broker.rs Broker::abort_function_call
        ensures
            // an abort request only queues work; the tables are not touched by the request itself
            *final(self) == *old(self),
            // AbortFunctionCall exists since protocol 1.16: a connection negotiated below that is closed (Err drops it)
            old(self).conns@.contains_key(*id) ==> (r is Err <==>
                ProtocolVersion::lex_cmp(old(self).conns@[*id].version, ProtocolVersion::V1_16) == core::cmp::Ordering::Less),
            !old(self).conns@.contains_key(*id) ==> r is Ok,
    //@end

    // routing of the call itself: ref patterns (outside Verus's subset); no contract, body not verified
    //@fn broker/src/broker.rs Broker::call_function_impl nobody
    //@end

    //@fn broker/src/broker.rs Broker::call_function2
        ensures
            // CallFunction2 exists since protocol 1.19: a connection negotiated below that is closed and nothing happens
            (old(self).conns@.contains_key(*id)
                && ProtocolVersion::lex_cmp(old(self).conns@[*id].version, ProtocolVersion::V1_19) == core::cmp::Ordering::Less)
                ==> r is Err && *final(self) == *old(self),
            !old(self).conns@.contains_key(*id) ==> r is Ok && *final(self) == *old(self),
    //@end
}

} // verus!

fn main() {}
