// unit: broker_handlers_registry   property: C03 (object/service registry: uniqueness, ownership, cascading destruction);
// C02 (pending calls of a destroyed service are answered InvalidService exactly once); C11 (the expect()s of these handlers)
// Registry handlers of broker/src/broker.rs verified against the CONTRACTS of Object, Service, ConnectionState, SerialMap
// and State (//@fn-from: verified in their leaf units), under a registry invariant over the broker's tables.
#![feature(allocator_api)]
use vstd::prelude::*;
use vstd::std_specs::hash::*;
use vstd::std_specs::cmp::*;
use std::collections::hash_map::{Entry, HashMap, OccupiedEntry};
use std::collections::HashSet;
use std::hash::{Hash, Hasher};
use std::mem;

verus! {

//@keep-cfg statistics
//@include _shared/registry_preamble_a.rs
//@include _shared/statistics_items.rs
opaque!(Channel);
opaque!(BusListener);
//@item core/src/message/create_object.rs struct CreateObject
//@item core/src/message/create_object_reply.rs enum CreateObjectResult
//@item core/src/message/create_object_reply.rs struct CreateObjectReply
//@item core/src/message/destroy_object.rs struct DestroyObject
//@item core/src/message/destroy_object_reply.rs enum DestroyObjectResult
//@item core/src/message/destroy_object_reply.rs struct DestroyObjectReply
//@item core/src/message/create_service.rs struct CreateService
//@item core/src/message/create_service_reply.rs enum CreateServiceResult
//@item core/src/message/create_service_reply.rs struct CreateServiceReply
//@item core/src/message/destroy_service.rs struct DestroyService
//@item core/src/message/create_service2.rs struct CreateService2
//@item core/src/message/destroy_service_reply.rs enum DestroyServiceResult
//@item core/src/message/destroy_service_reply.rs struct DestroyServiceReply
//@item core/src/message/query_service_version.rs struct QueryServiceVersion
//@item core/src/message/query_service_version_reply.rs enum QueryServiceVersionResult
//@item core/src/message/query_service_version_reply.rs struct QueryServiceVersionReply
//@item core/src/message/query_service_info.rs struct QueryServiceInfo
//@item core/src/message/query_service_info_reply.rs enum QueryServiceInfoResult
//@item core/src/message/query_service_info_reply.rs struct QueryServiceInfoReply
//@item core/src/message/register_introspection.rs struct RegisterIntrospection
//@item core/src/message/query_introspection.rs struct QueryIntrospection
//@item core/src/message/query_introspection_reply.rs enum QueryIntrospectionResult
//@item core/src/message/query_introspection_reply.rs struct QueryIntrospectionReply
//@item core/src/message/sync.rs struct Sync
//@item core/src/message/sync_reply.rs struct SyncReply

impl IntoMessage for CreateObjectReply { open spec fn min_minor() -> u32 { 0 } open spec fn allowed_for(&self, receiver: &ConnectionState) -> bool { true } }
impl IntoMessage for DestroyObjectReply { open spec fn min_minor() -> u32 { 0 } open spec fn allowed_for(&self, receiver: &ConnectionState) -> bool { true } }
impl IntoMessage for CreateServiceReply { open spec fn min_minor() -> u32 { 0 } open spec fn allowed_for(&self, receiver: &ConnectionState) -> bool { true } }
impl IntoMessage for DestroyServiceReply { open spec fn min_minor() -> u32 { 0 } open spec fn allowed_for(&self, receiver: &ConnectionState) -> bool { true } }
impl IntoMessage for QueryServiceVersionReply { open spec fn min_minor() -> u32 { 0 } open spec fn allowed_for(&self, receiver: &ConnectionState) -> bool { true } }
impl IntoMessage for QueryServiceInfoReply { open spec fn min_minor() -> u32 { 17 } open spec fn allowed_for(&self, receiver: &ConnectionState) -> bool { true } }
#[verifier::external_body]
#[derive(Debug)]
pub struct SerializeError { _p: () }
impl SerializedValue {
    // `SerializedValue::serialize(value: impl SerializePrimary)` instantiated at ServiceInfo. ASSUMED: serialising a ServiceInfo
    // (a u32 and two optional fields, nesting depth 1) cannot fail -- the handler `expect`s it
    #[verifier::external_body]
    pub fn serialize(value: ServiceInfo) -> (r: Result<Self, SerializeError>)
        ensures r is Ok,
    { unimplemented!() }
}
impl IntoMessage for QueryIntrospectionReply { open spec fn min_minor() -> u32 { 17 } open spec fn allowed_for(&self, receiver: &ConnectionState) -> bool { true } }
opaque!(TypeId);
impl IntoMessage for SyncReply { open spec fn min_minor() -> u32 { 0 } open spec fn allowed_for(&self, receiver: &ConnectionState) -> bool { true } }
impl ServiceInfo {
    #[verifier::external_body]
    pub fn version(self) -> (r: u32) { unimplemented!() }
}

//@include _shared/registry_preamble_b.rs
impl Broker {
    //@include _shared/registry_inv.rs
    //@include _shared/statistics_specs.rs

    // ---- remove_service -------------------------------------------------------------------------------------
    //@fn broker/src/broker.rs Broker::remove_service attr=verifier::loop_isolation(false)
        requires
            old(self).reg_winv(),
        ensures
            final(self).same_rest(old(self)),
            final(self).conns@.dom() =~= old(self).conns@.dom(),
            final(self).obj_uuids@ =~= old(self).obj_uuids@,
            final(self).objs@.dom() =~= old(self).objs@.dom(),
            // an unknown (stale) cookie: nothing happens
            !old(self).svc_uuids@.contains_key(svc_cookie) ==> {
                &&& final(self).same_registry(old(self))
                &&& final(self).calls() =~= old(self).calls()
                &&& final(self).conns@ =~= old(self).conns@
                &&& *final(state) == *old(state)
            },
            old(self).svc_uuids@.contains_key(svc_cookie) ==> {
                let k = old(self).skey(svc_cookie);
                let ou = k.0;
                let svc = old(self).svcs@[k];
                // exactly this service leaves both tables ...
                &&& final(self).svc_uuids@ =~= old(self).svc_uuids@.remove(svc_cookie)
                &&& final(self).svcs@ =~= old(self).svcs@.remove(k)
                // ... and its object's list, no other object is touched
                &&& forall|u: ObjectUuid| #![trigger final(self).objs@[u]] old(self).objs@.contains_key(u) ==> {
                        &&& final(self).objs@[u].conn_id == old(self).objs@[u].conn_id
                        &&& final(self).objs@[u].cookie == old(self).objs@[u].cookie
                        &&& final(self).objs@[u].svcs@ == (if u == ou { old(self).objs@[u].svcs@.remove(svc_cookie) }
                                                         else { old(self).objs@[u].svcs@ })
                    }
                // its pending calls, and only those, are dropped from the call table ...
                &&& final(self).calls() =~= old(self).calls().remove_keys(svc.function_calls@)
                // ... no object is owned differently, no connection gains or loses an object or a pending call
                &&& forall|c: ConnectionId| #![trigger final(self).conns@[c]] old(self).conns@.contains_key(c) ==> {
                        &&& final(self).conns@[c].rest_eq2(&old(self).conns@[c], 3, 5)
                        // its subscriptions to this service end, all others stay
                        &&& final(self).conns@[c].ev(svc_cookie) == (if svc.is_subscriber(c) { Set::<u32>::empty() } else { old(self).conns@[c].ev(svc_cookie) })
                        &&& forall|o: ServiceCookie| o != svc_cookie ==> final(self).conns@[c].ev(o) == old(self).conns@[c].ev(o)
                        &&& final(self).conns@[c].subscriptions@ == (if svc.is_subscriber(c) { old(self).conns@[c].subscriptions@.remove(svc_cookie) } else { old(self).conns@[c].subscriptions@ })
                    }
                // queued work: one ServiceDestroyed bus event for exactly this service ...
                &&& final(state).destroy_service@ == old(state).destroy_service@.push(
                        ServiceId { object_id: old(self).svc_uuids@[svc_cookie].0, uuid: k.1, cookie: svc_cookie })
                // ... one InvalidService reply for every pending call of the service that was not aborted, and nothing else ...
                &&& exists|order: Seq<u32>| #![trigger invalid_service_replies(order, old(self).calls())]
                        order.no_duplicates() && order.to_set() == svc.function_calls@
                        && final(state).remove_function_calls@
                            == old(state).remove_function_calls@ + invalid_service_replies(order, old(self).calls())
                // ... one ServiceDestroyed notification for every connected subscriber
                &&& exists|order: Seq<&ConnectionId>| #![trigger service_destroyed_notes(order, old(self).conns@.dom(), svc_cookie)]
                        order.no_duplicates()
                        && (forall|c: ConnectionId| svc.is_subscriber(c) <==> visited(order, c))
                        && final(state).services_destroyed@
                            == old(state).services_destroyed@ + service_destroyed_notes(order, old(self).conns@.dom(), svc_cookie)
                &&& final(state).rest_eq3(old(state), 10, 3, 4)
            },
            // statistics: the service counter follows the service table, the other counters are untouched
            old(self).stat_services_ok() ==> final(self).stat_services_ok(),
            final(self).statistics.num_connections == old(self).statistics.num_connections,
            final(self).statistics.num_objects == old(self).statistics.num_objects,
            final(self).statistics.num_channels == old(self).statistics.num_channels,
            final(self).statistics.num_bus_listeners == old(self).statistics.num_bus_listeners,
            // the invariant last (the frame facts above are then available), conjunct by conjunct (one query each
            // keeps the solver stable), then as a whole
            final(self).inv_objects(), final(self).inv_services(), final(self).inv_object_services(), final(self).inv_ownership(),
            final(self).inv_calls(), final(self).inv_callers(), final(self).inv_conns(), final(self).inv_subs(),
            final(self).reg_winv(),
    //@ghost before `for serial in svc.function_calls()`
        let ghost k = (obj_id.uuid, svc_uuid);
        let ghost mid = *self;
        let ghost mid_state = *state;
        let ghost mut order0: Seq<u32> = Seq::empty();
        proof {
            assert(k == old(self).skey(svc_cookie));
            assert(svc == old(self).svcs@[k]);
        }
    //@loop 0 it
        invariant
            it.seq().no_duplicates(), it.seq().to_set() == svc.function_calls@,
            order0 == it.history(), order0.no_duplicates(),
            forall|x: u32| svc.function_calls@.contains(x) <==> (order0.contains(x) || exists|i: int| it.index() <= i < it.seq().len() && it.seq()[i] == x),
            self.calls() == old(self).calls().remove_keys(it.history().to_set()),
            self.function_calls.next == mid.function_calls.next,
            self.conns == mid.conns, self.obj_uuids == mid.obj_uuids, self.objs == mid.objs,
            self.svc_uuids == mid.svc_uuids, self.svcs == mid.svcs, self.same_rest(&mid),
            state.remove_function_calls@ == old(state).remove_function_calls@ + invalid_service_replies(it.history(), old(self).calls()),
            state.rest_eq(&mid_state, 3),
    //@ghost loop-start 0
        proof {
            assert(it.history() == it.seq().take(it.index()));
            assert(serial == it.seq()[it.index()]);
            assert(it.seq().to_set().contains(serial));
            assert(old(self).calls().contains_key(serial));
            assert(!it.history().to_set().contains(serial)) by {
                if it.history().to_set().contains(serial) {
                    let j = choose|j: int| 0 <= j < it.history().len() && it.history()[j] == serial;
                    assert(it.seq()[j] == it.seq()[it.index()]);
                }
            }
        }
    //@ghost loop-end 0
        proof {
            let h = it.history();
            let h2 = h.push(serial);
            assert(h2.drop_last() == h);
            assert(h2.last() == serial);
            reveal_with_fuel(invalid_service_replies, 2);
            assert(h2.to_set() == h.to_set().insert(serial)) by {
                assert forall|x: u32| h2.to_set().contains(x) <==> h.to_set().insert(serial).contains(x) by {
                    if h2.to_set().contains(x) {
                        let j = choose|j: int| 0 <= j < h2.len() && h2[j] == x;
                        if j < h.len() { assert(h[j] == x); }
                    }
                    if h.to_set().contains(x) {
                        let j = choose|j: int| 0 <= j < h.len() && h[j] == x;
                        assert(h2[j] == x);
                    }
                    if x == serial { assert(h2[h.len() as int] == x); }
                }
            }
            assert(old(self).calls().remove_keys(h.to_set()).remove(serial) == old(self).calls().remove_keys(h2.to_set()));
            assert(it.seq().take(it.index() + 1) == h2);
            order0 = h2;
            assert forall|x: u32| svc.function_calls@.contains(x) <==> (h2.contains(x) || exists|i: int| it.index() + 1 <= i < it.seq().len() && it.seq()[i] == x) by {
                if svc.function_calls@.contains(x) && !h2.contains(x) {
                    assert(!h.contains(x)) by { if h.contains(x) { let j = choose|j: int| 0 <= j < h.len() && h[j] == x; assert(h2[j] == x); } }
                    let i = choose|i: int| it.index() <= i < it.seq().len() && it.seq()[i] == x;
                    if i == it.index() { assert(h2[h.len() as int] == x); }
                }
                if h2.contains(x) {
                    let j = choose|j: int| 0 <= j < h2.len() && h2[j] == x;
                    assert(it.seq()[j] == x);
                    assert(it.seq().to_set().contains(x));
                }
                if exists|i: int| it.index() + 1 <= i < it.seq().len() && it.seq()[i] == x {
                    let i = choose|i: int| it.index() + 1 <= i < it.seq().len() && it.seq()[i] == x;
                    assert(it.seq().to_set().contains(x));
                }
            }
            assert(h2.no_duplicates()) by {
                assert forall|a: int, b: int| 0 <= a < h2.len() && 0 <= b < h2.len() && a != b implies h2[a] != h2[b] by {
                    assert(h2[a] == it.seq()[a] && h2[b] == it.seq()[b]);
                }
            }
        }
    //@ghost before `for conn_id in svc.subscribed_conn_ids()`
        let ghost mid2 = *self;
        let ghost mid2_state = *state;
        let ghost mut order1: Seq<&ConnectionId> = Seq::empty();
        proof {
            assert(order0.to_set() =~= svc.function_calls@);
            assert(mid2.calls() =~= old(self).calls().remove_keys(svc.function_calls@));
        }
    //@loop 1 it2
        invariant
            it2.seq().no_duplicates(),
            forall|c: ConnectionId| svc.is_subscriber(c) <==> visited(it2.seq(), c),
            order1 == it2.history(), order1.no_duplicates(),
            forall|c: ConnectionId| svc.is_subscriber(c) <==> (visited(order1, c) || exists|i: int| it2.index() <= i < it2.seq().len() && *it2.seq()[i] == c),
            self.conns@.dom() =~= mid2.conns@.dom(),
            self.inv_conns(),
            forall|c: ConnectionId| #![trigger self.conns@[c]] self.conns@.contains_key(c) ==> {
                &&& self.conns@[c].rest_eq2(&mid2.conns@[c], 3, 5)
                &&& forall|o: ServiceCookie| o != svc_cookie ==> self.conns@[c].ev(o) == mid2.conns@[c].ev(o)
                &&& self.conns@[c].ev(svc_cookie) == (if visited(it2.history(), c) { Set::<u32>::empty() } else { mid2.conns@[c].ev(svc_cookie) })
                &&& self.conns@[c].subscriptions@ == (if visited(it2.history(), c) { mid2.conns@[c].subscriptions@.remove(svc_cookie) } else { mid2.conns@[c].subscriptions@ })
            },
            self.function_calls == mid2.function_calls, self.obj_uuids == mid2.obj_uuids, self.objs == mid2.objs,
            self.svc_uuids == mid2.svc_uuids, self.svcs == mid2.svcs, self.same_rest(&mid2),
            state.services_destroyed@ == mid2_state.services_destroyed@ + service_destroyed_notes(it2.history(), old(self).conns@.dom(), svc_cookie),
            state.rest_eq(&mid2_state, 4),
    //@ghost loop-start 1
        proof {
            assert(it2.history() == it2.seq().take(it2.index()));
            assert(conn_id == it2.seq()[it2.index()]);
            assert(!visited(it2.history(), *conn_id)) by {
                if visited(it2.history(), *conn_id) {
                    let j = choose|j: int| 0 <= j < it2.history().len() && *it2.history()[j] == *conn_id;
                    assert(*it2.seq()[j] == *it2.seq()[it2.index()]);
                    assert(it2.seq()[j] == it2.seq()[it2.index()]);
                }
            }
        }
    //@ghost loop-end 1
        proof {
            let h = it2.history();
            let h2 = h.push(conn_id);
            assert(h2.drop_last() == h);
            assert(h2.last() == conn_id);
            reveal_with_fuel(service_destroyed_notes, 2);
            assert(it2.seq().take(it2.index() + 1) == h2);
            assert forall|c: ConnectionId| visited(h2, c) <==> (visited(h, c) || c == *conn_id) by {
                if visited(h2, c) {
                    let j = choose|j: int| 0 <= j < h2.len() && *h2[j] == c;
                    if j < h.len() { assert(*h[j] == c); }
                }
                if visited(h, c) {
                    let j = choose|j: int| 0 <= j < h.len() && *h[j] == c;
                    assert(*h2[j] == c);
                }
                if c == *conn_id { assert(*h2[h.len() as int] == c); }
            }
            order1 = h2;
            assert forall|c: ConnectionId| svc.is_subscriber(c) <==> (visited(h2, c) || exists|i: int| it2.index() + 1 <= i < it2.seq().len() && *it2.seq()[i] == c) by {
                if svc.is_subscriber(c) && !visited(h2, c) {
                    let i = choose|i: int| it2.index() <= i < it2.seq().len() && *it2.seq()[i] == c;
                    assert(i != it2.index());
                }
                if visited(h2, c) {
                    let j = choose|j: int| 0 <= j < h2.len() && *h2[j] == c;
                    assert(*it2.seq()[j] == c);
                }
                if exists|i: int| it2.index() + 1 <= i < it2.seq().len() && *it2.seq()[i] == c {
                    let i = choose|i: int| it2.index() + 1 <= i < it2.seq().len() && *it2.seq()[i] == c;
                    assert(visited(it2.seq(), c));
                }
            }
            assert(h2.no_duplicates()) by {
                assert forall|a: int, b: int| 0 <= a < h2.len() && 0 <= b < h2.len() && a != b implies h2[a] != h2[b] by {
                    assert(h2[a] == it2.seq()[a] && h2[b] == it2.seq()[b]);
                }
            }
        }
    //@end

    // ---- remove_object --------------------------------------------------------------------------------------
    //@fn broker/src/broker.rs Broker::remove_object attr=verifier::loop_isolation(false)
        requires
            old(self).reg_winv(), old(self).no_orphans(),
        ensures
            final(self).no_orphans(),
            final(self).same_rest(old(self)),
            final(self).conns@.dom() =~= old(self).conns@.dom(),
            // an unknown (stale) cookie: nothing happens
            !old(self).obj_uuids@.contains_key(obj_cookie) ==> {
                &&& final(self).same_registry(old(self))
                &&& final(self).calls() =~= old(self).calls()
                &&& final(self).conns@ =~= old(self).conns@
                &&& *final(state) == *old(state)
            },
            old(self).obj_uuids@.contains_key(obj_cookie) ==> {
                let u = old(self).obj_uuids@[obj_cookie];
                let owner = old(self).objs@[u].conn_id;
                // the object leaves both tables ...
                &&& final(self).obj_uuids@ =~= old(self).obj_uuids@.remove(obj_cookie)
                &&& final(self).objs@.dom() =~= old(self).objs@.dom().remove(u)
                &&& forall|u2: ObjectUuid| #![trigger final(self).objs@[u2]] final(self).objs@.contains_key(u2) ==> {
                        &&& final(self).objs@[u2].conn_id == old(self).objs@[u2].conn_id
                        &&& final(self).objs@[u2].cookie == old(self).objs@[u2].cookie
                        &&& final(self).objs@[u2].svcs@ == old(self).objs@[u2].svcs@
                    }
                // ... together with ALL its services and their pending calls, and nothing that belongs to another object
                &&& final(self).registry_without_object(old(self), u)
                // ... and its owner's list (if the owner is still connected); no other connection loses or gains an object
                &&& forall|c: ConnectionId| #![trigger final(self).conns@[c]] old(self).conns@.contains_key(c) ==> {
                        &&& final(self).conns@[c].objects@ == (if c == owner { old(self).conns@[c].objects@.remove(obj_cookie) }
                                                              else { old(self).conns@[c].objects@ })
                        &&& final(self).conns@[c].rest_eq3(&old(self).conns@[c], 2, 3, 5)
                        // subscriptions to services of other objects are untouched
                        &&& forall|o: ServiceCookie| !(old(self).svc_uuids@.contains_key(o) && old(self).svc_uuids@[o].0.uuid == u) ==>
                                final(self).conns@[c].ev(o) == old(self).conns@[c].ev(o)
                                && (final(self).conns@[c].subscriptions@.contains(o) <==> old(self).conns@[c].subscriptions@.contains(o))
                    }
                // queued work: one ObjectDestroyed bus event for exactly this object
                &&& final(state).destroy_object@ == old(state).destroy_object@.push(ObjectId { uuid: u, cookie: obj_cookie })
                &&& final(state).rest_eq_teardown(old(state))
            },
            // statistics: object and service counters follow their tables, the other counters are untouched
            old(self).stat_objects_ok() ==> final(self).stat_objects_ok(),
            old(self).stat_services_ok() ==> final(self).stat_services_ok(),
            final(self).statistics.num_connections == old(self).statistics.num_connections,
            final(self).statistics.num_channels == old(self).statistics.num_channels,
            final(self).statistics.num_bus_listeners == old(self).statistics.num_bus_listeners,
            // the invariant last (the frame facts above are then available), conjunct by conjunct (one query each
            // keeps the solver stable), then as a whole
            final(self).inv_objects(), final(self).inv_services(), final(self).inv_object_services(), final(self).inv_ownership(),
            final(self).inv_calls(), final(self).inv_callers(), final(self).inv_conns(), final(self).inv_subs(),
            final(self).reg_winv(),
    //@ghost before `for svc_cookie in obj.services()`
        let ghost u = obj_uuid;
        let ghost mid = *self;
        let ghost mut order: Seq<ServiceCookie> = Seq::empty();
        proof {
            assert(obj == old(self).objs@[u]);
            assert(mid.reg_winv());
        }
    //@ghost loop-start 0
        let ghost prev = *self;
        proof {
            assert(it.history() == it.seq().take(it.index()));
            assert(svc_cookie == it.seq()[it.index()]);
            lemma_iter_step(it.seq(), it.index());
            assert(it.seq().to_set().contains(svc_cookie));
            assert(old(self).svc_uuids@.contains_key(svc_cookie));
            assert(prev.svc_uuids@.contains_key(svc_cookie));
        }
    //@loop 0 it
        invariant
            it.seq().no_duplicates(), it.seq().to_set() == obj.svcs@,
            order == it.history(), order.no_duplicates(),
            forall|x: ServiceCookie| #![trigger obj.svcs@.contains(x)] obj.svcs@.contains(x) <==> (order.contains(x) || in_rest(it.seq(), it.index(), x)),
            self.reg_winv(),
            self.same_rest(&mid),
            self.obj_uuids@ =~= mid.obj_uuids@,
            self.objs@.dom() =~= mid.objs@.dom(),
            forall|u2: ObjectUuid| #![trigger self.objs@[u2]] self.objs@.contains_key(u2) ==> {
                &&& self.objs@[u2].conn_id == mid.objs@[u2].conn_id
                &&& self.objs@[u2].cookie == mid.objs@[u2].cookie
                &&& self.objs@[u2].svcs@ == mid.objs@[u2].svcs@
            },
            forall|sc: ServiceCookie| #![trigger self.svc_uuids@.contains_key(sc)] #![trigger mid.svc_uuids@.contains_key(sc)]
                (self.svc_uuids@.contains_key(sc) <==> mid.svc_uuids@.contains_key(sc) && !order.contains(sc))
                && (self.svc_uuids@.contains_key(sc) ==> self.svc_uuids@[sc] == mid.svc_uuids@[sc]),
            forall|k: (ObjectUuid, ServiceUuid)| #![trigger self.svcs@.contains_key(k)] #![trigger mid.svcs@.contains_key(k)]
                (self.svcs@.contains_key(k) <==> mid.svcs@.contains_key(k) && !order.contains(mid.svcs@[k].cookie))
                && (self.svcs@.contains_key(k) ==> self.svcs@[k] == mid.svcs@[k]),
            forall|s: u32| #![trigger self.calls().contains_key(s)] #![trigger mid.calls().contains_key(s)]
                (self.calls().contains_key(s) <==> mid.calls().contains_key(s)
                    && !order.contains(mid.svcs@[(mid.calls()[s].callee_obj, mid.calls()[s].callee_svc)].cookie))
                && (self.calls().contains_key(s) ==> self.calls()[s] == mid.calls()[s]),
            self.conns@.dom() =~= mid.conns@.dom(),
            forall|c: ConnectionId| #![trigger self.conns@[c]] self.conns@.contains_key(c) ==> {
                &&& self.conns@[c].rest_eq2(&mid.conns@[c], 3, 5)
                &&& forall|o: ServiceCookie| !(mid.svc_uuids@.contains_key(o) && mid.svc_uuids@[o].0.uuid == u) ==>
                        self.conns@[c].ev(o) == mid.conns@[c].ev(o)
                        && (self.conns@[c].subscriptions@.contains(o) <==> mid.conns@[c].subscriptions@.contains(o))
            },
            state.destroy_object@ == old(state).destroy_object@.push(ObjectId { uuid: u, cookie: obj_cookie }),
            state.rest_eq_teardown(old(state)),
            self.statistics.num_connections == old(self).statistics.num_connections,
            self.statistics.num_objects == old(self).statistics.num_objects,
            self.statistics.num_channels == old(self).statistics.num_channels,
            self.statistics.num_bus_listeners == old(self).statistics.num_bus_listeners,
            old(self).stat_services_ok() ==> self.stat_services_ok(),
    //@ghost loop-end 0
        proof {
            let h = it.history();
            let h2 = h.push(svc_cookie);
            assert(it.seq().take(it.index() + 1) == h2);
            order = h2;
            assert(self.svc_uuids@ =~= prev.svc_uuids@.remove(svc_cookie));
            assert(forall|x: ServiceCookie| h2.contains(x) <==> (h.contains(x) || x == svc_cookie));
            let k = prev.skey(svc_cookie);
            assert(prev.svcs@[k] == mid.svcs@[k]);
            assert forall|k2: (ObjectUuid, ServiceUuid)| mid.svcs@.contains_key(k2) && mid.svcs@[k2].cookie == svc_cookie implies k2 == k by {
                assert(mid.skey(mid.svcs@[k2].cookie) == k2);
            }
        }
    //@end

    // ---- create_object / destroy_object -------------------------------------------------------------------------
    // everything but the object tables and the owner's object list
    spec fn same_services_and_calls(&self, o: &Self) -> bool {
        &&& self.svc_uuids@ =~= o.svc_uuids@ &&& self.svcs@ =~= o.svcs@ &&& self.calls() =~= o.calls()
    }

    //@fn broker/src/broker.rs Broker::create_object
        requires
            old(self).reg_inv(),
        ensures
            final(self).same_rest(old(self)),
            final(self).same_services_and_calls(old(self)),
            final(self).conns@.dom() =~= old(self).conns@.dom(),
            // an object is created only for a connected requester and only if no live object has that UUID ...
            (!old(self).conns@.contains_key(*id) || old(self).objs@.contains_key(req.uuid)) ==> {
                &&& final(self).obj_uuids@ =~= old(self).obj_uuids@ &&& final(self).objs@ =~= old(self).objs@
                &&& final(self).conns@ =~= old(self).conns@
                &&& *final(state) == *old(state)
            },
            // ... otherwise either the reply could not be sent (the connection is dropped, nothing is created) ...
            (old(self).conns@.contains_key(*id) && !old(self).objs@.contains_key(req.uuid)) ==> {
                ||| (r is Err && final(self).obj_uuids@ =~= old(self).obj_uuids@ && final(self).objs@ =~= old(self).objs@
                        && final(self).conns@ =~= old(self).conns@ && *final(state) == *old(state))
                // ... or exactly one object with that UUID is registered under a cookie no live object uses, owned by the
                // requester, without services, and announced once
                ||| (r is Ok && exists|cookie: ObjectCookie| {
                        &&& !old(self).obj_uuids@.contains_key(cookie)
                        &&& final(self).obj_uuids@ =~= old(self).obj_uuids@.insert(cookie, req.uuid)
                        &&& final(self).objs@.dom() =~= old(self).objs@.dom().insert(req.uuid)
                        &&& final(self).objs@[req.uuid].conn_id == *id
                        &&& final(self).objs@[req.uuid].cookie == cookie
                        &&& final(self).objs@[req.uuid].svcs@ == Set::<ServiceCookie>::empty()
                        &&& forall|u: ObjectUuid| #![trigger final(self).objs@[u]] old(self).objs@.contains_key(u) ==> final(self).objs@[u] == old(self).objs@[u]
                        &&& forall|c: ConnectionId| #![trigger final(self).conns@[c]] old(self).conns@.contains_key(c) && c != *id ==> final(self).conns@[c] == old(self).conns@[c]
                        &&& final(self).conns@[*id].objects@ == old(self).conns@[*id].objects@.insert(cookie)
                        &&& final(self).conns@[*id].rest_eq(&old(self).conns@[*id], 2)
                        &&& final(state).create_object@ == old(state).create_object@.push(ObjectId { uuid: req.uuid, cookie })
                        &&& final(state).rest_eq(old(state), 7)
                    })
            },
            // statistics (exact below usize::MAX entries)
            old(self).stat_objects_ok() && old(self).objs@.len() < usize::MAX ==> final(self).stat_objects_ok(),
            final(self).statistics.num_connections == old(self).statistics.num_connections,
            final(self).statistics.num_services == old(self).statistics.num_services,
            final(self).statistics.num_channels == old(self).statistics.num_channels,
            final(self).statistics.num_bus_listeners == old(self).statistics.num_bus_listeners,
            // the invariant last (the frame facts above are then available), conjunct by conjunct (one query each
            // keeps the solver stable), then as a whole
            final(self).inv_objects(), final(self).inv_services(), final(self).inv_object_services(), final(self).inv_ownership(),
            final(self).inv_calls(), final(self).inv_callers(), final(self).inv_conns(), final(self).inv_subs(),
            final(self).reg_winv(), final(self).reg_inv(),
    //@ghost after `let cookie = ObjectCookie::new_v4();`
        // ASSUMPTION (random UUIDv4): the new cookie is not the cookie of a live object
        proof { assume(!self.obj_uuids@.contains_key(cookie)); }
    //@end

    //@fn broker/src/broker.rs Broker::destroy_object
        requires
            old(self).reg_inv(),
        ensures
            final(self).same_rest(old(self)),
            final(self).conns@.dom() =~= old(self).conns@.dom(),
            // only the owning connection can destroy an object: unknown requester, unknown cookie or foreign object => nothing
            !(old(self).conns@.contains_key(*id) && old(self).obj_uuids@.contains_key(req.cookie)
                && old(self).objs@[old(self).obj_uuids@[req.cookie]].conn_id == *id) ==> {
                &&& final(self).same_registry(old(self))
                &&& final(self).calls() =~= old(self).calls()
                &&& final(self).conns@ =~= old(self).conns@
                &&& *final(state) == *old(state)
            },
            // the owner's request: either the reply could not be sent (nothing happens, connection dropped) or the object is
            // gone together with all its services
            (old(self).conns@.contains_key(*id) && old(self).obj_uuids@.contains_key(req.cookie)
                && old(self).objs@[old(self).obj_uuids@[req.cookie]].conn_id == *id) ==> {
                ||| (r is Err && final(self).same_registry(old(self)) && final(self).calls() =~= old(self).calls()
                        && final(self).conns@ =~= old(self).conns@ && *final(state) == *old(state))
                ||| (r is Ok && {
                        let u = old(self).obj_uuids@[req.cookie];
                        &&& final(self).obj_uuids@ =~= old(self).obj_uuids@.remove(req.cookie)
                        &&& final(self).objs@.dom() =~= old(self).objs@.dom().remove(u)
                        &&& final(self).registry_without_object(old(self), u)
                        &&& final(self).conns@[*id].objects@ == old(self).conns@[*id].objects@.remove(req.cookie)
                        &&& final(state).destroy_object@ == old(state).destroy_object@.push(ObjectId { uuid: u, cookie: req.cookie })
                    })
            },
            old(self).stat_objects_ok() ==> final(self).stat_objects_ok(),
            old(self).stat_services_ok() ==> final(self).stat_services_ok(),
            final(self).statistics.num_connections == old(self).statistics.num_connections,
            final(self).statistics.num_channels == old(self).statistics.num_channels,
            final(self).statistics.num_bus_listeners == old(self).statistics.num_bus_listeners,
            // the invariant last (the frame facts above are then available), conjunct by conjunct (one query each
            // keeps the solver stable), then as a whole
            final(self).inv_objects(), final(self).inv_services(), final(self).inv_object_services(), final(self).inv_ownership(),
            final(self).inv_calls(), final(self).inv_callers(), final(self).inv_conns(), final(self).inv_subs(),
            final(self).reg_winv(), final(self).reg_inv(),
    //@ghost before `self.remove_object(state, req.cookie);`
        let ghost pre = *self;
    //@ghost after `self.remove_object(state, req.cookie);`
        proof {
            self.lemma_strong_preserved(&pre);
        }
    //@end

    // ---- create_service / create_service2 / destroy_service -------------------------------------------------------
    spec fn may_create_service(&self, id: &ConnectionId, oc: ObjectCookie, su: ServiceUuid) -> bool {
        &&& self.conns@.contains_key(*id)
        &&& self.obj_uuids@.contains_key(oc)
        &&& !self.svcs@.contains_key((self.obj_uuids@[oc], su))
        &&& self.objs@[self.obj_uuids@[oc]].conn_id == *id
    }

    // exactly one service `sc` was registered for object cookie `oc` under service uuid `su`; everything else is as in `o`
    spec fn service_created(&self, o: &Self, oc: ObjectCookie, su: ServiceUuid, sc: ServiceCookie) -> bool {
        let u = o.obj_uuids@[oc];
        &&& !o.svc_uuids@.contains_key(sc)
        &&& self.svc_uuids@.dom() =~= o.svc_uuids@.dom().insert(sc)
        &&& self.svc_uuids@[sc].0 == (ObjectId { uuid: u, cookie: oc })
        &&& self.svc_uuids@[sc].1 == su
        &&& forall|x: ServiceCookie| #![trigger self.svc_uuids@[x]] o.svc_uuids@.contains_key(x) ==> self.svc_uuids@[x] == o.svc_uuids@[x]
        &&& self.svcs@.dom() =~= o.svcs@.dom().insert((u, su))
        &&& self.svcs@[(u, su)].cookie == sc
        &&& self.svcs@[(u, su)].object_cookie == oc
        &&& self.svcs@[(u, su)].function_calls@ == Set::<u32>::empty()
        &&& self.svcs@[(u, su)].subscriptions@ == Set::<ConnectionId>::empty()
        &&& self.svcs@[(u, su)].all_events@ == Set::<ConnectionId>::empty()
        &&& forall|e: u32| self.svcs@[(u, su)].subs(e) == Set::<ConnectionId>::empty()
        &&& self.svcs@[(u, su)].inv()
        &&& forall|k: (ObjectUuid, ServiceUuid)| #![trigger self.svcs@[k]] o.svcs@.contains_key(k) ==> self.svcs@[k] == o.svcs@[k]
        &&& self.objs@.dom() =~= o.objs@.dom()
        &&& self.objs@[u].svcs@ == o.objs@[u].svcs@.insert(sc)
        &&& self.objs@[u].conn_id == o.objs@[u].conn_id
        &&& self.objs@[u].cookie == o.objs@[u].cookie
        &&& forall|u2: ObjectUuid| #![trigger self.objs@[u2]] o.objs@.contains_key(u2) && u2 != u ==> self.objs@[u2] == o.objs@[u2]
        &&& self.obj_uuids@ =~= o.obj_uuids@ &&& self.calls() =~= o.calls() &&& self.conns@ =~= o.conns@
    }

    // registering a service (as described by `service_created`) preserves the registry invariant. Proved on its own, away
    // from the handler bodies (create_service and create_service2 both end with a call to it).
    proof fn lemma_service_created(&self, o: &Self, id: &ConnectionId, oc: ObjectCookie, su: ServiceUuid, sc: ServiceCookie)
        requires
            o.reg_inv(), o.may_create_service(id, oc, su), self.service_created(o, oc, su, sc),
        ensures
            self.inv_objects(), self.inv_services(), self.inv_object_services(), self.inv_ownership(),
            self.inv_calls(), self.inv_callers(), self.inv_conns(), self.inv_subs(),
            self.reg_winv(), self.reg_inv(),
    {
        let u = o.obj_uuids@[oc];
        assert(self.inv_objects());
        assert(self.inv_services()) by {
            assert forall|x: ServiceCookie| self.svc_uuids@.contains_key(x) implies
                self.svcs@.contains_key(self.skey(x)) && self.svcs@[self.skey(x)].cookie == x
                && self.svcs@[self.skey(x)].object_cookie == self.svc_uuids@[x].0.cookie by {
                if x != sc { assert(o.svc_uuids@.contains_key(x)); assert(o.svcs@.contains_key(o.skey(x))); }
            }
            assert forall|k: (ObjectUuid, ServiceUuid)| self.svcs@.contains_key(k) implies
                self.svc_uuids@.contains_key(self.svcs@[k].cookie) && self.skey(self.svcs@[k].cookie) == k by {
                if k != (u, su) { assert(o.svcs@.contains_key(k)); assert(o.svc_uuids@.contains_key(o.svcs@[k].cookie)); }
            }
        }
        assert(self.inv_object_services()) by {
            assert forall|u2: ObjectUuid, x: ServiceCookie| self.objs@.contains_key(u2) && #[trigger] self.objs@[u2].svcs@.contains(x) implies
                self.svc_uuids@.contains_key(x) && self.svc_uuids@[x].0.uuid == u2 by {
                if x != sc { assert(o.objs@[u2].svcs@.contains(x)); }
            }
            assert forall|x: ServiceCookie| self.svc_uuids@.contains_key(x) && self.objs@.contains_key(self.svc_uuids@[x].0.uuid) implies
                self.objs@[self.svc_uuids@[x].0.uuid].svcs@.contains(x)
                && self.objs@[self.svc_uuids@[x].0.uuid].cookie == self.svc_uuids@[x].0.cookie by {
                if x != sc { assert(o.svc_uuids@.contains_key(x)); }
            }
        }
        assert(self.inv_ownership()) by {
            assert forall|u2: ObjectUuid| self.objs@.contains_key(u2) && self.conns@.contains_key(self.objs@[u2].conn_id) implies
                self.conns@[self.objs@[u2].conn_id].objects@.contains(self.objs@[u2].cookie) by {
                assert(o.objs@.contains_key(u2));
            }
        }
        assert(self.inv_calls()) by {
            assert forall|k: (ObjectUuid, ServiceUuid), s: u32| self.svcs@.contains_key(k) && #[trigger] self.svcs@[k].function_calls@.contains(s)
                implies self.calls().contains_key(s) && self.calls()[s].callee_obj == k.0 && self.calls()[s].callee_svc == k.1 by {
                if k != (u, su) { assert(o.svcs@.contains_key(k)); assert(o.svcs@[k].function_calls@.contains(s)); }
            }
            assert forall|s: u32| self.calls().contains_key(s) implies
                self.svcs@.contains_key((self.calls()[s].callee_obj, self.calls()[s].callee_svc))
                && self.svcs@[(self.calls()[s].callee_obj, self.calls()[s].callee_svc)].function_calls@.contains(s) by {
                assert(o.calls().contains_key(s));
                assert(o.svcs@.contains_key((o.calls()[s].callee_obj, o.calls()[s].callee_svc)));
            }
        }
        assert(self.inv_callers());
        assert(self.inv_conns());
        assert(self.inv_subs()) by {
            assert forall|k: (ObjectUuid, ServiceUuid)| self.svcs@.contains_key(k) implies self.svcs@[k].inv() by {
                if k != (u, su) { assert(o.svcs@.contains_key(k)); }
            }
            assert forall|k: (ObjectUuid, ServiceUuid), e: u32, c: ConnectionId| self.svcs@.contains_key(k) && #[trigger] self.svcs@[k].subs(e).contains(c)
                && self.conns@.contains_key(c) implies self.conns@[c].ev(self.svcs@[k].cookie).contains(e) by {
                if k != (u, su) { assert(o.svcs@.contains_key(k)); assert(o.svcs@[k].subs(e).contains(c)); }
            }
            assert forall|k: (ObjectUuid, ServiceUuid), c: ConnectionId| self.svcs@.contains_key(k) && #[trigger] self.svcs@[k].all_events@.contains(c)
                && self.conns@.contains_key(c) implies self.conns@[c].all_events@.contains(self.svcs@[k].cookie) by {
                if k != (u, su) { assert(o.svcs@.contains_key(k)); assert(o.svcs@[k].all_events@.contains(c)); }
            }
            assert forall|k: (ObjectUuid, ServiceUuid), c: ConnectionId| self.svcs@.contains_key(k) && #[trigger] self.svcs@[k].subscriptions@.contains(c)
                && self.conns@.contains_key(c) implies self.conns@[c].subscriptions@.contains(self.svcs@[k].cookie) by {
                if k != (u, su) { assert(o.svcs@.contains_key(k)); assert(o.svcs@[k].subscriptions@.contains(c)); }
            }
        }
        assert(self.reg_winv());
        assert(self.subscribers_connected()) by {
            assert forall|k: (ObjectUuid, ServiceUuid), e: u32, c: ConnectionId| self.svcs@.contains_key(k) && #[trigger] self.svcs@[k].subs(e).contains(c)
                implies self.conns@.contains_key(c) by {
                if k != (u, su) { assert(o.svcs@.contains_key(k)); assert(o.svcs@[k].subs(e).contains(c)); }
            }
            assert forall|k: (ObjectUuid, ServiceUuid), c: ConnectionId| self.svcs@.contains_key(k) && #[trigger] self.svcs@[k].all_events@.contains(c)
                implies self.conns@.contains_key(c) by {
                if k != (u, su) { assert(o.svcs@.contains_key(k)); assert(o.svcs@[k].all_events@.contains(c)); }
            }
            assert forall|k: (ObjectUuid, ServiceUuid), c: ConnectionId| self.svcs@.contains_key(k) && #[trigger] self.svcs@[k].subscriptions@.contains(c)
                implies self.conns@.contains_key(c) by {
                if k != (u, su) { assert(o.svcs@.contains_key(k)); assert(o.svcs@[k].subscriptions@.contains(c)); }
            }
        }
        assert forall|x: ServiceCookie| self.svc_uuids@.contains_key(x) implies self.objs@.contains_key(self.svc_uuids@[x].0.uuid) by {
            if x != sc { assert(o.svc_uuids@.contains_key(x)); }
        }
        assert forall|u2: ObjectUuid| self.objs@.contains_key(u2) implies self.conns@.contains_key(self.objs@[u2].conn_id) by {
            assert(o.objs@.contains_key(u2));
        }
    }


    //@fn broker/src/broker.rs Broker::create_service
        requires
            old(self).reg_inv(),
        ensures
            final(self).same_rest(old(self)),
            final(self).obj_uuids@ =~= old(self).obj_uuids@,
            final(self).calls() =~= old(self).calls(),
            final(self).conns@ =~= old(self).conns@,
            final(self).objs@.dom() =~= old(self).objs@.dom(),
            // a service is created only by the connected owner of a live object that has no live service with that UUID
            !old(self).may_create_service(id, req.object_cookie, req.uuid) ==> {
                &&& final(self).svc_uuids@ =~= old(self).svc_uuids@ &&& final(self).svcs@ =~= old(self).svcs@
                &&& final(self).objs@ =~= old(self).objs@
                &&& *final(state) == *old(state)
            },
            (old(self).may_create_service(id, req.object_cookie, req.uuid)) ==> {
                // either nothing is created (reply not sent / payload not decodable: the connection is dropped) ...
                ||| (r is Err && final(self).svc_uuids@ =~= old(self).svc_uuids@ && final(self).svcs@ =~= old(self).svcs@
                        && final(self).objs@ =~= old(self).objs@ && *final(state) == *old(state))
                // ... or exactly one service is registered under a cookie no live service uses, attached to that object
                ||| (r is Ok && exists|sc: ServiceCookie| #![trigger final(self).svc_uuids@.contains_key(sc)] {
                        let u = old(self).obj_uuids@[req.object_cookie];
                        &&& final(self).service_created(old(self), req.object_cookie, req.uuid, sc)
                        &&& final(state).create_service@ == old(state).create_service@.push(
                                ServiceId { object_id: ObjectId { uuid: u, cookie: req.object_cookie }, uuid: req.uuid, cookie: sc })
                        &&& final(state).rest_eq(old(state), 9)
                    })
            },
            // statistics (exact below usize::MAX entries)
            old(self).stat_services_ok() && old(self).svcs@.len() < usize::MAX ==> final(self).stat_services_ok(),
            final(self).statistics.num_connections == old(self).statistics.num_connections,
            final(self).statistics.num_objects == old(self).statistics.num_objects,
            final(self).statistics.num_channels == old(self).statistics.num_channels,
            final(self).statistics.num_bus_listeners == old(self).statistics.num_bus_listeners,
            // the invariant last (the frame facts above are then available), conjunct by conjunct (one query each
            // keeps the solver stable), then as a whole
            final(self).inv_objects(), final(self).inv_services(), final(self).inv_object_services(), final(self).inv_ownership(),
            final(self).inv_calls(), final(self).inv_callers(), final(self).inv_conns(), final(self).inv_subs(),
            final(self).reg_winv(), final(self).reg_inv(),
    //@ghost fn-tail
        proof {
            assert(self.service_created(old(self), req.object_cookie, req.uuid, svc_cookie));
            self.lemma_service_created(old(self), id, req.object_cookie, req.uuid, svc_cookie);
            assert(self.svc_uuids@.contains_key(svc_cookie));
        }
    //@ghost after `let svc_cookie = ServiceCookie::new_v4();`
        // ASSUMPTION (random UUIDv4): the new cookie is not the cookie of a live service
        proof { assume(!self.svc_uuids@.contains_key(svc_cookie)); }
    //@end

    //@fn broker/src/broker.rs Broker::create_service2
        requires
            old(self).reg_inv(),
        ensures
            final(self).same_rest(old(self)),
            final(self).obj_uuids@ =~= old(self).obj_uuids@,
            final(self).calls() =~= old(self).calls(),
            final(self).conns@ =~= old(self).conns@,
            final(self).objs@.dom() =~= old(self).objs@.dom(),
            // CreateService2 exists since protocol 1.17: a connection negotiated below that is closed and nothing happens
            (old(self).conns@.contains_key(*id) && ProtocolVersion::lex_cmp(old(self).conns@[*id].version, ProtocolVersion::V1_17) == core::cmp::Ordering::Less)
                ==> r is Err && final(self).svc_uuids@ =~= old(self).svc_uuids@ && final(self).svcs@ =~= old(self).svcs@ && final(self).objs@ =~= old(self).objs@ && *final(state) == *old(state),
            // a service is created only by the connected owner of a live object that has no live service with that UUID
            !old(self).may_create_service(id, req.object_cookie, req.uuid) ==> {
                &&& final(self).svc_uuids@ =~= old(self).svc_uuids@ &&& final(self).svcs@ =~= old(self).svcs@
                &&& final(self).objs@ =~= old(self).objs@
                &&& *final(state) == *old(state)
            },
            (old(self).may_create_service(id, req.object_cookie, req.uuid) && ProtocolVersion::lex_cmp(old(self).conns@[*id].version, ProtocolVersion::V1_17) != core::cmp::Ordering::Less) ==> {
                // either nothing is created (reply not sent / payload not decodable: the connection is dropped) ...
                ||| (r is Err && final(self).svc_uuids@ =~= old(self).svc_uuids@ && final(self).svcs@ =~= old(self).svcs@
                        && final(self).objs@ =~= old(self).objs@ && *final(state) == *old(state))
                // ... or exactly one service is registered under a cookie no live service uses, attached to that object
                ||| (r is Ok && exists|sc: ServiceCookie| #![trigger final(self).svc_uuids@.contains_key(sc)] {
                        let u = old(self).obj_uuids@[req.object_cookie];
                        &&& final(self).service_created(old(self), req.object_cookie, req.uuid, sc)
                        &&& final(state).create_service@ == old(state).create_service@.push(
                                ServiceId { object_id: ObjectId { uuid: u, cookie: req.object_cookie }, uuid: req.uuid, cookie: sc })
                        &&& final(state).rest_eq(old(state), 9)
                        // an owner below 1.18 cannot be sent SubscribeAllEvents: its service is recorded as NOT supporting
                        // all-events subscriptions, whatever its ServiceInfo claimed (so subscribe_all_events answers NotSupported)
                        &&& (ProtocolVersion::lex_cmp(old(self).conns@[*id].version, ProtocolVersion::V1_18) == core::cmp::Ordering::Less
                                ==> final(self).svc_uuids@[sc].2.spec_subscribe_all() == Some(false))
                    })
            },
            old(self).stat_services_ok() && old(self).svcs@.len() < usize::MAX ==> final(self).stat_services_ok(),
            final(self).statistics.num_connections == old(self).statistics.num_connections,
            final(self).statistics.num_objects == old(self).statistics.num_objects,
            final(self).statistics.num_channels == old(self).statistics.num_channels,
            final(self).statistics.num_bus_listeners == old(self).statistics.num_bus_listeners,
            // the invariant last (the frame facts above are then available), conjunct by conjunct (one query each
            // keeps the solver stable), then as a whole
            final(self).inv_objects(), final(self).inv_services(), final(self).inv_object_services(), final(self).inv_ownership(),
            final(self).inv_calls(), final(self).inv_callers(), final(self).inv_conns(), final(self).inv_subs(),
            final(self).reg_winv(), final(self).reg_inv(),
    //@ghost before#1/3 `return send!(`
        // the occupied entry is released unused: the table is what it was
        proof { assert(self.svcs@ =~= old(self).svcs@); }
    //@ghost fn-tail
        proof {
            assert(self.service_created(old(self), req.object_cookie, req.uuid, svc_cookie));
            self.lemma_service_created(old(self), id, req.object_cookie, req.uuid, svc_cookie);
            assert(self.svc_uuids@.contains_key(svc_cookie));
        }
    //@ghost after `let svc_cookie = ServiceCookie::new_v4();`
        // ASSUMPTION (random UUIDv4): the new cookie is not the cookie of a live service
        proof { assume(!self.svc_uuids@.contains_key(svc_cookie)); }
    //@end

    //@fn broker/src/broker.rs Broker::destroy_service
        requires
            old(self).reg_inv(),
        ensures
            final(self).same_rest(old(self)),
            final(self).conns@.dom() =~= old(self).conns@.dom(),
            final(self).obj_uuids@ =~= old(self).obj_uuids@,
            // only the connection owning the object can destroy one of its services
            !(old(self).conns@.contains_key(*id) && old(self).svc_uuids@.contains_key(req.cookie)
                && old(self).objs@[old(self).svc_uuids@[req.cookie].0.uuid].conn_id == *id) ==> {
                &&& final(self).same_registry(old(self))
                &&& final(self).calls() =~= old(self).calls()
                &&& final(self).conns@ =~= old(self).conns@
                &&& *final(state) == *old(state)
            },
            (old(self).conns@.contains_key(*id) && old(self).svc_uuids@.contains_key(req.cookie)
                && old(self).objs@[old(self).svc_uuids@[req.cookie].0.uuid].conn_id == *id) ==> {
                ||| (r is Err && final(self).same_registry(old(self)) && final(self).calls() =~= old(self).calls()
                        && final(self).conns@ =~= old(self).conns@ && *final(state) == *old(state))
                ||| (r is Ok && {
                        let k = old(self).skey(req.cookie);
                        &&& final(self).svc_uuids@ =~= old(self).svc_uuids@.remove(req.cookie)
                        &&& final(self).svcs@ =~= old(self).svcs@.remove(k)
                        &&& final(self).objs@[k.0].svcs@ == old(self).objs@[k.0].svcs@.remove(req.cookie)
                        &&& final(self).calls() =~= old(self).calls().remove_keys(old(self).svcs@[k].function_calls@)
                        &&& final(state).destroy_service@ == old(state).destroy_service@.push(
                                ServiceId { object_id: old(self).svc_uuids@[req.cookie].0, uuid: k.1, cookie: req.cookie })
                    })
            },
            old(self).stat_services_ok() ==> final(self).stat_services_ok(),
            final(self).statistics.num_connections == old(self).statistics.num_connections,
            final(self).statistics.num_objects == old(self).statistics.num_objects,
            final(self).statistics.num_channels == old(self).statistics.num_channels,
            final(self).statistics.num_bus_listeners == old(self).statistics.num_bus_listeners,
            // the invariant last (the frame facts above are then available), conjunct by conjunct (one query each
            // keeps the solver stable), then as a whole
            final(self).inv_objects(), final(self).inv_services(), final(self).inv_object_services(), final(self).inv_ownership(),
            final(self).inv_calls(), final(self).inv_callers(), final(self).inv_conns(), final(self).inv_subs(),
            final(self).reg_winv(), final(self).reg_inv(),
    //@ghost before `self.remove_service(state, req.cookie);`
        let ghost pre = *self;
    //@ghost after `self.remove_service(state, req.cookie);`
        proof {
            self.lemma_no_orphans_after_remove_service(&pre, req.cookie);
            self.lemma_strong_preserved(&pre);
        }
    //@end

    // ---- read-only requests ------------------------------------------------------------------------------------------
    //@fn broker/src/broker.rs Broker::query_service_version
        ensures
            final(self).unchanged(old(self)), final(self).stat_same(old(self)),
            !old(self).conns@.contains_key(*id) ==> r is Ok,
    //@end

    // 1.17 gate: an older connection using QueryServiceInfo is closed (Err); the table never changes
    //@fn broker/src/broker.rs Broker::query_service_info
        ensures
            final(self).unchanged(old(self)), final(self).stat_same(old(self)),
            !old(self).conns@.contains_key(*id) ==> r is Ok,
            (old(self).conns@.contains_key(*id) && ProtocolVersion::lex_cmp(old(self).conns@[*id].version, ProtocolVersion::V1_17) == core::cmp::Ordering::Less) ==> r is Err,
    //@end

    // the broker built WITHOUT the `introspection` feature (second definitions in the source): the 1.17 gate is still enforced, every
    // query is answered `Unavailable`, an introspection reply from a client is a protocol violation; no table changes
    //@fn broker/src/broker.rs Broker::register_introspection nth=1
        ensures
            !self.conns@.contains_key(*id) ==> r is Ok,
            self.conns@.contains_key(*id) ==> (r is Err) == (ProtocolVersion::lex_cmp(self.conns@[*id].version, ProtocolVersion::V1_17) == core::cmp::Ordering::Less),
    //@end

    //@fn broker/src/broker.rs Broker::query_introspection nth=1
        ensures
            final(self).unchanged(old(self)), final(self).stat_same(old(self)),
            !old(self).conns@.contains_key(*id) ==> r is Ok,
            (old(self).conns@.contains_key(*id) && ProtocolVersion::lex_cmp(old(self).conns@[*id].version, ProtocolVersion::V1_17) == core::cmp::Ordering::Less) ==> r is Err,
    //@end

    //@fn broker/src/broker.rs Broker::query_introspection_reply nth=1
        ensures
            final(self).unchanged(old(self)), final(self).stat_same(old(self)), r is Err,
    //@end

    //@fn broker/src/broker.rs Broker::sync
        ensures
            final(self).unchanged(old(self)), final(self).stat_same(old(self)),
            !old(self).conns@.contains_key(*id) ==> r is Ok,
    //@end
}

} // verus!

fn main() {}
