// unit: broker_handlers_registry   property: C03 (object/service registry: uniqueness, ownership, cascading destruction);
// C02 (pending calls of a destroyed service are answered InvalidService exactly once); C11 (the expect()s of these handlers)
// Registry handlers of broker/src/broker.rs verified against the CONTRACTS of Object, Service, ConnectionState, SerialMap
// and State (//@fn-from: verified in their leaf units), under a registry invariant over the broker's tables.
#![feature(allocator_api)]
use vstd::prelude::*;
use vstd::std_specs::hash::*;
use vstd::std_specs::cmp::*;
use std::collections::hash_map::{Entry, HashMap, OccupiedEntry};
use std::collections::HashSet;
use std::hash::{Hash, Hasher};
use std::mem;

verus! {

//@include _shared/handler_prelude_core.rs
//@include _shared/copy_iter.rs
opaque!(Channel);
opaque!(BusListener);

// ServiceInfo: opaque Copy value (core/src/service_info.rs); the registry only stores it and hands it out
#[verifier::external_body]
#[derive(Clone, Copy)]
pub struct ServiceInfo { _p: () }
impl ServiceInfo {
    #[verifier::external_body]
    pub fn new(version: u32) -> (r: Self) { unimplemented!() }
    #[verifier::external_body]
    pub fn set_subscribe_all(self, subscribe_all: bool) -> (r: Self) { unimplemented!() }
}
opaque!(DeserializeError);
impl SerializedValue {
    // decoding of the payload is the codec's business (C01/C07); here only success/failure matters
    #[verifier::external_body]
    pub fn deserialize<T>(&self) -> (r: Result<T, DeserializeError>) { unimplemented!() }
}

// Cookies are random version-4 UUIDs (core/src/ids/*_cookie.rs: Uuid::new_v4). No specification: that a new cookie differs
// from every live one is an ASSUMPTION stated at the creation sites below (see `assume(...)` in create_object/create_service).
impl ObjectCookie {
    #[verifier::external_body]
    pub fn new_v4() -> (r: Self) { unimplemented!() }
}
impl ServiceCookie {
    #[verifier::external_body]
    pub fn new_v4() -> (r: Self) { unimplemented!() }
}

// ---- ids and messages (real items) ------------------------------------------------------------------------
//@item core/src/ids/object_id.rs struct ObjectId attr=derive(Clone,Copy)
//@item core/src/ids/service_id.rs struct ServiceId attr=derive(Clone,Copy)
impl ObjectId {
    //@fn core/src/ids/object_id.rs ObjectId::new
        ensures r.uuid == uuid, r.cookie == cookie,
    //@end
}
impl ServiceId {
    //@fn core/src/ids/service_id.rs ServiceId::new
        ensures r.object_id == object_id, r.uuid == uuid, r.cookie == cookie,
    //@end
}

//@item core/src/message/call_function_reply.rs enum CallFunctionResult
//@item core/src/message/create_object.rs struct CreateObject
//@item core/src/message/create_object_reply.rs enum CreateObjectResult
//@item core/src/message/create_object_reply.rs struct CreateObjectReply
//@item core/src/message/destroy_object.rs struct DestroyObject
//@item core/src/message/destroy_object_reply.rs enum DestroyObjectResult
//@item core/src/message/destroy_object_reply.rs struct DestroyObjectReply
//@item core/src/message/create_service.rs struct CreateService
//@item core/src/message/create_service_reply.rs enum CreateServiceResult
//@item core/src/message/create_service_reply.rs struct CreateServiceReply
//@item core/src/message/destroy_service.rs struct DestroyService
//@item core/src/message/create_service2.rs struct CreateService2
//@item core/src/message/destroy_service_reply.rs enum DestroyServiceResult
//@item core/src/message/destroy_service_reply.rs struct DestroyServiceReply

impl IntoMessage for CreateObjectReply { open spec fn min_minor() -> u32 { 0 } }
impl IntoMessage for DestroyObjectReply { open spec fn min_minor() -> u32 { 0 } }
impl IntoMessage for CreateServiceReply { open spec fn min_minor() -> u32 { 0 } }
impl IntoMessage for DestroyServiceReply { open spec fn min_minor() -> u32 { 0 } }

// connection `c` is among the references `h`
pub open spec fn visited(h: Seq<&ConnectionId>, c: ConnectionId) -> bool {
    exists|j: int| 0 <= j < h.len() && *h[j] == c
}

// ---- callee structures: real structs, methods ASSUMED with the contracts verified in their leaf units ---------
//@item broker/src/broker/state.rs struct State
impl State {
    //@include _shared/state_specs.rs
    //@fn-from broker_state broker/src/broker/state.rs State::push_remove_conn
    //@fn-from broker_state broker/src/broker/state.rs State::push_remove_function_call
    //@fn-from broker_state broker/src/broker/state.rs State::push_services_destroyed
    //@fn-from broker_state broker/src/broker/state.rs State::push_create_object
    //@fn-from broker_state broker/src/broker/state.rs State::push_destroy_object
    //@fn-from broker_state broker/src/broker/state.rs State::push_create_service
    //@fn-from broker_state broker/src/broker/state.rs State::push_destroy_service
}

//@item broker/src/serial_map.rs struct SerialMap
impl<T> SerialMap<T> {
    //@fn-from broker_serial_map broker/src/serial_map.rs SerialMap::remove
}

//@item broker/src/broker/object.rs struct Object
impl Object {
    //@fn-from broker_object broker/src/broker/object.rs Object::new
    //@fn-from broker_object broker/src/broker/object.rs Object::conn_id
    //@fn-from broker_object broker/src/broker/object.rs Object::cookie
    //@fn-from broker_object broker/src/broker/object.rs Object::add_service
    //@fn-from broker_object broker/src/broker/object.rs Object::remove_service

    // `self.svcs.iter().copied()`: ASSUMED to enumerate the service set, each cookie once
    //@fn broker/src/broker/object.rs Object::services nobody iter
        ensures r.elems().no_duplicates(), r.elems().to_set() == self.svcs@,
    //@end
}

//@item broker/src/broker/service.rs struct Service
impl Service {
    //@include _shared/service_specs.rs
    //@fn-from broker_service broker/src/broker/service.rs Service::new
    //@fn-from broker_service broker/src/broker/service.rs Service::cookie
    //@fn-from broker_service broker/src/broker/service.rs Service::object_cookie

    // set of connections subscribed to one of the service's events or to the service itself
    spec fn is_subscriber(&self, k: ConnectionId) -> bool {
        self.subscriptions@.contains(k) || exists|e: u32| self.subs(e).contains(k)
    }

    // `self.function_calls.iter().copied()`: ASSUMED to enumerate the set of pending serials, each once
    //@fn broker/src/broker/service.rs Service::function_calls nobody iter
        ensures r.elems().no_duplicates(), r.elems().to_set() == self.function_calls@,
    //@end

    // collects the per-event subscribers and the service subscribers into a HashSet and iterates it (iterator adapters:
    // outside Verus). ASSUMED: enumerates that set of connections, each once.
    //@fn broker/src/broker/service.rs Service::subscribed_conn_ids nobody iter
        ensures r.elems().no_duplicates(),
            forall|k: ConnectionId| self.is_subscriber(k) <==> visited(r.elems(), k),
    //@end
}

//@item broker/src/broker/conn_state.rs struct ConnectionState
impl ConnectionState {
    //@include _shared/conn_state_specs.rs
    //@fn-from broker_conn_state broker/src/broker/conn_state.rs ConnectionState::version
    //@fn-from broker_conn_state broker/src/broker/conn_state.rs ConnectionState::add_object
    //@fn-from broker_conn_state broker/src/broker/conn_state.rs ConnectionState::remove_object
    //@fn-from broker_conn_state broker/src/broker/conn_state.rs ConnectionState::unsubscribe_all

    // sending only pushes into the connection's outgoing queue (interior mutability); no broker state changes.
    #[verifier::external_body]
    pub(crate) fn send(&self, msg: VersionedMessage) -> (r: Result<(), ()>)
        requires self.version.allows(msg.min_minor())
    { unimplemented!() }
}

// ---- Broker -------------------------------------------------------------------------------------------
//@item broker/src/broker.rs macro send
//@item broker/src/broker.rs struct PendingFunctionCall
//@item broker/src/broker.rs struct Broker

// the InvalidService replies queued for the pending calls `order` (in that order) of a destroyed service: one per call that
// has not been aborted (an aborted call was already answered with Aborted), addressed to the caller under its own serial
pub closed spec fn invalid_service_replies(order: Seq<u32>, calls: Map<u32, PendingFunctionCall>)
    -> Seq<(u32, ConnectionId, CallFunctionResult)>
    decreases order.len()
{
    if order.len() == 0 {
        Seq::empty()
    } else {
        let c = calls[order.last()];
        let rest = invalid_service_replies(order.drop_last(), calls);
        if c.aborted { rest } else { rest.push((c.caller_serial, c.caller_conn_id, CallFunctionResult::InvalidService)) }
    }
}

// the ServiceDestroyed notifications queued for the subscribed connections `order` that are (still) connected
pub closed spec fn service_destroyed_notes(order: Seq<&ConnectionId>, conns: Set<ConnectionId>, sc: ServiceCookie)
    -> Seq<(ConnectionId, ServiceCookie)>
    decreases order.len()
{
    if order.len() == 0 {
        Seq::empty()
    } else {
        let rest = service_destroyed_notes(order.drop_last(), conns, sc);
        if conns.contains(*order.last()) { rest.push((*order.last(), sc)) } else { rest }
    }
}

// one step of a loop over a duplicate-free sequence `q` that enumerates the set-like predicate `p`: bookkeeping facts about
// the visited prefix
pub open spec fn in_rest<T>(q: Seq<T>, from: int, x: T) -> bool {
    exists|i: int| from <= i < q.len() && q[i] == x
}

pub proof fn lemma_iter_step<T>(q: Seq<T>, idx: int)
    requires q.no_duplicates(), 0 <= idx < q.len(),
    ensures
        q.take(idx + 1) == q.take(idx).push(q[idx]),
        q.take(idx + 1).no_duplicates(),
        !q.take(idx).contains(q[idx]),
        forall|x: T| q.take(idx + 1).contains(x) <==> (q.take(idx).contains(x) || x == q[idx]),
        forall|x: T| #![trigger in_rest(q, idx, x)] #![trigger in_rest(q, idx + 1, x)] in_rest(q, idx, x) <==> (x == q[idx] || in_rest(q, idx + 1, x)),
        forall|x: T| #![trigger in_rest(q, idx, x)] in_rest(q, idx, x) ==> q.contains(x),
{
    let h = q.take(idx);
    let h2 = q.take(idx + 1);
    assert(h2 == h.push(q[idx]));
    assert(h2.no_duplicates()) by {
        assert forall|a: int, b: int| 0 <= a < h2.len() && 0 <= b < h2.len() && a != b implies h2[a] != h2[b] by {
            assert(h2[a] == q[a] && h2[b] == q[b]);
        }
    }
    if h.contains(q[idx]) {
        let j = choose|j: int| 0 <= j < h.len() && h[j] == q[idx];
        assert(q[j] == q[idx]);
    }
    assert forall|x: T| h2.contains(x) <==> (h.contains(x) || x == q[idx]) by {
        if h2.contains(x) {
            let j = choose|j: int| 0 <= j < h2.len() && h2[j] == x;
            if j < h.len() { assert(h[j] == x); }
        }
        if h.contains(x) {
            let j = choose|j: int| 0 <= j < h.len() && h[j] == x;
            assert(h2[j] == x);
        }
        if x == q[idx] { assert(h2[idx] == x); }
    }
    assert forall|x: T| in_rest(q, idx, x) implies q.contains(x) by {
        let i = choose|i: int| idx <= i < q.len() && q[i] == x;
        assert(q[i] == x);
    }
    assert forall|x: T| #![trigger in_rest(q, idx, x)] #![trigger in_rest(q, idx + 1, x)] in_rest(q, idx, x) <==> (x == q[idx] || in_rest(q, idx + 1, x)) by {
        if exists|i: int| idx <= i < q.len() && q[i] == x {
            let i = choose|i: int| idx <= i < q.len() && q[i] == x;
            if i != idx { assert(idx + 1 <= i < q.len() && q[i] == x); }
        }
        if x == q[idx] { assert(idx <= idx < q.len() && q[idx] == x); }
        if exists|i: int| idx + 1 <= i < q.len() && q[i] == x {
            let i = choose|i: int| idx + 1 <= i < q.len() && q[i] == x;
            assert(idx <= i < q.len() && q[i] == x);
        }
    }
}

impl Broker {
    #[verifier::inline]
    spec fn calls(&self) -> Map<u32, PendingFunctionCall> {
        self.function_calls.elems@
    }

    // table key of the service with cookie `sc`
    spec fn skey(&self, sc: ServiceCookie) -> (ObjectUuid, ServiceUuid) {
        (self.svc_uuids@[sc].0.uuid, self.svc_uuids@[sc].1)
    }

    // ---- registry invariant ------------------------------------------------------------------------------
    // (O) the object tables obj_uuids (cookie -> uuid) and objs (uuid -> Object) are inverse to each other: at most one live
    //     object per UUID (objs is a map) and per cookie
    spec fn inv_objects(&self) -> bool {
        &&& forall|c: ObjectCookie| #![trigger self.obj_uuids@[c]] self.obj_uuids@.contains_key(c) ==>
                self.objs@.contains_key(self.obj_uuids@[c]) && self.objs@[self.obj_uuids@[c]].cookie == c
        &&& forall|u: ObjectUuid| #![trigger self.objs@[u]] self.objs@.contains_key(u) ==>
                self.obj_uuids@.contains_key(self.objs@[u].cookie) && self.obj_uuids@[self.objs@[u].cookie] == u
    }

    // (S) the service tables svc_uuids (cookie -> ids) and svcs ((object uuid, service uuid) -> Service) are inverse to each
    //     other: at most one live service per (object, service UUID) and per cookie
    spec fn inv_services(&self) -> bool {
        &&& forall|sc: ServiceCookie| #![trigger self.svc_uuids@[sc]] self.svc_uuids@.contains_key(sc) ==> {
                &&& self.svcs@.contains_key(self.skey(sc))
                &&& self.svcs@[self.skey(sc)].cookie == sc
                &&& self.svcs@[self.skey(sc)].object_cookie == self.svc_uuids@[sc].0.cookie
            }
        &&& forall|k: (ObjectUuid, ServiceUuid)| #![trigger self.svcs@[k]] self.svcs@.contains_key(k) ==>
                self.svc_uuids@.contains_key(self.svcs@[k].cookie) && self.skey(self.svcs@[k].cookie) == k
    }

    // (OS) an object lists exactly the live services registered under it (while the object exists)
    spec fn inv_object_services(&self) -> bool {
        &&& forall|u: ObjectUuid, sc: ServiceCookie| #![trigger self.objs@[u].svcs@.contains(sc)]
                self.objs@.contains_key(u) && self.objs@[u].svcs@.contains(sc) ==>
                    self.svc_uuids@.contains_key(sc) && self.svc_uuids@[sc].0.uuid == u
        &&& forall|sc: ServiceCookie| #![trigger self.svc_uuids@[sc]]
                self.svc_uuids@.contains_key(sc) && self.objs@.contains_key(self.svc_uuids@[sc].0.uuid) ==> {
                    &&& self.objs@[self.svc_uuids@[sc].0.uuid].svcs@.contains(sc)
                    &&& self.objs@[self.svc_uuids@[sc].0.uuid].cookie == self.svc_uuids@[sc].0.cookie
                }
    }

    // (OWN) a connection lists exactly the objects it owns
    spec fn inv_ownership(&self) -> bool {
        &&& forall|k: ConnectionId, c: ObjectCookie| #![trigger self.conns@[k].objects@.contains(c)]
                self.conns@.contains_key(k) && self.conns@[k].objects@.contains(c) ==>
                    self.obj_uuids@.contains_key(c) && self.objs@[self.obj_uuids@[c]].conn_id == k
        &&& forall|u: ObjectUuid| #![trigger self.objs@[u]]
                self.objs@.contains_key(u) && self.conns@.contains_key(self.objs@[u].conn_id) ==>
                    self.conns@[self.objs@[u].conn_id].objects@.contains(self.objs@[u].cookie)
    }

    // (CALLS) pending calls and the per-service sets of pending serials describe the same relation
    spec fn inv_calls(&self) -> bool {
        &&& forall|s: u32| #![trigger self.calls()[s]] self.calls().contains_key(s) ==> {
                &&& self.svcs@.contains_key((self.calls()[s].callee_obj, self.calls()[s].callee_svc))
                &&& self.svcs@[(self.calls()[s].callee_obj, self.calls()[s].callee_svc)].function_calls@.contains(s)
            }
        &&& forall|k: (ObjectUuid, ServiceUuid), s: u32| #![trigger self.svcs@[k].function_calls@.contains(s)]
                self.svcs@.contains_key(k) && self.svcs@[k].function_calls@.contains(s) ==>
                    self.calls().contains_key(s) && self.calls()[s].callee_obj == k.0 && self.calls()[s].callee_svc == k.1
    }

    // (SUBS) subscriptions are mirrored: what a live service records about a connected subscriber, that connection records
    //        about the service; and every service satisfies its own representation invariant
    spec fn inv_subs(&self) -> bool {
        &&& forall|k: (ObjectUuid, ServiceUuid)| #![trigger self.svcs@[k]] self.svcs@.contains_key(k) ==> self.svcs@[k].inv()
        &&& forall|k: (ObjectUuid, ServiceUuid), e: u32, c: ConnectionId| #![trigger self.svcs@[k].subs(e).contains(c)]
                self.svcs@.contains_key(k) && self.svcs@[k].subs(e).contains(c) && self.conns@.contains_key(c) ==>
                    self.conns@[c].ev(self.svcs@[k].cookie).contains(e)
        &&& forall|k: (ObjectUuid, ServiceUuid), c: ConnectionId| #![trigger self.svcs@[k].all_events@.contains(c)]
                self.svcs@.contains_key(k) && self.svcs@[k].all_events@.contains(c) && self.conns@.contains_key(c) ==>
                    self.conns@[c].all_events@.contains(self.svcs@[k].cookie)
        &&& forall|k: (ObjectUuid, ServiceUuid), c: ConnectionId| #![trigger self.svcs@[k].subscriptions@.contains(c)]
                self.svcs@.contains_key(k) && self.svcs@[k].subscriptions@.contains(c) && self.conns@.contains_key(c) ==>
                    self.conns@[c].subscriptions@.contains(self.svcs@[k].cookie)
    }

    // every subscriber recorded by a live service is a connected client (between two requests)
    spec fn subscribers_connected(&self) -> bool {
        &&& forall|k: (ObjectUuid, ServiceUuid), e: u32, c: ConnectionId| #![trigger self.svcs@[k].subs(e).contains(c)]
                self.svcs@.contains_key(k) && self.svcs@[k].subs(e).contains(c) ==> self.conns@.contains_key(c)
        &&& forall|k: (ObjectUuid, ServiceUuid), c: ConnectionId| #![trigger self.svcs@[k].all_events@.contains(c)]
                self.svcs@.contains_key(k) && self.svcs@[k].all_events@.contains(c) ==> self.conns@.contains_key(c)
        &&& forall|k: (ObjectUuid, ServiceUuid), c: ConnectionId| #![trigger self.svcs@[k].subscriptions@.contains(c)]
                self.svcs@.contains_key(k) && self.svcs@[k].subscriptions@.contains(c) ==> self.conns@.contains_key(c)
    }

    // every connection's own representation invariant
    spec fn inv_conns(&self) -> bool {
        forall|k: ConnectionId| #![trigger self.conns@[k]] self.conns@.contains_key(k) ==> self.conns@[k].inv()
    }

    // The registry invariant in its WEAK form: services may be orphans (their object already gone) and objects may have a
    // disconnected owner. That is the state inside remove_object / shutdown_connection.
    spec fn reg_winv(&self) -> bool {
        &&& self.inv_objects() &&& self.inv_services() &&& self.inv_object_services() &&& self.inv_ownership()
        &&& self.inv_calls() &&& self.inv_conns() &&& self.inv_subs()
    }

    // service cookies whose object does not exist (any more)
    spec fn is_orphan(&self, sc: ServiceCookie) -> bool {
        self.svc_uuids@.contains_key(sc) && !self.objs@.contains_key(self.svc_uuids@[sc].0.uuid)
    }

    // The registry invariant between two requests: additionally no service is an orphan and every object's owner is connected.
    spec fn reg_inv(&self) -> bool {
        &&& self.reg_winv()
        &&& forall|sc: ServiceCookie| #![trigger self.svc_uuids@[sc]] self.svc_uuids@.contains_key(sc) ==>
                self.objs@.contains_key(self.svc_uuids@[sc].0.uuid)
        &&& forall|u: ObjectUuid| #![trigger self.objs@[u]] self.objs@.contains_key(u) ==>
                self.conns@.contains_key(self.objs@[u].conn_id)
        &&& self.subscribers_connected()
    }

    spec fn same_rest(&self, o: &Self) -> bool {
        &&& self.recv == o.recv &&& self.handle == o.handle
        &&& self.channels == o.channels &&& self.bus_listeners == o.bus_listeners
        &&& self.function_calls.next == o.function_calls.next
    }

    // the registry tables proper
    spec fn same_registry(&self, o: &Self) -> bool {
        &&& self.obj_uuids@ =~= o.obj_uuids@ &&& self.objs@ =~= o.objs@
        &&& self.svc_uuids@ =~= o.svc_uuids@ &&& self.svcs@ =~= o.svcs@
    }

    // no service is an orphan
    spec fn no_orphans(&self) -> bool {
        forall|sc: ServiceCookie| #![trigger self.svc_uuids@[sc]] self.svc_uuids@.contains_key(sc) ==>
            self.objs@.contains_key(self.svc_uuids@[sc].0.uuid)
    }

    // the registry restricted to everything that does not belong to object `u`: what remove_object leaves behind
    spec fn registry_without_object(&self, o: &Self, u: ObjectUuid) -> bool {
        &&& forall|sc: ServiceCookie| #![trigger self.svc_uuids@.contains_key(sc)] #![trigger o.svc_uuids@.contains_key(sc)]
                (self.svc_uuids@.contains_key(sc) <==> o.svc_uuids@.contains_key(sc) && o.svc_uuids@[sc].0.uuid != u)
                && (self.svc_uuids@.contains_key(sc) ==> self.svc_uuids@[sc] == o.svc_uuids@[sc])
        &&& forall|k: (ObjectUuid, ServiceUuid)| #![trigger self.svcs@.contains_key(k)] #![trigger o.svcs@.contains_key(k)]
                (self.svcs@.contains_key(k) <==> o.svcs@.contains_key(k) && k.0 != u)
                && (self.svcs@.contains_key(k) ==> self.svcs@[k] == o.svcs@[k])
        &&& forall|s: u32| #![trigger self.calls().contains_key(s)] #![trigger o.calls().contains_key(s)]
                (self.calls().contains_key(s) <==> o.calls().contains_key(s) && o.calls()[s].callee_obj != u)
                && (self.calls().contains_key(s) ==> self.calls()[s] == o.calls()[s])
    }

    // ---- remove_service -------------------------------------------------------------------------------------
    //@fn broker/src/broker.rs Broker::remove_service attr=verifier::loop_isolation(false)
        requires
            old(self).reg_winv(),
        ensures
            final(self).reg_winv(),
            final(self).same_rest(old(self)),
            final(self).conns@.dom() =~= old(self).conns@.dom(),
            final(self).obj_uuids@ =~= old(self).obj_uuids@,
            final(self).objs@.dom() =~= old(self).objs@.dom(),
            // an unknown (stale) cookie: nothing happens
            !old(self).svc_uuids@.contains_key(svc_cookie) ==> {
                &&& final(self).same_registry(old(self))
                &&& final(self).calls() =~= old(self).calls()
                &&& final(self).conns@ =~= old(self).conns@
                &&& *final(state) == *old(state)
            },
            old(self).svc_uuids@.contains_key(svc_cookie) ==> {
                let k = old(self).skey(svc_cookie);
                let ou = k.0;
                let svc = old(self).svcs@[k];
                // exactly this service leaves both tables ...
                &&& final(self).svc_uuids@ =~= old(self).svc_uuids@.remove(svc_cookie)
                &&& final(self).svcs@ =~= old(self).svcs@.remove(k)
                // ... and its object's list, no other object is touched
                &&& forall|u: ObjectUuid| #![trigger final(self).objs@[u]] old(self).objs@.contains_key(u) ==> {
                        &&& final(self).objs@[u].conn_id == old(self).objs@[u].conn_id
                        &&& final(self).objs@[u].cookie == old(self).objs@[u].cookie
                        &&& final(self).objs@[u].svcs@ == (if u == ou { old(self).objs@[u].svcs@.remove(svc_cookie) }
                                                         else { old(self).objs@[u].svcs@ })
                    }
                // its pending calls, and only those, are dropped from the call table ...
                &&& final(self).calls() =~= old(self).calls().remove_keys(svc.function_calls@)
                // ... no object is owned differently, no connection gains or loses an object or a pending call
                &&& forall|c: ConnectionId| #![trigger final(self).conns@[c]] old(self).conns@.contains_key(c) ==> {
                        &&& final(self).conns@[c].rest_eq2(&old(self).conns@[c], 3, 5)
                        // its subscriptions to this service end, all others stay
                        &&& final(self).conns@[c].ev(svc_cookie) == (if svc.is_subscriber(c) { Set::<u32>::empty() } else { old(self).conns@[c].ev(svc_cookie) })
                        &&& forall|o: ServiceCookie| o != svc_cookie ==> final(self).conns@[c].ev(o) == old(self).conns@[c].ev(o)
                        &&& final(self).conns@[c].subscriptions@ == (if svc.is_subscriber(c) { old(self).conns@[c].subscriptions@.remove(svc_cookie) } else { old(self).conns@[c].subscriptions@ })
                    }
                // queued work: one ServiceDestroyed bus event for exactly this service ...
                &&& final(state).destroy_service@ == old(state).destroy_service@.push(
                        ServiceId { object_id: old(self).svc_uuids@[svc_cookie].0, uuid: k.1, cookie: svc_cookie })
                // ... one InvalidService reply for every pending call of the service that was not aborted, and nothing else ...
                &&& exists|order: Seq<u32>| #![trigger invalid_service_replies(order, old(self).calls())]
                        order.no_duplicates() && order.to_set() == svc.function_calls@
                        && final(state).remove_function_calls@
                            == old(state).remove_function_calls@ + invalid_service_replies(order, old(self).calls())
                // ... one ServiceDestroyed notification for every connected subscriber
                &&& exists|order: Seq<&ConnectionId>| #![trigger service_destroyed_notes(order, old(self).conns@.dom(), svc_cookie)]
                        order.no_duplicates()
                        && (forall|c: ConnectionId| svc.is_subscriber(c) <==> visited(order, c))
                        && final(state).services_destroyed@
                            == old(state).services_destroyed@ + service_destroyed_notes(order, old(self).conns@.dom(), svc_cookie)
                &&& final(state).rest_eq3(old(state), 10, 3, 4)
            },
    //@ghost before `for serial in svc.function_calls()`
        let ghost k = (obj_id.uuid, svc_uuid);
        let ghost mid = *self;
        let ghost mid_state = *state;
        let ghost mut order0: Seq<u32> = Seq::empty();
        proof {
            assert(k == old(self).skey(svc_cookie));
            assert(svc == old(self).svcs@[k]);
        }
    //@loop 0 it
        invariant
            it.seq().no_duplicates(), it.seq().to_set() == svc.function_calls@,
            order0 == it.history(), order0.no_duplicates(),
            forall|x: u32| svc.function_calls@.contains(x) <==> (order0.contains(x) || exists|i: int| it.index() <= i < it.seq().len() && it.seq()[i] == x),
            self.calls() == old(self).calls().remove_keys(it.history().to_set()),
            self.function_calls.next == mid.function_calls.next,
            self.conns == mid.conns, self.obj_uuids == mid.obj_uuids, self.objs == mid.objs,
            self.svc_uuids == mid.svc_uuids, self.svcs == mid.svcs, self.same_rest(&mid),
            state.remove_function_calls@ == old(state).remove_function_calls@ + invalid_service_replies(it.history(), old(self).calls()),
            state.rest_eq(&mid_state, 3),
    //@ghost loop-start 0
        proof {
            assert(it.history() == it.seq().take(it.index()));
            assert(serial == it.seq()[it.index()]);
            assert(it.seq().to_set().contains(serial));
            assert(old(self).calls().contains_key(serial));
            assert(!it.history().to_set().contains(serial)) by {
                if it.history().to_set().contains(serial) {
                    let j = choose|j: int| 0 <= j < it.history().len() && it.history()[j] == serial;
                    assert(it.seq()[j] == it.seq()[it.index()]);
                }
            }
        }
    //@ghost loop-end 0
        proof {
            let h = it.history();
            let h2 = h.push(serial);
            assert(h2.drop_last() == h);
            assert(h2.last() == serial);
            reveal_with_fuel(invalid_service_replies, 2);
            assert(h2.to_set() == h.to_set().insert(serial)) by {
                assert forall|x: u32| h2.to_set().contains(x) <==> h.to_set().insert(serial).contains(x) by {
                    if h2.to_set().contains(x) {
                        let j = choose|j: int| 0 <= j < h2.len() && h2[j] == x;
                        if j < h.len() { assert(h[j] == x); }
                    }
                    if h.to_set().contains(x) {
                        let j = choose|j: int| 0 <= j < h.len() && h[j] == x;
                        assert(h2[j] == x);
                    }
                    if x == serial { assert(h2[h.len() as int] == x); }
                }
            }
            assert(old(self).calls().remove_keys(h.to_set()).remove(serial) == old(self).calls().remove_keys(h2.to_set()));
            assert(it.seq().take(it.index() + 1) == h2);
            order0 = h2;
            assert forall|x: u32| svc.function_calls@.contains(x) <==> (h2.contains(x) || exists|i: int| it.index() + 1 <= i < it.seq().len() && it.seq()[i] == x) by {
                if svc.function_calls@.contains(x) && !h2.contains(x) {
                    assert(!h.contains(x)) by { if h.contains(x) { let j = choose|j: int| 0 <= j < h.len() && h[j] == x; assert(h2[j] == x); } }
                    let i = choose|i: int| it.index() <= i < it.seq().len() && it.seq()[i] == x;
                    if i == it.index() { assert(h2[h.len() as int] == x); }
                }
                if h2.contains(x) {
                    let j = choose|j: int| 0 <= j < h2.len() && h2[j] == x;
                    assert(it.seq()[j] == x);
                    assert(it.seq().to_set().contains(x));
                }
                if exists|i: int| it.index() + 1 <= i < it.seq().len() && it.seq()[i] == x {
                    let i = choose|i: int| it.index() + 1 <= i < it.seq().len() && it.seq()[i] == x;
                    assert(it.seq().to_set().contains(x));
                }
            }
            assert(h2.no_duplicates()) by {
                assert forall|a: int, b: int| 0 <= a < h2.len() && 0 <= b < h2.len() && a != b implies h2[a] != h2[b] by {
                    assert(h2[a] == it.seq()[a] && h2[b] == it.seq()[b]);
                }
            }
        }
    //@ghost before `for conn_id in svc.subscribed_conn_ids()`
        let ghost mid2 = *self;
        let ghost mid2_state = *state;
        let ghost mut order1: Seq<&ConnectionId> = Seq::empty();
        proof {
            assert(order0.to_set() =~= svc.function_calls@);
            assert(mid2.calls() =~= old(self).calls().remove_keys(svc.function_calls@));
        }
    //@loop 1 it2
        invariant
            it2.seq().no_duplicates(),
            forall|c: ConnectionId| svc.is_subscriber(c) <==> visited(it2.seq(), c),
            order1 == it2.history(), order1.no_duplicates(),
            forall|c: ConnectionId| svc.is_subscriber(c) <==> (visited(order1, c) || exists|i: int| it2.index() <= i < it2.seq().len() && *it2.seq()[i] == c),
            self.conns@.dom() =~= mid2.conns@.dom(),
            self.inv_conns(),
            forall|c: ConnectionId| #![trigger self.conns@[c]] self.conns@.contains_key(c) ==> {
                &&& self.conns@[c].rest_eq2(&mid2.conns@[c], 3, 5)
                &&& forall|o: ServiceCookie| o != svc_cookie ==> self.conns@[c].ev(o) == mid2.conns@[c].ev(o)
                &&& self.conns@[c].ev(svc_cookie) == (if visited(it2.history(), c) { Set::<u32>::empty() } else { mid2.conns@[c].ev(svc_cookie) })
                &&& self.conns@[c].subscriptions@ == (if visited(it2.history(), c) { mid2.conns@[c].subscriptions@.remove(svc_cookie) } else { mid2.conns@[c].subscriptions@ })
            },
            self.function_calls == mid2.function_calls, self.obj_uuids == mid2.obj_uuids, self.objs == mid2.objs,
            self.svc_uuids == mid2.svc_uuids, self.svcs == mid2.svcs, self.same_rest(&mid2),
            state.services_destroyed@ == mid2_state.services_destroyed@ + service_destroyed_notes(it2.history(), old(self).conns@.dom(), svc_cookie),
            state.rest_eq(&mid2_state, 4),
    //@ghost loop-start 1
        proof {
            assert(it2.history() == it2.seq().take(it2.index()));
            assert(conn_id == it2.seq()[it2.index()]);
            assert(!visited(it2.history(), *conn_id)) by {
                if visited(it2.history(), *conn_id) {
                    let j = choose|j: int| 0 <= j < it2.history().len() && *it2.history()[j] == *conn_id;
                    assert(*it2.seq()[j] == *it2.seq()[it2.index()]);
                    assert(it2.seq()[j] == it2.seq()[it2.index()]);
                }
            }
        }
    //@ghost loop-end 1
        proof {
            let h = it2.history();
            let h2 = h.push(conn_id);
            assert(h2.drop_last() == h);
            assert(h2.last() == conn_id);
            reveal_with_fuel(service_destroyed_notes, 2);
            assert(it2.seq().take(it2.index() + 1) == h2);
            assert forall|c: ConnectionId| visited(h2, c) <==> (visited(h, c) || c == *conn_id) by {
                if visited(h2, c) {
                    let j = choose|j: int| 0 <= j < h2.len() && *h2[j] == c;
                    if j < h.len() { assert(*h[j] == c); }
                }
                if visited(h, c) {
                    let j = choose|j: int| 0 <= j < h.len() && *h[j] == c;
                    assert(*h2[j] == c);
                }
                if c == *conn_id { assert(*h2[h.len() as int] == c); }
            }
            order1 = h2;
            assert forall|c: ConnectionId| svc.is_subscriber(c) <==> (visited(h2, c) || exists|i: int| it2.index() + 1 <= i < it2.seq().len() && *it2.seq()[i] == c) by {
                if svc.is_subscriber(c) && !visited(h2, c) {
                    let i = choose|i: int| it2.index() <= i < it2.seq().len() && *it2.seq()[i] == c;
                    assert(i != it2.index());
                }
                if visited(h2, c) {
                    let j = choose|j: int| 0 <= j < h2.len() && *h2[j] == c;
                    assert(*it2.seq()[j] == c);
                }
                if exists|i: int| it2.index() + 1 <= i < it2.seq().len() && *it2.seq()[i] == c {
                    let i = choose|i: int| it2.index() + 1 <= i < it2.seq().len() && *it2.seq()[i] == c;
                    assert(visited(it2.seq(), c));
                }
            }
            assert(h2.no_duplicates()) by {
                assert forall|a: int, b: int| 0 <= a < h2.len() && 0 <= b < h2.len() && a != b implies h2[a] != h2[b] by {
                    assert(h2[a] == it2.seq()[a] && h2[b] == it2.seq()[b]);
                }
            }
        }
    //@end

    // ---- remove_object --------------------------------------------------------------------------------------
    //@fn broker/src/broker.rs Broker::remove_object attr=verifier::loop_isolation(false)
        requires
            old(self).reg_winv(), old(self).no_orphans(),
        ensures
            final(self).reg_winv(), final(self).no_orphans(),
            final(self).same_rest(old(self)),
            final(self).conns@.dom() =~= old(self).conns@.dom(),
            // an unknown (stale) cookie: nothing happens
            !old(self).obj_uuids@.contains_key(obj_cookie) ==> {
                &&& final(self).same_registry(old(self))
                &&& final(self).calls() =~= old(self).calls()
                &&& final(self).conns@ =~= old(self).conns@
                &&& *final(state) == *old(state)
            },
            old(self).obj_uuids@.contains_key(obj_cookie) ==> {
                let u = old(self).obj_uuids@[obj_cookie];
                let owner = old(self).objs@[u].conn_id;
                // the object leaves both tables ...
                &&& final(self).obj_uuids@ =~= old(self).obj_uuids@.remove(obj_cookie)
                &&& final(self).objs@.dom() =~= old(self).objs@.dom().remove(u)
                &&& forall|u2: ObjectUuid| #![trigger final(self).objs@[u2]] final(self).objs@.contains_key(u2) ==> {
                        &&& final(self).objs@[u2].conn_id == old(self).objs@[u2].conn_id
                        &&& final(self).objs@[u2].cookie == old(self).objs@[u2].cookie
                        &&& final(self).objs@[u2].svcs@ == old(self).objs@[u2].svcs@
                    }
                // ... together with ALL its services and their pending calls, and nothing that belongs to another object
                &&& final(self).registry_without_object(old(self), u)
                // ... and its owner's list (if the owner is still connected); no other connection loses or gains an object
                &&& forall|c: ConnectionId| #![trigger final(self).conns@[c]] old(self).conns@.contains_key(c) ==> {
                        &&& final(self).conns@[c].objects@ == (if c == owner { old(self).conns@[c].objects@.remove(obj_cookie) }
                                                              else { old(self).conns@[c].objects@ })
                        &&& final(self).conns@[c].rest_eq3(&old(self).conns@[c], 2, 3, 5)
                        // subscriptions to services of other objects are untouched
                        &&& forall|o: ServiceCookie| !(old(self).svc_uuids@.contains_key(o) && old(self).svc_uuids@[o].0.uuid == u) ==>
                                final(self).conns@[c].ev(o) == old(self).conns@[c].ev(o)
                                && (final(self).conns@[c].subscriptions@.contains(o) <==> old(self).conns@[c].subscriptions@.contains(o))
                    }
                // queued work: one ObjectDestroyed bus event for exactly this object
                &&& final(state).destroy_object@ == old(state).destroy_object@.push(ObjectId { uuid: u, cookie: obj_cookie })
                &&& final(state).rest_eq_teardown(old(state))
            },
    //@ghost before `for svc_cookie in obj.services()`
        let ghost u = obj_uuid;
        let ghost mid = *self;
        let ghost mut order: Seq<ServiceCookie> = Seq::empty();
        proof {
            assert(obj == old(self).objs@[u]);
            assert(mid.reg_winv());
        }
    //@ghost loop-start 0
        let ghost prev = *self;
        proof {
            assert(it.history() == it.seq().take(it.index()));
            assert(svc_cookie == it.seq()[it.index()]);
            lemma_iter_step(it.seq(), it.index());
            assert(it.seq().to_set().contains(svc_cookie));
            assert(old(self).svc_uuids@.contains_key(svc_cookie));
            assert(prev.svc_uuids@.contains_key(svc_cookie));
        }
    //@loop 0 it
        invariant
            it.seq().no_duplicates(), it.seq().to_set() == obj.svcs@,
            order == it.history(), order.no_duplicates(),
            forall|x: ServiceCookie| #![trigger obj.svcs@.contains(x)] obj.svcs@.contains(x) <==> (order.contains(x) || in_rest(it.seq(), it.index(), x)),
            self.reg_winv(),
            self.same_rest(&mid),
            self.obj_uuids@ =~= mid.obj_uuids@,
            self.objs@.dom() =~= mid.objs@.dom(),
            forall|u2: ObjectUuid| #![trigger self.objs@[u2]] self.objs@.contains_key(u2) ==> {
                &&& self.objs@[u2].conn_id == mid.objs@[u2].conn_id
                &&& self.objs@[u2].cookie == mid.objs@[u2].cookie
                &&& self.objs@[u2].svcs@ == mid.objs@[u2].svcs@
            },
            forall|sc: ServiceCookie| #![trigger self.svc_uuids@.contains_key(sc)] #![trigger mid.svc_uuids@.contains_key(sc)]
                (self.svc_uuids@.contains_key(sc) <==> mid.svc_uuids@.contains_key(sc) && !order.contains(sc))
                && (self.svc_uuids@.contains_key(sc) ==> self.svc_uuids@[sc] == mid.svc_uuids@[sc]),
            forall|k: (ObjectUuid, ServiceUuid)| #![trigger self.svcs@.contains_key(k)] #![trigger mid.svcs@.contains_key(k)]
                (self.svcs@.contains_key(k) <==> mid.svcs@.contains_key(k) && !order.contains(mid.svcs@[k].cookie))
                && (self.svcs@.contains_key(k) ==> self.svcs@[k] == mid.svcs@[k]),
            forall|s: u32| #![trigger self.calls().contains_key(s)] #![trigger mid.calls().contains_key(s)]
                (self.calls().contains_key(s) <==> mid.calls().contains_key(s)
                    && !order.contains(mid.svcs@[(mid.calls()[s].callee_obj, mid.calls()[s].callee_svc)].cookie))
                && (self.calls().contains_key(s) ==> self.calls()[s] == mid.calls()[s]),
            self.conns@.dom() =~= mid.conns@.dom(),
            forall|c: ConnectionId| #![trigger self.conns@[c]] self.conns@.contains_key(c) ==> {
                &&& self.conns@[c].rest_eq2(&mid.conns@[c], 3, 5)
                &&& forall|o: ServiceCookie| !(mid.svc_uuids@.contains_key(o) && mid.svc_uuids@[o].0.uuid == u) ==>
                        self.conns@[c].ev(o) == mid.conns@[c].ev(o)
                        && (self.conns@[c].subscriptions@.contains(o) <==> mid.conns@[c].subscriptions@.contains(o))
            },
            state.destroy_object@ == old(state).destroy_object@.push(ObjectId { uuid: u, cookie: obj_cookie }),
            state.rest_eq_teardown(old(state)),
    //@ghost loop-end 0
        proof {
            let h = it.history();
            let h2 = h.push(svc_cookie);
            assert(it.seq().take(it.index() + 1) == h2);
            order = h2;
            assert(self.svc_uuids@ =~= prev.svc_uuids@.remove(svc_cookie));
            assert(forall|x: ServiceCookie| h2.contains(x) <==> (h.contains(x) || x == svc_cookie));
            let k = prev.skey(svc_cookie);
            assert(prev.svcs@[k] == mid.svcs@[k]);
            assert forall|k2: (ObjectUuid, ServiceUuid)| mid.svcs@.contains_key(k2) && mid.svcs@[k2].cookie == svc_cookie implies k2 == k by {
                assert(mid.skey(mid.svcs@[k2].cookie) == k2);
            }
        }
    //@end

    // ---- create_object / destroy_object -------------------------------------------------------------------------
    // everything but the object tables and the owner's object list
    spec fn same_services_and_calls(&self, o: &Self) -> bool {
        &&& self.svc_uuids@ =~= o.svc_uuids@ &&& self.svcs@ =~= o.svcs@ &&& self.calls() =~= o.calls()
    }

    //@fn broker/src/broker.rs Broker::create_object
        requires
            old(self).reg_inv(),
        ensures
            final(self).reg_inv(),
            final(self).same_rest(old(self)),
            final(self).same_services_and_calls(old(self)),
            final(self).conns@.dom() =~= old(self).conns@.dom(),
            // an object is created only for a connected requester and only if no live object has that UUID ...
            (!old(self).conns@.contains_key(*id) || old(self).objs@.contains_key(req.uuid)) ==> {
                &&& final(self).obj_uuids@ =~= old(self).obj_uuids@ &&& final(self).objs@ =~= old(self).objs@
                &&& final(self).conns@ =~= old(self).conns@
                &&& *final(state) == *old(state)
            },
            // ... otherwise either the reply could not be sent (the connection is dropped, nothing is created) ...
            (old(self).conns@.contains_key(*id) && !old(self).objs@.contains_key(req.uuid)) ==> {
                ||| (r is Err && final(self).obj_uuids@ =~= old(self).obj_uuids@ && final(self).objs@ =~= old(self).objs@
                        && final(self).conns@ =~= old(self).conns@ && *final(state) == *old(state))
                // ... or exactly one object with that UUID is registered under a cookie no live object uses, owned by the
                // requester, without services, and announced once
                ||| (r is Ok && exists|cookie: ObjectCookie| {
                        &&& !old(self).obj_uuids@.contains_key(cookie)
                        &&& final(self).obj_uuids@ =~= old(self).obj_uuids@.insert(cookie, req.uuid)
                        &&& final(self).objs@.dom() =~= old(self).objs@.dom().insert(req.uuid)
                        &&& final(self).objs@[req.uuid].conn_id == *id
                        &&& final(self).objs@[req.uuid].cookie == cookie
                        &&& final(self).objs@[req.uuid].svcs@ == Set::<ServiceCookie>::empty()
                        &&& forall|u: ObjectUuid| #![trigger final(self).objs@[u]] old(self).objs@.contains_key(u) ==> final(self).objs@[u] == old(self).objs@[u]
                        &&& forall|c: ConnectionId| #![trigger final(self).conns@[c]] old(self).conns@.contains_key(c) && c != *id ==> final(self).conns@[c] == old(self).conns@[c]
                        &&& final(self).conns@[*id].objects@ == old(self).conns@[*id].objects@.insert(cookie)
                        &&& final(self).conns@[*id].rest_eq(&old(self).conns@[*id], 2)
                        &&& final(state).create_object@ == old(state).create_object@.push(ObjectId { uuid: req.uuid, cookie })
                        &&& final(state).rest_eq(old(state), 7)
                    })
            },
    //@ghost after `let cookie = ObjectCookie::new_v4();`
        // ASSUMPTION (random UUIDv4): the new cookie is not the cookie of a live object
        proof { assume(!self.obj_uuids@.contains_key(cookie)); }
    //@end

    //@fn broker/src/broker.rs Broker::destroy_object
        requires
            old(self).reg_inv(),
        ensures
            final(self).reg_inv(),
            final(self).same_rest(old(self)),
            final(self).conns@.dom() =~= old(self).conns@.dom(),
            // only the owning connection can destroy an object: unknown requester, unknown cookie or foreign object => nothing
            !(old(self).conns@.contains_key(*id) && old(self).obj_uuids@.contains_key(req.cookie)
                && old(self).objs@[old(self).obj_uuids@[req.cookie]].conn_id == *id) ==> {
                &&& final(self).same_registry(old(self))
                &&& final(self).calls() =~= old(self).calls()
                &&& final(self).conns@ =~= old(self).conns@
                &&& *final(state) == *old(state)
            },
            // the owner's request: either the reply could not be sent (nothing happens, connection dropped) or the object is
            // gone together with all its services
            (old(self).conns@.contains_key(*id) && old(self).obj_uuids@.contains_key(req.cookie)
                && old(self).objs@[old(self).obj_uuids@[req.cookie]].conn_id == *id) ==> {
                ||| (r is Err && final(self).same_registry(old(self)) && final(self).calls() =~= old(self).calls()
                        && final(self).conns@ =~= old(self).conns@ && *final(state) == *old(state))
                ||| (r is Ok && {
                        let u = old(self).obj_uuids@[req.cookie];
                        &&& final(self).obj_uuids@ =~= old(self).obj_uuids@.remove(req.cookie)
                        &&& final(self).objs@.dom() =~= old(self).objs@.dom().remove(u)
                        &&& final(self).registry_without_object(old(self), u)
                        &&& final(self).conns@[*id].objects@ == old(self).conns@[*id].objects@.remove(req.cookie)
                        &&& final(state).destroy_object@ == old(state).destroy_object@.push(ObjectId { uuid: u, cookie: req.cookie })
                    })
            },
    //@end

    // ---- create_service / create_service2 / destroy_service -------------------------------------------------------
    spec fn may_create_service(&self, id: &ConnectionId, oc: ObjectCookie, su: ServiceUuid) -> bool {
        &&& self.conns@.contains_key(*id)
        &&& self.obj_uuids@.contains_key(oc)
        &&& !self.svcs@.contains_key((self.obj_uuids@[oc], su))
        &&& self.objs@[self.obj_uuids@[oc]].conn_id == *id
    }

    //@fn broker/src/broker.rs Broker::create_service
        requires
            old(self).reg_inv(),
        ensures
            final(self).reg_inv(),
            final(self).same_rest(old(self)),
            final(self).obj_uuids@ =~= old(self).obj_uuids@,
            final(self).calls() =~= old(self).calls(),
            final(self).conns@ =~= old(self).conns@,
            final(self).objs@.dom() =~= old(self).objs@.dom(),
            // a service is created only by the connected owner of a live object that has no live service with that UUID
            !old(self).may_create_service(id, req.object_cookie, req.uuid) ==> {
                &&& final(self).svc_uuids@ =~= old(self).svc_uuids@ &&& final(self).svcs@ =~= old(self).svcs@
                &&& final(self).objs@ =~= old(self).objs@
                &&& *final(state) == *old(state)
            },
            (old(self).may_create_service(id, req.object_cookie, req.uuid)) ==> {
                // either nothing is created (reply not sent / payload not decodable: the connection is dropped) ...
                ||| (r is Err && final(self).svc_uuids@ =~= old(self).svc_uuids@ && final(self).svcs@ =~= old(self).svcs@
                        && final(self).objs@ =~= old(self).objs@ && *final(state) == *old(state))
                // ... or exactly one service is registered under a cookie no live service uses, attached to that object
                ||| (r is Ok && exists|sc: ServiceCookie| #![trigger final(self).svc_uuids@.contains_key(sc)] {
                        let u = old(self).obj_uuids@[req.object_cookie];
                        &&& !old(self).svc_uuids@.contains_key(sc)
                        &&& final(self).svc_uuids@.dom() =~= old(self).svc_uuids@.dom().insert(sc)
                        &&& final(self).svc_uuids@[sc].0 == (ObjectId { uuid: u, cookie: req.object_cookie })
                        &&& final(self).svc_uuids@[sc].1 == req.uuid
                        &&& forall|o: ServiceCookie| #![trigger final(self).svc_uuids@[o]] old(self).svc_uuids@.contains_key(o) ==> final(self).svc_uuids@[o] == old(self).svc_uuids@[o]
                        &&& final(self).svcs@.dom() =~= old(self).svcs@.dom().insert((u, req.uuid))
                        &&& final(self).svcs@[(u, req.uuid)].cookie == sc
                        &&& final(self).svcs@[(u, req.uuid)].object_cookie == req.object_cookie
                        &&& final(self).svcs@[(u, req.uuid)].function_calls@ == Set::<u32>::empty()
                        &&& final(self).svcs@[(u, req.uuid)].subscriptions@ == Set::<ConnectionId>::empty()
                        &&& final(self).svcs@[(u, req.uuid)].all_events@ == Set::<ConnectionId>::empty()
                        &&& forall|e: u32| final(self).svcs@[(u, req.uuid)].subs(e) == Set::<ConnectionId>::empty()
                        &&& forall|k: (ObjectUuid, ServiceUuid)| #![trigger final(self).svcs@[k]] old(self).svcs@.contains_key(k) ==> final(self).svcs@[k] == old(self).svcs@[k]
                        &&& final(self).objs@[u].svcs@ == old(self).objs@[u].svcs@.insert(sc)
                        &&& final(self).objs@[u].conn_id == old(self).objs@[u].conn_id
                        &&& final(self).objs@[u].cookie == old(self).objs@[u].cookie
                        &&& forall|u2: ObjectUuid| #![trigger final(self).objs@[u2]] old(self).objs@.contains_key(u2) && u2 != u ==> final(self).objs@[u2] == old(self).objs@[u2]
                        &&& final(state).create_service@ == old(state).create_service@.push(
                                ServiceId { object_id: ObjectId { uuid: u, cookie: req.object_cookie }, uuid: req.uuid, cookie: sc })
                        &&& final(state).rest_eq(old(state), 9)
                    })
            },
    //@ghost after `state.push_create_service(ServiceId::new(object_id, req.uuid, svc_cookie));`
        proof {
            let u = old(self).obj_uuids@[req.object_cookie];
            let sc = svc_cookie;
            assert(u == obj_uuid);
            assert(!old(self).svc_uuids@.contains_key(sc));
            assert(self.svc_uuids@.dom() =~= old(self).svc_uuids@.dom().insert(sc));
            assert(self.svc_uuids@[sc].0 == (ObjectId { uuid: u, cookie: req.object_cookie }));
            assert(self.svcs@.dom() =~= old(self).svcs@.dom().insert((u, req.uuid)));
            assert(self.svcs@[(u, req.uuid)].cookie == sc);
            assert(forall|e: u32| self.svcs@[(u, req.uuid)].subs(e) == Set::<ConnectionId>::empty());
            assert(self.objs@[u].svcs@ == old(self).objs@[u].svcs@.insert(sc));
            assert(forall|u2: ObjectUuid| #![trigger self.objs@[u2]] old(self).objs@.contains_key(u2) && u2 != u ==> self.objs@[u2] == old(self).objs@[u2]);
            assert(self.svc_uuids@.contains_key(sc));
        }
    //@ghost after `let svc_cookie = ServiceCookie::new_v4();`
        // ASSUMPTION (random UUIDv4): the new cookie is not the cookie of a live service
        proof { assume(!self.svc_uuids@.contains_key(svc_cookie)); }
    //@end

    //@fn broker/src/broker.rs Broker::create_service2
        requires
            old(self).reg_inv(),
        ensures
            final(self).reg_inv(),
            final(self).same_rest(old(self)),
            final(self).obj_uuids@ =~= old(self).obj_uuids@,
            final(self).calls() =~= old(self).calls(),
            final(self).conns@ =~= old(self).conns@,
            final(self).objs@.dom() =~= old(self).objs@.dom(),
            // CreateService2 exists since protocol 1.17: a connection negotiated below that is closed and nothing happens
            (old(self).conns@.contains_key(*id) && ProtocolVersion::lex_cmp(old(self).conns@[*id].version, ProtocolVersion::V1_17) == core::cmp::Ordering::Less)
                ==> r is Err && final(self).svc_uuids@ =~= old(self).svc_uuids@ && final(self).svcs@ =~= old(self).svcs@ && final(self).objs@ =~= old(self).objs@ && *final(state) == *old(state),
            // a service is created only by the connected owner of a live object that has no live service with that UUID
            !old(self).may_create_service(id, req.object_cookie, req.uuid) ==> {
                &&& final(self).svc_uuids@ =~= old(self).svc_uuids@ &&& final(self).svcs@ =~= old(self).svcs@
                &&& final(self).objs@ =~= old(self).objs@
                &&& *final(state) == *old(state)
            },
            (old(self).may_create_service(id, req.object_cookie, req.uuid) && ProtocolVersion::lex_cmp(old(self).conns@[*id].version, ProtocolVersion::V1_17) != core::cmp::Ordering::Less) ==> {
                // either nothing is created (reply not sent / payload not decodable: the connection is dropped) ...
                ||| (r is Err && final(self).svc_uuids@ =~= old(self).svc_uuids@ && final(self).svcs@ =~= old(self).svcs@
                        && final(self).objs@ =~= old(self).objs@ && *final(state) == *old(state))
                // ... or exactly one service is registered under a cookie no live service uses, attached to that object
                ||| (r is Ok && exists|sc: ServiceCookie| #![trigger final(self).svc_uuids@.contains_key(sc)] {
                        let u = old(self).obj_uuids@[req.object_cookie];
                        &&& !old(self).svc_uuids@.contains_key(sc)
                        &&& final(self).svc_uuids@.dom() =~= old(self).svc_uuids@.dom().insert(sc)
                        &&& final(self).svc_uuids@[sc].0 == (ObjectId { uuid: u, cookie: req.object_cookie })
                        &&& final(self).svc_uuids@[sc].1 == req.uuid
                        &&& forall|o: ServiceCookie| #![trigger final(self).svc_uuids@[o]] old(self).svc_uuids@.contains_key(o) ==> final(self).svc_uuids@[o] == old(self).svc_uuids@[o]
                        &&& final(self).svcs@.dom() =~= old(self).svcs@.dom().insert((u, req.uuid))
                        &&& final(self).svcs@[(u, req.uuid)].cookie == sc
                        &&& final(self).svcs@[(u, req.uuid)].object_cookie == req.object_cookie
                        &&& final(self).svcs@[(u, req.uuid)].function_calls@ == Set::<u32>::empty()
                        &&& final(self).svcs@[(u, req.uuid)].subscriptions@ == Set::<ConnectionId>::empty()
                        &&& final(self).svcs@[(u, req.uuid)].all_events@ == Set::<ConnectionId>::empty()
                        &&& forall|e: u32| final(self).svcs@[(u, req.uuid)].subs(e) == Set::<ConnectionId>::empty()
                        &&& forall|k: (ObjectUuid, ServiceUuid)| #![trigger final(self).svcs@[k]] old(self).svcs@.contains_key(k) ==> final(self).svcs@[k] == old(self).svcs@[k]
                        &&& final(self).objs@[u].svcs@ == old(self).objs@[u].svcs@.insert(sc)
                        &&& final(self).objs@[u].conn_id == old(self).objs@[u].conn_id
                        &&& final(self).objs@[u].cookie == old(self).objs@[u].cookie
                        &&& forall|u2: ObjectUuid| #![trigger final(self).objs@[u2]] old(self).objs@.contains_key(u2) && u2 != u ==> final(self).objs@[u2] == old(self).objs@[u2]
                        &&& final(state).create_service@ == old(state).create_service@.push(
                                ServiceId { object_id: ObjectId { uuid: u, cookie: req.object_cookie }, uuid: req.uuid, cookie: sc })
                        &&& final(state).rest_eq(old(state), 9)
                    })
            },
    //@ghost after `state.push_create_service(ServiceId::new(object_id, req.uuid, svc_cookie));`
        proof {
            let u = old(self).obj_uuids@[req.object_cookie];
            let sc = svc_cookie;
            assert(u == obj_uuid);
            assert(!old(self).svc_uuids@.contains_key(sc));
            assert(self.svc_uuids@.dom() =~= old(self).svc_uuids@.dom().insert(sc));
            assert(self.svc_uuids@[sc].0 == (ObjectId { uuid: u, cookie: req.object_cookie }));
            assert(self.svcs@.dom() =~= old(self).svcs@.dom().insert((u, req.uuid)));
            assert(self.svcs@[(u, req.uuid)].cookie == sc);
            assert(forall|e: u32| self.svcs@[(u, req.uuid)].subs(e) == Set::<ConnectionId>::empty());
            assert(self.objs@[u].svcs@ == old(self).objs@[u].svcs@.insert(sc));
            assert(forall|u2: ObjectUuid| #![trigger self.objs@[u2]] old(self).objs@.contains_key(u2) && u2 != u ==> self.objs@[u2] == old(self).objs@[u2]);
            assert(self.svc_uuids@.contains_key(sc));
        }
    //@ghost after `let svc_cookie = ServiceCookie::new_v4();`
        // ASSUMPTION (random UUIDv4): the new cookie is not the cookie of a live service
        proof { assume(!self.svc_uuids@.contains_key(svc_cookie)); }
    //@end

    //@fn broker/src/broker.rs Broker::destroy_service
        requires
            old(self).reg_inv(),
        ensures
            final(self).reg_inv(),
            final(self).same_rest(old(self)),
            final(self).conns@.dom() =~= old(self).conns@.dom(),
            final(self).obj_uuids@ =~= old(self).obj_uuids@,
            // only the connection owning the object can destroy one of its services
            !(old(self).conns@.contains_key(*id) && old(self).svc_uuids@.contains_key(req.cookie)
                && old(self).objs@[old(self).svc_uuids@[req.cookie].0.uuid].conn_id == *id) ==> {
                &&& final(self).same_registry(old(self))
                &&& final(self).calls() =~= old(self).calls()
                &&& final(self).conns@ =~= old(self).conns@
                &&& *final(state) == *old(state)
            },
            (old(self).conns@.contains_key(*id) && old(self).svc_uuids@.contains_key(req.cookie)
                && old(self).objs@[old(self).svc_uuids@[req.cookie].0.uuid].conn_id == *id) ==> {
                ||| (r is Err && final(self).same_registry(old(self)) && final(self).calls() =~= old(self).calls()
                        && final(self).conns@ =~= old(self).conns@ && *final(state) == *old(state))
                ||| (r is Ok && {
                        let k = old(self).skey(req.cookie);
                        &&& final(self).svc_uuids@ =~= old(self).svc_uuids@.remove(req.cookie)
                        &&& final(self).svcs@ =~= old(self).svcs@.remove(k)
                        &&& final(self).objs@[k.0].svcs@ == old(self).objs@[k.0].svcs@.remove(req.cookie)
                        &&& final(self).calls() =~= old(self).calls().remove_keys(old(self).svcs@[k].function_calls@)
                        &&& final(state).destroy_service@ == old(state).destroy_service@.push(
                                ServiceId { object_id: old(self).svc_uuids@[req.cookie].0, uuid: k.1, cookie: req.cookie })
                    })
            },
    //@end
}

} // verus!

fn main() {}
