// unit: client_channel_receiver   property: C05 (client receiver replenishment, aldrin/src/low_level/channel/established.rs:
// the client's mirror of the credit it has granted; when it runs low the receiver grants exactly the difference to its maximum)
use vstd::prelude::*;
use std::task::{Context, Poll};
use std::num::NonZeroU32;

verus! {

// ---- prelude (trusted base) -------------------------------------------------------------------
#[verifier::reject_recursive_types(T)]
#[verifier::external_type_specification]
pub struct ExPoll<T>(Poll<T>);
#[verifier::external_type_specification]
#[verifier::external_body]
pub struct ExContext<'a>(Context<'a>);

#[verifier::external_body]
pub struct SerializedValue { _p: () }

// futures_channel::mpsc::UnboundedReceiver: opaque; `poll_next_unpin` stands for `Pin::new(&mut self).poll_next(cx)` (N13)
pub mod mpsc {
    use super::*;
    #[verifier::external_body]
    #[verifier::reject_recursive_types(T)]
    pub struct UnboundedReceiver<T> { _p: core::marker::PhantomData<T> }
    impl<T> UnboundedReceiver<T> {
        #[verifier::external_body]
        pub fn poll_next_unpin(&mut self, cx: &mut Context) -> (r: Poll<Option<T>>) { unimplemented!() }
    }
}

// the channel end's connection to the client (aldrin/src/low_level/channel/raw.rs): opaque. `add_channel_capacity` sends an
// AddChannelCapacity message; a grant of 0 would be a protocol violation (the broker closes a receiver that grants nothing
// useful is not the point: the caller asserts diff >= 1), so it is a PRECONDITION here
#[verifier::external_body]
pub struct RawChannel<const SENDER: bool> { _p: () }
impl RawChannel<false> {
    #[verifier::external_body]
    pub(crate) fn add_channel_capacity(&self, capacity: u32)
        requires capacity >= 1,
    { unimplemented!() }
}

impl RawChannel<true> {
    #[verifier::external_body]
    pub(crate) fn send_item(&self, item: SerializedValue) -> (r: Result<(), Error>) { unimplemented!() }
}
#[verifier::external_body]
pub struct Error { _p: () }

// ---- extracted ---------------------------------------------------------------------------------
//@item aldrin/src/low_level/channel/established.rs const LOW_CAPACITY
//@item aldrin/src/low_level/channel/established.rs struct Receiver

//@item aldrin/src/low_level/channel/established.rs struct Sender

impl Sender {
    //@fn aldrin/src/low_level/channel/established.rs Sender::new
        ensures r.capacity == capacity,
    //@end

    // sending uses one unit of the credit announced to the sender -- only if the item was handed to the client; the documented
    // precondition (call send_ready first) is the function's debug_assert: the mirror never underflows
    //@fn aldrin/src/low_level/channel/established.rs Sender::start_send_serialized vis=crate
        requires old(self).capacity > 0,
        ensures
            r is Ok ==> final(self).capacity == old(self).capacity - 1,
            r is Err ==> final(self).capacity == old(self).capacity,
    //@end
}

impl Receiver {
    // the mirror of the granted credit stays within (0, max]
    spec fn inv(&self) -> bool { 0 < self.cur_capacity <= self.max_capacity.get() }

    //@fn aldrin/src/low_level/channel/established.rs Receiver::new
        ensures r.inv(), r.cur_capacity == max_capacity.get(), r.max_capacity == max_capacity,
    //@end

    // one item taken off the channel uses one unit of the granted credit; at or below the low-water mark the receiver grants
    // exactly `max - remaining` (at least 1, never more than max) and its mirror is back at the maximum -- so the sum of what was
    // granted and not yet used never exceeds max_capacity, and no arithmetic here can overflow or underflow
    //@fn aldrin/src/low_level/channel/established.rs Receiver::poll_next_serialized pin-poll-next vis=crate
        requires old(self).inv(),
        ensures
            final(self).inv(), final(self).max_capacity == old(self).max_capacity,
            !(r matches Poll::Ready(Some(_))) ==> final(self).cur_capacity == old(self).cur_capacity,
            r matches Poll::Ready(Some(_)) ==> final(self).cur_capacity ==
                (if old(self).cur_capacity - 1 <= LOW_CAPACITY { old(self).max_capacity.get() } else { (old(self).cur_capacity - 1) as u32 }),
    //@end
}

} // verus!

fn main() {}
