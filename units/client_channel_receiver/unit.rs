// unit: client_channel_receiver   property: C05 (client receiver replenishment, aldrin/src/low_level/channel/established.rs:
// the client's mirror of the credit it has granted; when it runs low the receiver grants exactly the difference to its maximum)
use vstd::prelude::*;
use std::task::{Context, Poll};
use std::num::NonZeroU32;

verus! {

// ---- prelude (trusted base) -------------------------------------------------------------------
#[verifier::reject_recursive_types(T)]
#[verifier::external_type_specification]
pub struct ExPoll<T>(Poll<T>);
#[verifier::external_type_specification]
#[verifier::external_body]
pub struct ExContext<'a>(Context<'a>);

#[verifier::external_body]
pub struct SerializedValue { _p: () }

// futures_channel::mpsc::UnboundedReceiver: opaque; `poll_next_unpin` stands for `Pin::new(&mut self).poll_next(cx)` (N13).
// GHOST HISTORY: `taken()` counts the items the stream has yielded so far.
pub mod mpsc {
    use super::*;
    #[verifier::external_body]
    #[verifier::reject_recursive_types(T)]
    pub struct UnboundedReceiver<T> { _p: core::marker::PhantomData<T> }
    impl<T> UnboundedReceiver<T> {
        pub uninterp spec fn taken(&self) -> nat;
        #[verifier::external_body]
        pub fn poll_next_unpin(&mut self, cx: &mut Context) -> (r: Poll<Option<T>>)
            ensures final(self).taken() == old(self).taken() + (if r matches Poll::Ready(Some(_)) { 1nat } else { 0nat }),
        { unimplemented!() }
    }
}

// the channel end's connection to the client (aldrin/src/low_level/channel/raw.rs): opaque. `add_channel_capacity` sends an
// AddChannelCapacity message. MODEL: the real method takes `&self` (its effect is a message to the broker); here it takes
// `&mut self` so that a GHOST HISTORY `granted()` -- the total credit granted through this end so far -- can record the call (the
// call site `self.inner.add_channel_capacity(diff)` type-checks against either signature). A grant of 0 is pointless and the caller
// asserts `diff >= 1`: PRECONDITION.
#[verifier::external_body]
pub struct RawChannel<const SENDER: bool> { _p: () }
impl RawChannel<false> {
    pub uninterp spec fn granted(&self) -> nat;
    #[verifier::external_body]
    pub(crate) fn add_channel_capacity(&mut self, capacity: u32)
        requires capacity >= 1,
        ensures final(self).granted() == old(self).granted() + capacity,
    { unimplemented!() }
}
impl RawChannel<true> {
    #[verifier::external_body]
    pub(crate) fn send_item(&self, item: SerializedValue) -> (r: Result<(), Error>) { unimplemented!() }
}
#[verifier::external_body]
pub struct Error { _p: () }

// ---- extracted ---------------------------------------------------------------------------------
//@item aldrin/src/low_level/channel/established.rs const LOW_CAPACITY
//@item aldrin/src/low_level/channel/established.rs struct Receiver

//@item aldrin/src/low_level/channel/established.rs struct Sender

impl Sender {
    //@fn aldrin/src/low_level/channel/established.rs Sender::new
        ensures r.capacity == capacity,
    //@end

    // sending uses one unit of the credit announced to the sender -- only if the item was handed to the client; the documented
    // precondition (call send_ready first) is the function's debug_assert: the mirror never underflows
    //@fn aldrin/src/low_level/channel/established.rs Sender::start_send_serialized vis=crate
        requires old(self).capacity > 0,
        ensures
            r is Ok ==> final(self).capacity == old(self).capacity - 1,
            r is Err ==> final(self).capacity == old(self).capacity,
    //@end
}

impl Receiver {
    // the mirror IS the outstanding credit: what was granted (the configured maximum at creation plus every later grant) minus
    // what has been taken off the channel -- and it stays within (0, max], so the credit a sender can hold never exceeds the
    // configured capacity and never runs dry while the receiver keeps polling
    spec fn inv(&self) -> bool {
        &&& 0 < self.cur_capacity <= self.max_capacity.get()
        &&& self.cur_capacity + self.items.taken() == self.max_capacity.get() + self.inner.granted()
    }

    //@fn aldrin/src/low_level/channel/established.rs Receiver::new
        requires items.taken() == 0, inner.granted() == 0,      // a freshly established channel
        ensures r.inv(), r.cur_capacity == max_capacity.get(), r.max_capacity == max_capacity,
    //@end

    // one item taken off the channel uses one unit of the granted credit; at or below the low-water mark the receiver grants
    // exactly `max - remaining` (at least 1, never more than max) and its mirror is back at the maximum; nothing is granted
    // otherwise (in particular not when no item was taken); no arithmetic here can overflow or underflow
    //@fn aldrin/src/low_level/channel/established.rs Receiver::poll_next_serialized pin-poll-next vis=crate
        requires old(self).inv(),
        ensures
            final(self).inv(), final(self).max_capacity == old(self).max_capacity,
            !(r matches Poll::Ready(Some(_))) ==> final(self).cur_capacity == old(self).cur_capacity
                && final(self).inner.granted() == old(self).inner.granted(),
            r matches Poll::Ready(Some(_)) ==> final(self).cur_capacity ==
                (if old(self).cur_capacity - 1 <= LOW_CAPACITY { old(self).max_capacity.get() } else { (old(self).cur_capacity - 1) as u32 }),
    //@end
}

} // verus!

fn main() {}
