// unit: client_function_call_map   (client-side leaf facts for C02: the client's table of its own pending calls, keyed by the
// caller serial it allocated -- aldrin/src/serial_map.rs and aldrin/src/function_call_map.rs)
#![feature(allocator_api)]
use vstd::prelude::*;
use vstd::std_specs::hash::*;
use std::collections::hash_map::{Entry, HashMap};
use std::hash::Hash;

verus! {

broadcast use vstd::std_specs::hash::group_hash_axioms;

//@include _shared/std_get_mut_spec.rs

// the oneshot sender through which the caller's future gets the reply (futures_channel): opaque
#[verifier::external_body]
pub struct ResultSender { _p: () }

//@item aldrin/src/serial_map.rs struct SerialMap

impl<T> SerialMap<T> {
    //@fn aldrin/src/serial_map.rs SerialMap::new
        ensures r.elems@ == Map::<u32, T>::empty(), r.next == 0,
    //@end

    //@include _shared/serial_map_specs.rs

    // `insert` hands out the FIRST serial at or after the counter that is not pending (cyclically): a serial is never handed
    // out while a call is still pending under it. Termination is not proved (all 2^32 serials pending).
    //@fn aldrin/src/serial_map.rs SerialMap::insert tail-loop attr=verifier::exec_allows_no_decreases_clause
        ensures
            !old(self).elems@.contains_key(r),
            final(self).elems@ =~= old(self).elems@.insert(r, obj),
            final(self).next == r.wrapping_add(1),
            forall|s: u32| #![trigger old(self).elems@.contains_key(s)] Self::between(old(self).next, r, s) ==> old(self).elems@.contains_key(s),
    //@ghost bare-loop 0
        invariant
            self.elems@ == old(self).elems@,
            forall|s: u32| #![trigger old(self).elems@.contains_key(s)] Self::between(old(self).next, self.next, s) ==> old(self).elems@.contains_key(s),
    //@end

    //@fn aldrin/src/serial_map.rs SerialMap::get_mut
        ensures
            match r {
                Some(v) => {
                    &&& old(self).elems@.contains_key(serial)
                    &&& *v == old(self).elems@[serial]
                    &&& final(self).elems@ =~= old(self).elems@.insert(serial, *final(v))
                    &&& final(self).next == old(self).next
                }
                None => !old(self).elems@.contains_key(serial) && final(self).elems@ == old(self).elems@
                    && final(self).next == old(self).next,
            },
    //@end

    //@fn aldrin/src/serial_map.rs SerialMap::remove
        ensures
            final(self).next == old(self).next,
            final(self).elems@ == old(self).elems@.remove(serial),
            match r {
                Some(v) => old(self).elems@.contains_key(serial) && v == old(self).elems@[serial],
                None => !old(self).elems@.contains_key(serial),
            },
    //@end
}

// ---- the client's pending calls: Pending(sender) until the reply arrives, Aborted after the caller gave up -----------------
//@item aldrin/src/function_call_map.rs enum State
//@item aldrin/src/function_call_map.rs struct FunctionCallMap

impl FunctionCallMap {
    spec fn view(&self) -> Map<u32, State> { self.inner.elems@ }

    //@fn aldrin/src/function_call_map.rs FunctionCallMap::new
        ensures r@ == Map::<u32, State>::empty(),
    //@end

    // a new call gets a serial under which nothing (neither a pending nor an aborted call) is recorded
    //@fn aldrin/src/function_call_map.rs FunctionCallMap::insert
        ensures
            !old(self)@.contains_key(r),
            final(self)@ =~= old(self)@.insert(r, State::Pending(sender)),
    //@end

    // a reply is delivered (the sender is handed out) exactly for a call that is pending and not aborted; in every case the
    // serial is free afterwards, so a duplicate reply finds nothing
    //@fn aldrin/src/function_call_map.rs FunctionCallMap::remove
        ensures
            final(self)@ == old(self)@.remove(serial),
            (r is Some) == (old(self)@.contains_key(serial) && old(self)@[serial] is Pending),
            r is Some ==> old(self)@[serial] == State::Pending(r->Some_0),
    //@end

    // aborting marks exactly that call; an unknown serial changes nothing
    //@fn aldrin/src/function_call_map.rs FunctionCallMap::abort
        ensures
            old(self)@.contains_key(serial) ==> final(self)@ =~= old(self)@.insert(serial, State::Aborted),
            !old(self)@.contains_key(serial) ==> final(self)@ == old(self)@,
    //@end
}

} // verus!

fn main() {}
