// unit: core_packetizer   property: C14 (byte-stream framing, core/src/message/packetizer.rs: whatever the chunking of the incoming
// byte stream, the packetizer hands out exactly the length-prefixed frames of the concatenated stream, in order, each only when it is
// complete). Verified against a byte-sequence model of bytes::BytesMut (assumed; the Kani harnesses of C14 run the real BytesMut on
// bounded streams).
use vstd::prelude::*;
use std::mem::MaybeUninit;

verus! {

// ---- prelude (trusted base): bytes::BytesMut as a sequence of bytes -------------------------------------------------------------
#[verifier::external_body]
pub struct BytesMut { _p: () }

impl View for BytesMut {
    type V = Seq<u8>;
    uninterp spec fn view(&self) -> Seq<u8>;
}

// little-endian u32 of the first four bytes
pub open spec fn u32_le(s: Seq<u8>) -> u32 {
    (s[0] as u32 | (s[1] as u32) << 8 | (s[2] as u32) << 16 | (s[3] as u32) << 24) as u32
}

impl BytesMut {
    #[verifier::external_body]
    pub fn new() -> (r: Self) ensures r@ == Seq::<u8>::empty() { unimplemented!() }
    #[verifier::external_body]
    pub fn len(&self) -> (r: usize) ensures r == self@.len() { unimplemented!() }
    #[verifier::external_body]
    pub fn extend_from_slice(&mut self, extend: &[u8]) ensures final(self)@ == old(self)@ + extend@ { unimplemented!() }
    // panics when `at > len`: PRECONDITION
    #[verifier::external_body]
    pub fn split_to(&mut self, at: usize) -> (r: BytesMut)
        requires at <= old(self)@.len(),
        ensures r@ == old(self)@.take(at as int), final(self)@ == old(self)@.skip(at as int),
    { unimplemented!() }
    // capacity model: `capacity() >= len()` always; `reserve(n)` makes room for at least n more bytes and keeps the content;
    // `spare_capacity_mut()` is the unused tail, `capacity() - len()` long; `set_len` (unsafe) requires the new length to be within
    // the capacity and keeps the old content as a prefix (the new bytes are whatever was written into the spare capacity)
    pub uninterp spec fn spec_capacity(&self) -> usize;
    #[verifier::external_body]
    pub fn capacity(&self) -> (r: usize) ensures r == self.spec_capacity(), r >= self@.len() { unimplemented!() }
    #[verifier::external_body]
    pub fn reserve(&mut self, additional: usize)
        ensures final(self)@ == old(self)@, final(self).spec_capacity() >= old(self)@.len() + additional,
            final(self).spec_capacity() >= old(self).spec_capacity(),
    { unimplemented!() }
    #[verifier::external_body]
    pub fn spare_capacity_mut(&mut self) -> (r: &mut [MaybeUninit<u8>])
        ensures r@.len() == old(self).spec_capacity() - old(self)@.len(), final(self)@ == old(self)@,
            final(self).spec_capacity() == old(self).spec_capacity(),
    { unimplemented!() }
    #[verifier::external_body]
    pub unsafe fn set_len(&mut self, len: usize)
        requires len <= old(self).spec_capacity(),
        ensures final(self)@.len() == len, final(self).spec_capacity() == old(self).spec_capacity(),
            len >= old(self)@.len() ==> final(self)@.take(old(self)@.len() as int) == old(self)@,
    { unimplemented!() }
    #[verifier::external_body]
    pub fn truncate(&mut self, len: usize)
        ensures final(self)@ == (if len <= old(self)@.len() { old(self)@.take(len as int) } else { old(self)@ }),
    { unimplemented!() }
}

// `<[T] as AsRef<[T]>>::as_ref` is the identity. ASSUMED (std).
pub assume_specification<T>[ <[T] as core::convert::AsRef<[T]>>::as_ref ](s: &[T]) -> (r: &[T])
    ensures r@ == s@;

// `&self.buf[..4]`: the first four bytes; slicing beyond the buffered bytes panics: PRECONDITION (vstd's IndexSpecImpl::index_req)
impl vstd::std_specs::core::IndexSpecImpl<core::ops::RangeTo<usize>> for BytesMut {
    open spec fn index_req(&self, index: &core::ops::RangeTo<usize>) -> bool { index.end <= self@.len() }
}
impl core::ops::Index<core::ops::RangeTo<usize>> for BytesMut {
    type Output = [u8];
    #[verifier::external_body]
    fn index(&self, r: core::ops::RangeTo<usize>) -> (out: &[u8])
        ensures out@ == self@.take(r.end as int),
    { unimplemented!() }
}

// bytes::Buf for &[u8]: get_u32_le reads four bytes little-endian (panics on fewer: PRECONDITION)
pub trait Buf {
    spec fn rem(&self) -> Seq<u8>;
    fn get_u32_le(&mut self) -> (r: u32)
        requires old(self).rem().len() >= 4,
        ensures r == u32_le(old(self).rem()), final(self).rem() == old(self).rem().skip(4);
}
impl Buf for &[u8] {
    open spec fn rem(&self) -> Seq<u8> { self@ }
    #[verifier::external_body]
    fn get_u32_le(&mut self) -> (r: u32) { unimplemented!() }
}

// ---- the framing of a byte stream, written from the property statement ---------------------------------------------------------
// the first complete frame of a stream and what follows it: a frame is `n` bytes long, `n` being the little-endian u32 in its first four
// bytes (the prefix counts itself); a prefix below 4 denotes a truncated frame of `n` bytes that still occupies the four prefix bytes
pub open spec fn first_frame(s: Seq<u8>) -> Option<(Seq<u8>, Seq<u8>)> {
    if s.len() < 4 {
        None
    } else {
        let n = u32_le(s) as int;
        if s.len() < n { None } else if n >= 4 { Some((s.take(n), s.skip(n))) } else { Some((s.take(n), s.skip(4))) }
    }
}

// all complete frames of a stream, in order, and the incomplete remainder
pub open spec fn frames(s: Seq<u8>) -> (Seq<Seq<u8>>, Seq<u8>)
    decreases s.len()
{
    match first_frame(s) {
        Some((f, rest)) => if rest.len() < s.len() { let (fs, tail) = frames(rest); (seq![f] + fs, tail) } else { (Seq::empty(), s) },
        None => (Seq::empty(), s),
    }
}

// a complete frame stays the same frame when more bytes arrive, and what follows it is extended by exactly those bytes: this is what
// makes the frames handed out independent of how the stream was cut into chunks
pub proof fn lemma_first_frame_append(s: Seq<u8>, t: Seq<u8>)
    ensures
        first_frame(s) matches Some((f, rest)) ==> first_frame(s + t) == Some((f, rest + t)),
{
    if first_frame(s) is Some {
        let n = u32_le(s) as int;
        assert((s + t).len() == s.len() + t.len());
        assert(u32_le(s + t) == u32_le(s));
        assert((s + t).take(n) =~= s.take(n));
        if n >= 4 { assert((s + t).skip(n) =~= s.skip(n) + t); } else { assert((s + t).skip(4) =~= s.skip(4) + t); }
    }
}

// CHUNKING DOES NOT MATTER: draining after `s`, then receiving `t` and draining again hands out, in total, exactly the frames of the
// concatenated stream `s + t`, and leaves the same incomplete remainder
pub proof fn lemma_frames_append(s: Seq<u8>, t: Seq<u8>)
    ensures
        frames(s + t).0 == frames(s).0 + frames(frames(s).1 + t).0,
        frames(s + t).1 == frames(frames(s).1 + t).1,
    decreases s.len()
{
    match first_frame(s) {
        Some((f, rest)) => {
            lemma_first_frame_append(s, t);
            if rest.len() < s.len() {
                assert((rest + t).len() < (s + t).len());
                lemma_frames_append(rest, t);
                let (fs, tail) = frames(rest);
                assert(frames(s).0 == seq![f] + fs);
                assert(frames(s + t).0 == seq![f] + frames(rest + t).0);
                assert(seq![f] + (fs + frames(tail + t).0) =~= (seq![f] + fs) + frames(tail + t).0);
            } else {
                // a zero-length "frame" of a stream shorter than ... cannot happen: rest is always shorter (n >= 4 or 4 bytes dropped)
                assert(false);
            }
        }
        None => {
            assert(frames(s).0 == Seq::<Seq<u8>>::empty());
            assert(frames(s).1 == s);
            assert(Seq::<Seq<u8>>::empty() + frames(s + t).0 =~= frames(s + t).0);
        }
    }
}

// ---- extracted ---------------------------------------------------------------------------------
//@item core/src/message/packetizer.rs const MIN_RESERVE_CAPACITY
//@item core/src/message/packetizer.rs const MAX_RESERVE_CAPACITY
//@item core/src/message/packetizer.rs struct Packetizer

impl Packetizer {
    //@fn core/src/message/packetizer.rs Packetizer::new vis=crate
        ensures r.buf@ == Seq::<u8>::empty(), r.len is None,
    //@end

    // the cached frame length, when present, is the length prefix of the buffered bytes
    spec fn inv(&self) -> bool {
        self.len matches Some(l) ==> self.buf@.len() >= 4 && l == u32_le(self.buf@) as usize
    }

    //@fn core/src/message/packetizer.rs Packetizer::extend_from_slice vis=crate
        requires old(self).inv(),
        ensures final(self).inv(), final(self).buf@ == old(self).buf@ + bytes@,
    //@end

    // the zero-copy input interface: the slice handed out for writing is never empty and the buffered bytes are untouched
    // no caller protocol is needed: whatever is buffered and cached, the slice is non-empty (before the fix recorded in
    // known-findings.txt this needed "no complete frame is waiting": with a cached length, that many bytes buffered and the capacity
    // exactly used up, neither branch reserved)
    //@fn core/src/message/packetizer.rs Packetizer::spare_capacity_mut vis=crate
        requires old(self).inv(),
        ensures r@.len() > 0, final(self).inv(), final(self).buf@ == old(self).buf@, final(self).len == old(self).len,
    //@end

    // (unsafe: the caller promises that `len` bytes of that slice were initialised, so `len` is within the spare capacity)
    //@fn core/src/message/packetizer.rs Packetizer::bytes_written vis=crate
        requires old(self).inv(), old(self).buf@.len() + len <= old(self).buf.spec_capacity(),
        ensures final(self).inv(), final(self).buf@.len() == old(self).buf@.len() + len,
            final(self).buf@.take(old(self).buf@.len() as int) == old(self).buf@, final(self).len == old(self).len,
    //@end

    //@fn core/src/message/packetizer.rs Packetizer::next_message vis=crate
        requires old(self).inv(),
        ensures
            final(self).inv(),
            match first_frame(old(self).buf@) {
                Some((frame, rest)) => r is Some && r->Some_0@ == frame && final(self).buf@ == rest,
                None => r is None && final(self).buf@ == old(self).buf@,
            },
    //@ghost before `let len = match self.len {`
        proof { assert(self.buf@.take(4).len() == 4); assert(u32_le(self.buf@.take(4)) == u32_le(self.buf@)); }
    //@end
}

} // verus!

fn main() {}
