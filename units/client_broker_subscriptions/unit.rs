// unit: client_broker_subscriptions   property: C04 (owner side: which events the broker asked this client to produce)
// verbatim aldrin/src/client/broker_subscriptions.rs except BrokerSubscriptions::emit (closure passed to Option::map).
#![feature(allocator_api)]
use vstd::prelude::*;
use vstd::std_specs::hash::*;
use std::collections::hash_map::{Entry, HashMap};
use std::collections::HashSet;
use std::hash::{Hash, Hasher};

verus! {

#[verifier::external_body]
#[derive(Clone, Copy)]
pub struct ServiceCookie { _p: () }
impl PartialEq for ServiceCookie {
    #[verifier::external_body]
    fn eq(&self, other: &Self) -> (r: bool) { unimplemented!() }
}
impl Eq for ServiceCookie {}
impl Hash for ServiceCookie {
    #[verifier::external_body]
    fn hash<H: Hasher>(&self, state: &mut H) { unimplemented!() }
}

//@include _shared/std_or_default_spec.rs

pub mod trusted {
    use super::*;
    pub broadcast axiom fn axiom_service_cookie_key_model() ensures #[trigger] obeys_key_model::<ServiceCookie>();
    // #[derive(Default)] on Service: empty event set, all_events == false. ASSUMED.
    pub(crate) broadcast axiom fn axiom_default_service(s: Service)
        ensures #[trigger] trusted_default::is_default(s) ==> s.events@ == Set::<u32>::empty() && !s.all_events;
}
broadcast use {
    trusted::axiom_service_cookie_key_model, trusted::axiom_default_service,
    vstd::std_specs::hash::group_hash_axioms,
};

// Default for Service (derived in the real code)
impl Default for Service {
    #[verifier::external_body]
    fn default() -> (r: Self) { unimplemented!() }
}

//@item aldrin/src/client/broker_subscriptions.rs struct BrokerSubscriptions
//@item aldrin/src/client/broker_subscriptions.rs struct Service

impl Service {
    // the client is to produce `event` of this service
    pub closed spec fn wants(&self, event: u32) -> bool {
        self.all_events || self.events@.contains(event)
    }

    //@fn aldrin/src/client/broker_subscriptions.rs Service::is_empty
        ensures r == (!self.all_events && self.events@.len() == 0),
    //@end
    //@fn aldrin/src/client/broker_subscriptions.rs Service::subscribe
        ensures final(self).events@ == old(self).events@.insert(event), final(self).all_events == old(self).all_events,
    //@end
    //@fn aldrin/src/client/broker_subscriptions.rs Service::unsubscribe
        ensures final(self).events@ == old(self).events@.remove(event), final(self).all_events == old(self).all_events,
    //@end
    //@fn aldrin/src/client/broker_subscriptions.rs Service::subscribe_all
        ensures final(self).all_events, final(self).events == old(self).events,
    //@end
    //@fn aldrin/src/client/broker_subscriptions.rs Service::unsubscribe_all
        ensures !final(self).all_events, final(self).events == old(self).events,
    //@end
    //@fn aldrin/src/client/broker_subscriptions.rs Service::emit
        ensures r == self.wants(event),
    //@end
}

impl BrokerSubscriptions {
    // the client is to produce `event` of `service`
    spec fn wants(&self, service: ServiceCookie, event: u32) -> bool {
        self.entries@.contains_key(service) && self.entries@[service].wants(event)
    }

    spec fn wants_all(&self, service: ServiceCookie) -> bool {
        self.entries@.contains_key(service) && self.entries@[service].all_events
    }

    // no entry is kept for a service nobody is subscribed to
    spec fn inv(&self) -> bool {
        forall|s: ServiceCookie| #![auto] self.entries@.contains_key(s)
            ==> self.entries@[s].all_events || self.entries@[s].events@.len() > 0
    }

    //@fn aldrin/src/client/broker_subscriptions.rs BrokerSubscriptions::new
        ensures r.inv(), forall|s: ServiceCookie, e: u32| !r.wants(s, e),
    //@end

    //@fn aldrin/src/client/broker_subscriptions.rs BrokerSubscriptions::subscribe
        requires old(self).inv(),
        ensures
            final(self).inv(),
            // told to start producing `event`: from now on it is produced; nothing else changes
            forall|s: ServiceCookie, e: u32| final(self).wants(s, e) == (old(self).wants(s, e) || (s == service && e == event)),
            forall|s: ServiceCookie| final(self).wants_all(s) == old(self).wants_all(s),
    //@end

    //@fn aldrin/src/client/broker_subscriptions.rs BrokerSubscriptions::unsubscribe
        requires old(self).inv(),
        ensures
            final(self).inv(),
            // told to stop producing `event`: it is produced only if all events of the service are still wanted
            forall|s: ServiceCookie, e: u32| final(self).wants(s, e)
                == (old(self).wants(s, e) && !(s == service && e == event && !old(self).wants_all(s))),
            forall|s: ServiceCookie| final(self).wants_all(s) == old(self).wants_all(s),
    //@end

    //@fn aldrin/src/client/broker_subscriptions.rs BrokerSubscriptions::subscribe_all
        requires old(self).inv(),
        ensures
            final(self).inv(),
            forall|s: ServiceCookie, e: u32| final(self).wants(s, e) == (old(self).wants(s, e) || s == service),
            forall|s: ServiceCookie| final(self).wants_all(s) == (old(self).wants_all(s) || s == service),
    //@end

    //@fn aldrin/src/client/broker_subscriptions.rs BrokerSubscriptions::unsubscribe_all
        requires old(self).inv(),
        ensures
            final(self).inv(),
            // individually requested events of the service stay requested
            forall|s: ServiceCookie, e: u32| final(self).wants(s, e)
                == (if s == service { old(self).entries@.contains_key(s) && old(self).entries@[s].events@.contains(e) } else { old(self).wants(s, e) }),
            forall|s: ServiceCookie| final(self).wants_all(s) == (old(self).wants_all(s) && s != service),
    //@end

    // the client produces an event exactly when the broker told it to (that event, or all events of the service)
    // (`.map(|entry| entry.emit(event))` inlined by normalisation N11)
    //@fn aldrin/src/client/broker_subscriptions.rs BrokerSubscriptions::emit option-map
        ensures r == self.wants(service, event),
    //@end

    //@fn aldrin/src/client/broker_subscriptions.rs BrokerSubscriptions::remove_service
        requires old(self).inv(),
        ensures
            final(self).inv(),
            forall|s: ServiceCookie, e: u32| final(self).wants(s, e) == (old(self).wants(s, e) && s != service),
    //@end
}

} // verus!

fn main() {}
