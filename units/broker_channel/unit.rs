// unit: broker_channel      property: C05 (credit accounting, end state machine); also C11 (panic-freedom of channel.rs)
// Everything between //@item / //@fn ... //@end directives is copied from /repo on every run.
// Hand-written text in this file: the ConnectionId prelude (trusted), spec functions, contracts, lemmas.
use vstd::prelude::*;
use vstd::std_specs::cmp::*;
use std::mem;

verus! {

// ---- prelude (trusted base) -------------------------------------------------------------------
// ConnectionId is an opaque handle (Arc<..Mutex<Inner>> in broker/src/conn_id.rs); its PartialEq compares
// the numeric id and Clone preserves it. ASSUMED.
#[verifier::external_body]
pub struct ConnectionId { _p: () }

impl ConnectionId {
    pub uninterp spec fn id(&self) -> int;
}

impl PartialEqSpecImpl for ConnectionId {
    open spec fn obeys_eq_spec() -> bool { true }
    open spec fn eq_spec(&self, other: &Self) -> bool { self.id() == other.id() }
}

impl PartialEq for ConnectionId {
    #[verifier::external_body]
    fn eq(&self, other: &Self) -> (r: bool) { unimplemented!() }
}

impl Clone for ConnectionId {
    #[verifier::external_body]
    fn clone(&self) -> (r: Self)
        ensures r.id() == self.id()
    { unimplemented!() }
}

pub assume_specification<T>[ std::mem::replace::<T> ](dest: &mut T, src: T) -> (r: T)
    ensures *final(dest) == src, r == *old(dest);

// ---- extracted from aldrin-core -----------------------------------------------------------------
//@item core/src/channel_end.rs enum ChannelEnd
//@item core/src/message/close_channel_end_reply.rs enum CloseChannelEndResult
//@item core/src/message/claim_channel_end_reply.rs enum ClaimChannelEndResult

// ---- extracted from broker/src/broker/channel.rs (whole file) --------------------------------------
//@item broker/src/broker/channel.rs const LOW_CAPACITY
//@item broker/src/broker/channel.rs struct Channel
//@item broker/src/broker/channel.rs enum ChannelEndState
//@item broker/src/broker/channel.rs enum SendItemError
//@item broker/src/broker/channel.rs struct AddCapacityError

//@include _shared/channel_specs.rs

impl Channel {
    //@fn broker/src/broker/channel.rs Channel::with_claimed_sender
        ensures
            r.inv(), r.live(),
            r.sender.claimed_by(owner.id()), r.sender.cap() == 0,
            r.receiver is Unclaimed,
    //@end

    //@fn broker/src/broker/channel.rs Channel::with_claimed_receiver
        ensures
            r.inv(), r.live(),
            r.receiver.claimed_by(owner.id()), r.receiver.cap() == capacity,
            r.sender is Unclaimed,
    //@end

    //@fn broker/src/broker/channel.rs Channel::check_close
        ensures
            // only its owner, or anyone if unclaimed, can close it
            (self.end_state(end) is Unclaimed) ==> r.0 == CloseChannelEndResult::Ok && r.1 == false,
            self.end_state(end).claimed_by(conn_id.id()) ==> r.0 == CloseChannelEndResult::Ok && r.1 == true,
            (self.end_state(end) is Claimed && !self.end_state(end).claimed_by(conn_id.id()))
                ==> r.0 == CloseChannelEndResult::ForeignChannel && r.1 == true,
            (self.end_state(end) is Closed) ==> r.0 == CloseChannelEndResult::InvalidChannel && r.1 == false,
    //@end

    //@fn broker/src/broker/channel.rs Channel::close
        requires
            old(self).inv(), old(self).live(),
            !(old(self).end_state(end) is Closed),
        ensures
            final(self).inv(),
            final(self).end_state(end) is Closed,
            final(self).other_state(end) == old(self).other_state(end),
            // the peer is told iff it holds the other end
            (old(self).other_state(end) is Claimed) <==> (r is Some),
            r is Some ==> r->Some_0.id() == old(self).other_state(end).owner_id(),
            // the broker removes the channel exactly when nobody is left
            (r is None) <==> !final(self).live(),
    //@end

    //@fn broker/src/broker/channel.rs Channel::claim_sender
        requires
            old(self).inv(), old(self).live(),
        ensures
            final(self).inv(), final(self).live(),
            // an end can be claimed once
            (old(self).sender is Unclaimed) <==> (r is Ok),
            (old(self).sender is Claimed) <==> (r == Err::<(&ConnectionId, u32), _>(ClaimChannelEndResult::AlreadyClaimed)),
            (old(self).sender is Closed) <==> (r == Err::<(&ConnectionId, u32), _>(ClaimChannelEndResult::InvalidChannel)),
            r is Err ==> *final(self) == *old(self),
            r is Ok ==> {
                &&& final(self).sender.claimed_by(conn_id.id())
                &&& final(self).sender.cap() == old(self).receiver.cap()
                &&& final(self).receiver == old(self).receiver
                &&& r->Ok_0.0.id() == old(self).receiver.owner_id()
                &&& r->Ok_0.1 == old(self).receiver.cap()
            },
    //@end

    //@fn broker/src/broker/channel.rs Channel::claim_receiver
        requires
            old(self).inv(), old(self).live(),
        ensures
            final(self).inv(), final(self).live(),
            (old(self).receiver is Unclaimed) <==> (r is Ok),
            (old(self).receiver is Claimed) <==> (r == Err::<&ConnectionId, _>(ClaimChannelEndResult::AlreadyClaimed)),
            (old(self).receiver is Closed) <==> (r == Err::<&ConnectionId, _>(ClaimChannelEndResult::InvalidChannel)),
            r is Err ==> *final(self) == *old(self),
            r is Ok ==> {
                &&& final(self).receiver.claimed_by(conn_id.id())
                &&& final(self).receiver.cap() == capacity
                &&& final(self).sender is Claimed
                &&& final(self).sender.owner_id() == old(self).sender.owner_id()
                &&& final(self).sender.cap() == capacity
                &&& r->Ok_0.id() == old(self).sender.owner_id()
            },
    //@end

    //@fn broker/src/broker/channel.rs Channel::send_item
        requires
            old(self).inv(),
        ensures
            final(self).inv(),
            // error classification
            !old(self).sender.claimed_by(conn_id.id()) <==> r == Err::<(&ConnectionId, Option<u32>), _>(SendItemError::InvalidSender),
            (old(self).sender.claimed_by(conn_id.id()) && old(self).receiver is Unclaimed)
                <==> r == Err::<(&ConnectionId, Option<u32>), _>(SendItemError::ReceiverUnclaimed),
            (old(self).sender.claimed_by(conn_id.id()) && old(self).receiver is Closed)
                <==> r == Err::<(&ConnectionId, Option<u32>), _>(SendItemError::ReceiverClosed),
            // a sender within its announced capacity is never cut off; one beyond it is
            (old(self).sender.claimed_by(conn_id.id()) && old(self).receiver is Claimed && old(self).sender.cap() == 0)
                <==> r == Err::<(&ConnectionId, Option<u32>), _>(SendItemError::CapacityExhausted),
            // errors leave the channel untouched
            r is Err ==> *final(self) == *old(self),
            r is Ok ==> {
                &&& old(self).sender.cap() > 0
                // never forwards more than granted: receiver credit is consumed one per item, cannot go below 0
                &&& final(self).receiver.cap() == old(self).receiver.cap() - 1
                &&& final(self).receiver.claimed_by(old(self).receiver.owner_id())
                &&& final(self).sender.claimed_by(conn_id.id())
                // the item goes to the receiver's owner
                &&& r->Ok_0.0.id() == old(self).receiver.owner_id()
                // sender ledger: credit = old - 1 + replenishment, replenishment reported iff > 0
                &&& (r->Ok_0.1 is None ==> final(self).sender.cap() == old(self).sender.cap() - 1)
                &&& (r->Ok_0.1 is Some ==> {
                        &&& r->Ok_0.1.unwrap() > 0
                        &&& final(self).sender.cap() == old(self).sender.cap() - 1 + r->Ok_0.1.unwrap()
                    })
                // a sender that would otherwise be left without credit while the receiver still has some MUST be
                // replenished (it stays within what was announced to it, so it must not get stuck or be cut off)
                &&& ((old(self).sender.cap() - 1 == 0 && old(self).receiver.cap() - 1 > 0) ==> r->Ok_0.1 is Some)
                // and credit is never announced beyond what the receiver granted
                &&& final(self).sender.cap() <= final(self).receiver.cap()
            },
    //@end

    //@fn broker/src/broker/channel.rs Channel::add_capacity
        requires
            old(self).inv(),
        ensures
            final(self).inv(),
            // a grant that would overflow is rejected and touches nothing
            (capacity > 0 && old(self).receiver.claimed_by(conn_id.id())
                && old(self).receiver.cap() + capacity > u32::MAX) <==> r is Err,
            r is Err ==> *final(self) == *old(self),
            // ignored grants (zero, foreign, unclaimed/closed receiver) change nothing
            (capacity == 0 || !old(self).receiver.claimed_by(conn_id.id()))
                ==> (*final(self) == *old(self) && r == Ok::<Option<(&ConnectionId, u32)>, AddCapacityError>(None)),
            // accepted grant
            (capacity > 0 && old(self).receiver.claimed_by(conn_id.id()) && r is Ok) ==> {
                &&& final(self).receiver.claimed_by(conn_id.id())
                &&& final(self).receiver.cap() == old(self).receiver.cap() + capacity
                &&& (old(self).sender is Claimed) == (final(self).sender is Claimed)
                &&& (old(self).sender is Unclaimed) == (final(self).sender is Unclaimed)
                &&& (old(self).sender is Closed) == (final(self).sender is Closed)
                &&& final(self).sender.owner_id() == old(self).sender.owner_id()
            },
            (r is Ok && r->Ok_0 is None) ==> final(self).sender.cap() == old(self).sender.cap(),
            (r is Ok && r->Ok_0 is Some) ==> {
                &&& old(self).sender is Claimed
                &&& r->Ok_0.unwrap().0.id() == old(self).sender.owner_id()
                &&& r->Ok_0.unwrap().1 > 0
                &&& final(self).sender.cap() == old(self).sender.cap() + r->Ok_0.unwrap().1
                &&& final(self).sender.cap() == final(self).receiver.cap()
            },
            // a sender that had no credit left is told about an accepted grant
            (capacity > 0 && old(self).receiver.claimed_by(conn_id.id()) && r is Ok && old(self).sender is Claimed
                && old(self).sender.cap() == 0) ==> r->Ok_0 is Some,
    //@end
}

// ---- witnesses: the invariant and every precondition are satisfiable (vacuity guard) ---------------
proof fn witness_states(a: ConnectionId, b: ConnectionId)
{
    let c1 = Channel { sender: ChannelEndState::Claimed { owner: a, capacity: 5 },
                       receiver: ChannelEndState::Claimed { owner: b, capacity: 9 } };
    assert(c1.inv() && c1.live());
    let c2 = Channel { sender: ChannelEndState::Claimed { owner: a, capacity: 0 },
                       receiver: ChannelEndState::Claimed { owner: b, capacity: 0 } };
    assert(c2.inv() && c2.live());
    let c3 = Channel { sender: ChannelEndState::Claimed { owner: a, capacity: 4 },
                       receiver: ChannelEndState::Claimed { owner: b, capacity: 4 } };
    assert(c3.inv() && c3.live());
    let c4 = Channel { sender: ChannelEndState::Claimed { owner: a, capacity: 0xffff_ffff },
                       receiver: ChannelEndState::Claimed { owner: b, capacity: 0xffff_ffff } };
    assert(c4.inv() && c4.live());
    let c5 = Channel { sender: ChannelEndState::Unclaimed,
                       receiver: ChannelEndState::Claimed { owner: b, capacity: 7 } };
    assert(c5.inv() && c5.live());
    let c6 = Channel { sender: ChannelEndState::Claimed { owner: a, capacity: 0 },
                       receiver: ChannelEndState::Unclaimed };
    assert(c6.inv() && c6.live());
    let c7 = Channel { sender: ChannelEndState::Claimed { owner: a, capacity: 3 },
                       receiver: ChannelEndState::Closed };
    assert(c7.inv() && c7.live());
}

// ---- ledger lemma: "never forwards more items than granted", "sender credit = announced - sent" -------
// The per-call contracts above pin every state change as a delta. This lemma states the summed form for one
// step so that induction over any history is immediate: with ghost counters
//   granted   = initial receiver capacity + sum of accepted grants
//   forwarded = number of Ok send_item
// the equation receiver.cap == granted - forwarded is preserved by send_item (both sides -1 / +1) and by
// add_capacity (both sides +capacity), and receiver.cap >= 0 (u32) gives forwarded <= granted.
proof fn ledger_step_send(granted: int, forwarded: int, r_old: int, r_new: int)
    requires
        r_old == granted - forwarded,
        r_new == r_old - 1,
        r_new >= 0,
    ensures
        r_new == granted - (forwarded + 1),
        forwarded + 1 <= granted,
{
}

proof fn ledger_step_grant(granted: int, forwarded: int, r_old: int, r_new: int, c: int)
    requires
        r_old == granted - forwarded,
        r_new == r_old + c,
    ensures
        r_new == (granted + c) - forwarded,
{
}

} // verus!

fn main() {}
