// unit: broker_handlers_routing   property: C02 (routing of a call to the owner of the service, serial translation, reply
// acceptance, abort), C11 (the expect()s of these handlers), C12 (version gates and per-version message kinds)
// Call handlers of broker/src/broker.rs verified against the CONTRACTS of SerialMap, Object, Service, ConnectionState, under
// the same registry invariant as unit broker_handlers_registry (shared text: units/_shared/registry_inv.rs).
#![feature(allocator_api)]
use vstd::prelude::*;
use vstd::std_specs::hash::*;
use vstd::std_specs::cmp::*;
use std::collections::hash_map::{Entry, HashMap, OccupiedEntry};
use std::collections::HashSet;
use std::hash::{Hash, Hasher};
use std::mem;

verus! {

//@include _shared/registry_preamble_a.rs
opaque!(Channel);
opaque!(BusListener);
//@item core/src/message/call_function.rs struct CallFunction
//@item core/src/message/call_function2.rs struct CallFunction2
//@item core/src/message/call_function_reply.rs struct CallFunctionReply
//@item core/src/message/abort_function_call.rs struct AbortFunctionCall

// protocol minor version that introduced each message kind sent by these handlers (0 = base protocol 1.14)
impl IntoMessage for CallFunction { open spec fn min_minor() -> u32 { 0 } open spec fn allowed_for(&self, receiver: &ConnectionState) -> bool { true } }
impl IntoMessage for CallFunction2 { open spec fn min_minor() -> u32 { 19 } open spec fn allowed_for(&self, receiver: &ConnectionState) -> bool { true } }
impl IntoMessage for CallFunctionReply { open spec fn min_minor() -> u32 { 0 } open spec fn allowed_for(&self, receiver: &ConnectionState) -> bool { true } }
impl IntoMessage for AbortFunctionCall { open spec fn min_minor() -> u32 { 16 } open spec fn allowed_for(&self, receiver: &ConnectionState) -> bool { true } }

//@include _shared/registry_preamble_b.rs
impl Broker {
    //@include _shared/registry_inv.rs


    // nothing changed; for connection `c` this is stated on the view of its caller table (the hash map was probed)
    spec fn unchanged_calls_view(&self, o: &Self, c: ConnectionId) -> bool {
        &&& self.same_rest(o) &&& self.same_registry(o) &&& self.calls() =~= o.calls()
        &&& self.conns@.dom() =~= o.conns@.dom()
        &&& forall|c2: ConnectionId| #![trigger self.conns@[c2]] o.conns@.contains_key(c2) && c2 != c ==> self.conns@[c2] == o.conns@[c2]
        &&& o.conns@.contains_key(c) ==> self.conns@[c].rest_eq(&o.conns@[c], 9) && self.conns@[c].calls@ =~= o.conns@[c].calls@
    }

    // Only the call records may differ between the two states: the pending-call table, the per-service serial set of
    // service `k` and the caller table of connection `c`
    spec fn only_calls_changed(&self, o: &Self, k: (ObjectUuid, ServiceUuid), c: ConnectionId) -> bool {
        &&& self.recv == o.recv &&& self.handle == o.handle &&& self.channels == o.channels &&& self.bus_listeners == o.bus_listeners
        &&& self.obj_uuids@ =~= o.obj_uuids@ &&& self.objs@ =~= o.objs@ &&& self.svc_uuids@ =~= o.svc_uuids@
        &&& self.svcs@.dom() =~= o.svcs@.dom() &&& self.conns@.dom() =~= o.conns@.dom()
        &&& forall|k2: (ObjectUuid, ServiceUuid)| #![trigger self.svcs@[k2]] o.svcs@.contains_key(k2) && k2 != k ==> self.svcs@[k2] == o.svcs@[k2]
        &&& forall|c2: ConnectionId| #![trigger self.conns@[c2]] o.conns@.contains_key(c2) && c2 != c ==> self.conns@[c2] == o.conns@[c2]
        &&& o.svcs@.contains_key(k) ==> {
                &&& self.svcs@[k].cookie == o.svcs@[k].cookie &&& self.svcs@[k].object_cookie == o.svcs@[k].object_cookie
                &&& self.svcs@[k].events == o.svcs@[k].events &&& self.svcs@[k].all_events == o.svcs@[k].all_events
                &&& self.svcs@[k].subscriptions == o.svcs@[k].subscriptions
                &&& forall|e: u32| #![trigger self.svcs@[k].subs(e)] self.svcs@[k].subs(e) == o.svcs@[k].subs(e)
            }
        &&& o.conns@.contains_key(c) ==> self.conns@[c].rest_eq(&o.conns@[c], 9)
                && (forall|x: ServiceCookie| #![trigger self.conns@[c].ev(x)] self.conns@[c].ev(x) == o.conns@[c].ev(x))
    }

    // ---- routing of a call ---------------------------------------------------------------------------------------
    //@fn broker/src/broker.rs Broker::call_function_impl
        requires
            old(self).reg_inv(),
        ensures
            !old(self).conns@.contains_key(*id) ==> r is Ok && final(self).unchanged(old(self)),
            // a call to a service that is not live is answered (InvalidService) and leaves no trace
            (old(self).conns@.contains_key(*id) && !old(self).svc_uuids@.contains_key(req.service_cookie)) ==> final(self).unchanged(old(self)),
            // a caller that reuses one of its pending serials is closed and the attempt leaves no trace
            (old(self).conns@.contains_key(*id) && old(self).svc_uuids@.contains_key(req.service_cookie)
                && old(self).conns@[*id].calls@.contains_key(req.serial)) ==> r is Err && final(self).unchanged_calls_view(old(self), *id),
            // otherwise the call is registered under a serial that is not pending, at the called service, for the caller under
            // the caller's own serial, and it is routed to the connection that owns the service's object
            (old(self).conns@.contains_key(*id) && old(self).svc_uuids@.contains_key(req.service_cookie)
                && !old(self).conns@[*id].calls@.contains_key(req.serial)) ==> {
                let k = old(self).skey(req.service_cookie);
                &&& r is Ok
                &&& final(self).only_calls_changed(old(self), k, *id)
                &&& exists|s: u32| #![trigger final(self).calls().contains_key(s)] {
                        &&& !old(self).calls().contains_key(s)
                        &&& final(self).calls() =~= old(self).calls().insert(s, PendingFunctionCall {
                                caller_serial: req.serial, caller_conn_id: *id, callee_obj: k.0, callee_svc: k.1, aborted: false })
                        &&& final(self).svcs@[k].function_calls@ == old(self).svcs@[k].function_calls@.insert(s)
                        &&& final(self).conns@[*id].calls@ =~= old(self).conns@[*id].calls@.insert(req.serial, (s, old(self).objs@[k.0].conn_id))
                    }
            },
            // the invariant last (the frame facts above are then available), conjunct by conjunct (one query each
            // keeps the solver stable), then as a whole
            final(self).inv_objects(), final(self).inv_services(), final(self).inv_object_services(), final(self).inv_ownership(),
            final(self).inv_calls(), final(self).inv_callers(), final(self).inv_conns(), final(self).inv_subs(),
            final(self).reg_winv(), final(self).reg_inv(),
    //@ghost before `if res.is_err() {`
        proof {
            let k = old(self).skey(req.service_cookie);
            assert(!old(self).calls().contains_key(serial));
            assert(self.calls().contains_key(serial));
            assert(self.svcs@[k].function_calls@ == old(self).svcs@[k].function_calls@.insert(serial));
        }
    //@end

    //@fn broker/src/broker.rs Broker::call_function
        requires
            old(self).reg_inv(),
        ensures
            final(self).reg_inv(),
            // the legacy message is the new one without a version: same effect on the tables
            !old(self).conns@.contains_key(*id) ==> r is Ok && final(self).unchanged(old(self)),
            (old(self).conns@.contains_key(*id) && !old(self).svc_uuids@.contains_key(req.service_cookie)) ==> final(self).unchanged(old(self)),
            (old(self).conns@.contains_key(*id) && old(self).svc_uuids@.contains_key(req.service_cookie)
                && old(self).conns@[*id].calls@.contains_key(req.serial)) ==> r is Err && final(self).unchanged_calls_view(old(self), *id),
            (old(self).conns@.contains_key(*id) && old(self).svc_uuids@.contains_key(req.service_cookie)
                && !old(self).conns@[*id].calls@.contains_key(req.serial)) ==>
                r is Ok && final(self).only_calls_changed(old(self), old(self).skey(req.service_cookie), *id)
                && final(self).conns@[*id].calls@.contains_key(req.serial),
    //@end

    //@fn broker/src/broker.rs Broker::call_function2
        requires
            old(self).reg_inv(),
        ensures
            final(self).reg_inv(),
            // CallFunction2 exists since protocol 1.19: a connection negotiated below that is closed and nothing happens
            (old(self).conns@.contains_key(*id)
                && ProtocolVersion::lex_cmp(old(self).conns@[*id].version, ProtocolVersion::V1_19) == core::cmp::Ordering::Less)
                ==> r is Err && final(self).unchanged(old(self)),
            !old(self).conns@.contains_key(*id) ==> r is Ok && final(self).unchanged(old(self)),
            (old(self).conns@.contains_key(*id) && !old(self).svc_uuids@.contains_key(req.service_cookie)) ==> final(self).unchanged(old(self)),
    //@end

    // the id tables (not touched by replies and aborts)
    spec fn same_ids(&self, o: &Self) -> bool {
        &&& self.obj_uuids == o.obj_uuids &&& self.objs == o.objs &&& self.svc_uuids == o.svc_uuids
    }

    // the reply `serial` is acceptable from connection `id`: the call is pending and `id` owns the called object
    spec fn reply_acceptable(&self, id: &ConnectionId, serial: u32) -> bool {
        &&& self.conns@.contains_key(*id)
        &&& self.calls().contains_key(serial)
        &&& self.objs@[self.calls()[serial].callee_obj].conn_id.id() == id.id()
    }

    // ---- replies and aborts -----------------------------------------------------------------------------------------
    //@fn broker/src/broker.rs Broker::call_function_reply
        requires
            old(self).reg_inv(),
        ensures
            final(self).same_rest(old(self)), final(self).same_ids(old(self)),
            final(self).conns@.dom() == old(self).conns@.dom(),
            final(self).svcs@.dom() == old(self).svcs@.dom(),
            // replies from non-owners, duplicate or stale replies and replies from unknown connections change nothing:
            // in particular the caller's pending-call entry is still there, so the caller still gets its one reply later
            !old(self).reply_acceptable(id, req.serial) ==> {
                &&& final(self).calls() == old(self).calls()
                &&& final(self).conns@ == old(self).conns@
                &&& final(self).svcs@ == old(self).svcs@
            },
            // an acceptable reply consumes the pending call exactly once ...
            old(self).reply_acceptable(id, req.serial) ==> {
                let c = old(self).calls()[req.serial];
                &&& final(self).calls() == old(self).calls().remove(req.serial)
                &&& final(self).svcs@[(c.callee_obj, c.callee_svc)].function_calls@
                        == old(self).svcs@[(c.callee_obj, c.callee_svc)].function_calls@.remove(req.serial)
                // ... a reply after an abort is not delivered: the caller's bookkeeping is not touched (it was already
                // answered with Aborted)
                &&& (c.aborted ==> final(self).conns@ == old(self).conns@)
                // ... otherwise the caller's entry for its own serial is consumed, and only that one
                &&& (!c.aborted ==> forall|k: ConnectionId| #![trigger final(self).conns@[k]] old(self).conns@.contains_key(k) ==> {
                        if k.id() == c.caller_conn_id.id() {
                            final(self).conns@[k].calls@ == old(self).conns@[k].calls@.remove(c.caller_serial)
                        } else {
                            final(self).conns@[k] == old(self).conns@[k]
                        }
                    })
            },
            // the invariant last (the frame facts above are then available), conjunct by conjunct, then as a whole
            final(self).inv_objects(), final(self).inv_services(), final(self).inv_object_services(), final(self).inv_ownership(),
            final(self).inv_calls(), final(self).inv_callers(), final(self).inv_conns(), final(self).inv_subs(),
            final(self).reg_winv(), final(self).reg_inv(),
    //@end

    //@fn broker/src/broker.rs Broker::abort_call
        requires
            old(self).reg_inv(),
        ensures
            final(self).same_rest(old(self)), final(self).same_ids(old(self)),
            final(self).svcs == old(self).svcs,
            final(self).conns@.dom() == old(self).conns@.dom(),
            final(self).calls().dom() == old(self).calls().dom(),
            // unknown or already aborted calls: nothing happens (no second Aborted reply)
            (!old(self).calls().contains_key(callee_serial) || old(self).calls()[callee_serial].aborted) ==> {
                &&& final(self).calls() == old(self).calls()
                &&& final(self).conns@ == old(self).conns@
            },
            // otherwise the call is marked aborted (so that the callee's late reply is dropped) and the caller's entry is
            // consumed
            (old(self).calls().contains_key(callee_serial) && !old(self).calls()[callee_serial].aborted) ==> {
                let c = old(self).calls()[callee_serial];
                &&& final(self).calls()[callee_serial].aborted
                &&& final(self).calls()[callee_serial].caller_serial == c.caller_serial
                &&& final(self).calls()[callee_serial].caller_conn_id == c.caller_conn_id
                &&& final(self).calls()[callee_serial].callee_obj == c.callee_obj
                &&& final(self).calls()[callee_serial].callee_svc == c.callee_svc
                &&& forall|s: u32| s != callee_serial && old(self).calls().contains_key(s) ==> final(self).calls()[s] == old(self).calls()[s]
                &&& forall|k: ConnectionId| #![trigger final(self).conns@[k]] old(self).conns@.contains_key(k) ==> {
                        if k.id() == c.caller_conn_id.id() {
                            final(self).conns@[k].calls@ == old(self).conns@[k].calls@.remove(c.caller_serial)
                        } else {
                            final(self).conns@[k] == old(self).conns@[k]
                        }
                    }
            },
            // the invariant last (the frame facts above are then available), conjunct by conjunct, then as a whole
            final(self).inv_objects(), final(self).inv_services(), final(self).inv_object_services(), final(self).inv_ownership(),
            final(self).inv_calls(), final(self).inv_callers(), final(self).inv_conns(), final(self).inv_subs(),
            final(self).reg_winv(), final(self).reg_inv(),
    //@end

    //@fn broker/src/broker.rs Broker::abort_function_call
        ensures
            // an abort request only queues work; the tables are not touched by the request itself
            *final(self) == *old(self),
            // AbortFunctionCall exists since protocol 1.16: a connection negotiated below that is closed (Err drops it)
            old(self).conns@.contains_key(*id) ==> (r is Err <==>
                ProtocolVersion::lex_cmp(old(self).conns@[*id].version, ProtocolVersion::V1_16) == core::cmp::Ordering::Less),
            !old(self).conns@.contains_key(*id) ==> r is Ok,
    //@end
}

} // verus!

fn main() {}
