// unit: broker_handlers_routing   property: C02 (routing of a call to the owner of the service, serial translation, reply
// acceptance, abort), C11 (the expect()s of these handlers), C12 (version gates and per-version message kinds)
// Call handlers of broker/src/broker.rs verified against the CONTRACTS of SerialMap, Object, Service, ConnectionState, under
// the same registry invariant as unit broker_handlers_registry (shared text: units/_shared/registry_inv.rs).
#![feature(allocator_api)]
use vstd::prelude::*;
use vstd::std_specs::hash::*;
use vstd::std_specs::cmp::*;
use std::collections::hash_map::{Entry, HashMap, OccupiedEntry};
use std::collections::HashSet;
use std::hash::{Hash, Hasher};
use std::mem;

verus! {

//@keep-cfg statistics
//@include _shared/registry_preamble_a.rs
//@include _shared/statistics_items.rs
opaque!(Channel);
opaque!(BusListener);
//@item core/src/message/call_function.rs struct CallFunction
//@item core/src/message/call_function2.rs struct CallFunction2
//@item core/src/message/call_function_reply.rs struct CallFunctionReply
//@item core/src/message/abort_function_call.rs struct AbortFunctionCall

// protocol minor version that introduced each message kind sent by these handlers (0 = base protocol 1.14)
impl IntoMessage for CallFunction { open spec fn min_minor() -> u32 { 0 } open spec fn allowed_for(&self, receiver: &ConnectionState) -> bool { true } }
impl IntoMessage for CallFunction2 { open spec fn min_minor() -> u32 { 19 } open spec fn allowed_for(&self, receiver: &ConnectionState) -> bool { true } }
impl IntoMessage for CallFunctionReply { open spec fn min_minor() -> u32 { 0 } open spec fn allowed_for(&self, receiver: &ConnectionState) -> bool { true } }
impl IntoMessage for AbortFunctionCall { open spec fn min_minor() -> u32 { 16 } open spec fn allowed_for(&self, receiver: &ConnectionState) -> bool { true } }

//@include _shared/registry_preamble_b.rs
impl Broker {
    //@include _shared/registry_inv.rs
    //@include _shared/statistics_specs.rs


    // nothing changed; for connection `c` this is stated on the view of its caller table (the hash map was probed)
    spec fn unchanged_calls_view(&self, o: &Self, c: ConnectionId) -> bool {
        &&& self.same_rest(o) &&& self.same_registry(o) &&& self.calls() =~= o.calls()
        &&& self.conns@.dom() =~= o.conns@.dom()
        &&& forall|c2: ConnectionId| #![trigger self.conns@[c2]] o.conns@.contains_key(c2) && c2 != c ==> self.conns@[c2] == o.conns@[c2]
        &&& o.conns@.contains_key(c) ==> self.conns@[c].rest_eq(&o.conns@[c], 9) && self.conns@[c].calls@ =~= o.conns@[c].calls@
    }

    // Only the call records may differ between the two states: the pending-call table, the per-service serial set of
    // service `k` and the caller table of connection `c`
    spec fn only_calls_changed(&self, o: &Self, k: (ObjectUuid, ServiceUuid), c: ConnectionId) -> bool {
        &&& self.recv == o.recv &&& self.handle == o.handle &&& self.channels == o.channels &&& self.bus_listeners == o.bus_listeners
        &&& self.obj_uuids@ =~= o.obj_uuids@ &&& self.objs@ =~= o.objs@ &&& self.svc_uuids@ =~= o.svc_uuids@
        &&& self.svcs@.dom() =~= o.svcs@.dom() &&& self.conns@.dom() =~= o.conns@.dom()
        &&& forall|k2: (ObjectUuid, ServiceUuid)| #![trigger self.svcs@[k2]] o.svcs@.contains_key(k2) && k2 != k ==> self.svcs@[k2] == o.svcs@[k2]
        &&& forall|c2: ConnectionId| #![trigger self.conns@[c2]] o.conns@.contains_key(c2) && c2 != c ==> self.conns@[c2] == o.conns@[c2]
        &&& o.svcs@.contains_key(k) ==> {
                &&& self.svcs@[k].cookie == o.svcs@[k].cookie &&& self.svcs@[k].object_cookie == o.svcs@[k].object_cookie
                &&& self.svcs@[k].events == o.svcs@[k].events &&& self.svcs@[k].all_events == o.svcs@[k].all_events
                &&& self.svcs@[k].subscriptions == o.svcs@[k].subscriptions
                &&& forall|e: u32| #![trigger self.svcs@[k].subs(e)] self.svcs@[k].subs(e) == o.svcs@[k].subs(e)
            }
        &&& o.conns@.contains_key(c) ==> self.conns@[c].rest_eq(&o.conns@[c], 9)
                && (forall|x: ServiceCookie| #![trigger self.conns@[c].ev(x)] self.conns@[c].ev(x) == o.conns@[c].ev(x))
    }


    // ---- transition lemmas: invariant preservation proved away from the handler bodies (stability) ------------------------
    // everything but the call bookkeeping is identical
    spec fn frame_for_calls(&self, o: &Self, k: (ObjectUuid, ServiceUuid)) -> bool {
        &&& self.same_rest(o) &&& self.obj_uuids@ =~= o.obj_uuids@ &&& self.objs@ =~= o.objs@ &&& self.svc_uuids@ =~= o.svc_uuids@
        &&& self.svcs@.dom() =~= o.svcs@.dom() &&& self.conns@.dom() =~= o.conns@.dom()
        &&& forall|k2: (ObjectUuid, ServiceUuid)| #![trigger self.svcs@.contains_key(k2)] o.svcs@.contains_key(k2) && k2 != k ==> self.svcs@[k2] == o.svcs@[k2]
        &&& o.svcs@.contains_key(k) ==> {
                &&& self.svcs@[k].cookie == o.svcs@[k].cookie &&& self.svcs@[k].object_cookie == o.svcs@[k].object_cookie
                &&& self.svcs@[k].all_events == o.svcs@[k].all_events &&& self.svcs@[k].subscriptions == o.svcs@[k].subscriptions
                &&& self.svcs@[k].inv() == o.svcs@[k].inv()
                &&& forall|e: u32| #![trigger self.svcs@[k].subs(e)] self.svcs@[k].subs(e) == o.svcs@[k].subs(e)
            }
    }

    // connection `c`'s caller table is `calls`, the rest of it and every other connection is identical
    spec fn conns_same_but_calls(&self, o: &Self, c: ConnectionId, calls: Map<u32, (u32, ConnectionId)>) -> bool {
        &&& forall|c2: ConnectionId| #![trigger self.conns@.contains_key(c2)] o.conns@.contains_key(c2) && c2 != c ==> self.conns@[c2] == o.conns@[c2]
        &&& o.conns@.contains_key(c) ==> {
                &&& self.conns@[c].calls@ =~= calls
                &&& self.conns@[c].rest_eq(&o.conns@[c], 9)
                &&& self.conns@[c].inv() == o.conns@[c].inv()
                &&& forall|x: ServiceCookie| #![trigger self.conns@[c].ev(x)] self.conns@[c].ev(x) == o.conns@[c].ev(x)
            }
    }

    proof fn lemma_frame_parts(&self, o: &Self, k: (ObjectUuid, ServiceUuid))
        requires o.reg_inv(), self.frame_for_calls(o, k), o.svcs@.contains_key(k),
            forall|c: ConnectionId| #![trigger self.conns@.contains_key(c)] o.conns@.contains_key(c) ==> self.conns@[c].rest_eq(&o.conns@[c], 9)
                && self.conns@[c].inv() == o.conns@[c].inv()
                && (forall|x: ServiceCookie| #![trigger self.conns@[c].ev(x)] self.conns@[c].ev(x) == o.conns@[c].ev(x)),
        ensures self.inv_objects(), self.inv_services(), self.inv_object_services(), self.inv_ownership(), self.inv_conns(), self.inv_subs(),
            self.no_orphans(), self.subscribers_connected(),
            forall|u: ObjectUuid| #![trigger self.objs@[u]] self.objs@.contains_key(u) ==> self.conns@.contains_key(self.objs@[u].conn_id),
    {
        assert(self.obj_uuids@ == o.obj_uuids@ && self.objs@ == o.objs@ && self.svc_uuids@ == o.svc_uuids@);
        assert(self.inv_services()) by {
            assert forall|x: ServiceCookie| self.svc_uuids@.contains_key(x) implies self.svcs@.contains_key(self.skey(x))
                && self.svcs@[self.skey(x)].cookie == x && self.svcs@[self.skey(x)].object_cookie == self.svc_uuids@[x].0.cookie by {
                assert(o.svc_uuids@.contains_key(x)); assert(o.svcs@.contains_key(o.skey(x)));
            }
            assert forall|k2: (ObjectUuid, ServiceUuid)| self.svcs@.contains_key(k2) implies self.svc_uuids@.contains_key(self.svcs@[k2].cookie)
                && self.skey(self.svcs@[k2].cookie) == k2 by {
                assert(o.svcs@.contains_key(k2)); assert(o.svc_uuids@.contains_key(o.svcs@[k2].cookie));
            }
        }
        assert(self.inv_ownership()) by {
            assert forall|c: ConnectionId, x: ObjectCookie| self.conns@.contains_key(c) && #[trigger] self.conns@[c].objects@.contains(x) implies
                self.obj_uuids@.contains_key(x) && self.objs@[self.obj_uuids@[x]].conn_id == c by {
                assert(o.conns@.contains_key(c)); assert(o.conns@[c].objects@.contains(x));
            }
            assert forall|u: ObjectUuid| self.objs@.contains_key(u) && self.conns@.contains_key(self.objs@[u].conn_id) implies
                self.conns@[self.objs@[u].conn_id].objects@.contains(self.objs@[u].cookie) by {
                assert(o.objs@.contains_key(u)); assert(o.conns@.contains_key(o.objs@[u].conn_id));
            }
        }
        assert(self.inv_conns()) by {
            assert forall|c: ConnectionId| self.conns@.contains_key(c) implies self.conns@[c].inv() by { assert(o.conns@.contains_key(c)); }
        }
        assert(self.inv_subs() && self.subscribers_connected()) by {
            assert forall|k2: (ObjectUuid, ServiceUuid)| self.svcs@.contains_key(k2) implies self.svcs@[k2].inv() by { assert(o.svcs@.contains_key(k2)); }
            assert forall|k2: (ObjectUuid, ServiceUuid), e: u32, c: ConnectionId| self.svcs@.contains_key(k2) && #[trigger] self.svcs@[k2].subs(e).contains(c)
                implies self.conns@.contains_key(c) && self.conns@[c].ev(self.svcs@[k2].cookie).contains(e) by {
                assert(o.svcs@.contains_key(k2)); assert(o.svcs@[k2].subs(e).contains(c)); assert(o.conns@.contains_key(c));
            }
            assert forall|k2: (ObjectUuid, ServiceUuid), c: ConnectionId| self.svcs@.contains_key(k2) && #[trigger] self.svcs@[k2].all_events@.contains(c)
                implies self.conns@.contains_key(c) && self.conns@[c].all_events@.contains(self.svcs@[k2].cookie) by {
                assert(o.svcs@.contains_key(k2)); assert(o.svcs@[k2].all_events@.contains(c)); assert(o.conns@.contains_key(c));
            }
            assert forall|k2: (ObjectUuid, ServiceUuid), c: ConnectionId| self.svcs@.contains_key(k2) && #[trigger] self.svcs@[k2].subscriptions@.contains(c)
                implies self.conns@.contains_key(c) && self.conns@[c].subscriptions@.contains(self.svcs@[k2].cookie) by {
                assert(o.svcs@.contains_key(k2)); assert(o.svcs@[k2].subscriptions@.contains(c)); assert(o.conns@.contains_key(c));
            }
        }
        assert forall|u: ObjectUuid| self.objs@.contains_key(u) implies self.conns@.contains_key(self.objs@[u].conn_id) by { assert(o.objs@.contains_key(u)); }
    }

    // a call was registered: table entry `s`, in service `k`'s set, in caller `c`'s table under `cs`
    proof fn lemma_call_added(&self, o: &Self, k: (ObjectUuid, ServiceUuid), c: ConnectionId, s: u32, cs: u32, callee: ConnectionId)
        requires
            o.reg_inv(), self.frame_for_calls(o, k), o.svcs@.contains_key(k), o.conns@.contains_key(c),
            !o.calls().contains_key(s), !o.conns@[c].calls@.contains_key(cs),
            self.calls() =~= o.calls().insert(s, PendingFunctionCall { caller_serial: cs, caller_conn_id: c, callee_obj: k.0, callee_svc: k.1, aborted: false }),
            self.svcs@[k].function_calls@ == o.svcs@[k].function_calls@.insert(s),
            self.conns_same_but_calls(o, c, o.conns@[c].calls@.insert(cs, (s, callee))),
        ensures
            self.inv_objects(), self.inv_services(), self.inv_object_services(), self.inv_ownership(),
            self.inv_calls(), self.inv_callers(), self.inv_conns(), self.inv_subs(), self.reg_winv(), self.reg_inv(),
    {
        self.lemma_frame_parts(o, k);
        assert(self.inv_calls()) by {
            assert forall|x: u32| self.calls().contains_key(x) implies
                self.svcs@.contains_key((self.calls()[x].callee_obj, self.calls()[x].callee_svc))
                && self.svcs@[(self.calls()[x].callee_obj, self.calls()[x].callee_svc)].function_calls@.contains(x) by {
                if x != s {
                    assert(o.calls().contains_key(x));
                    let kx = (o.calls()[x].callee_obj, o.calls()[x].callee_svc);
                    assert(o.svcs@.contains_key(kx) && o.svcs@[kx].function_calls@.contains(x));
                }
            }
            assert forall|k2: (ObjectUuid, ServiceUuid), x: u32| self.svcs@.contains_key(k2) && #[trigger] self.svcs@[k2].function_calls@.contains(x)
                implies self.calls().contains_key(x) && self.calls()[x].callee_obj == k2.0 && self.calls()[x].callee_svc == k2.1 by {
                assert(o.svcs@.contains_key(k2));
                if !(k2 == k && x == s) { assert(o.svcs@[k2].function_calls@.contains(x)); }
            }
        }
        assert(self.inv_callers()) by {
            assert forall|x: u32| self.calls().contains_key(x) && !self.calls()[x].aborted && self.conns@.contains_key(self.calls()[x].caller_conn_id)
                implies self.conns@[self.calls()[x].caller_conn_id].calls@.contains_key(self.calls()[x].caller_serial)
                && self.conns@[self.calls()[x].caller_conn_id].calls@[self.calls()[x].caller_serial].0 == x by {
                if x != s {
                    assert(o.calls().contains_key(x));
                    let cx = o.calls()[x].caller_conn_id;
                    assert(o.conns@.contains_key(cx));
                    assert(o.conns@[cx].calls@.contains_key(o.calls()[x].caller_serial));
                }
            }
        }
    }

    // the pending call `s` was consumed (reply accepted): gone from the table and from its service's set; if `entry` the
    // caller's table entry went with it, otherwise no connection changed
    proof fn lemma_call_consumed(&self, o: &Self, s: u32, entry: bool)
        requires
            o.reg_inv(), o.calls().contains_key(s),
            self.frame_for_calls(o, (o.calls()[s].callee_obj, o.calls()[s].callee_svc)),
            self.calls() =~= o.calls().remove(s),
            self.svcs@[(o.calls()[s].callee_obj, o.calls()[s].callee_svc)].function_calls@
                == o.svcs@[(o.calls()[s].callee_obj, o.calls()[s].callee_svc)].function_calls@.remove(s),
            entry ==> !o.calls()[s].aborted && o.conns@.contains_key(o.calls()[s].caller_conn_id)
                && self.conns_same_but_calls(o, o.calls()[s].caller_conn_id, o.conns@[o.calls()[s].caller_conn_id].calls@.remove(o.calls()[s].caller_serial)),
            !entry ==> self.conns@ =~= o.conns@,
        ensures
            self.inv_objects(), self.inv_services(), self.inv_object_services(), self.inv_ownership(),
            self.inv_calls(), self.inv_callers(), self.inv_conns(), self.inv_subs(), self.reg_winv(), self.reg_inv(),
    {
        let k = (o.calls()[s].callee_obj, o.calls()[s].callee_svc);
        assert(o.svcs@.contains_key(k));
        self.lemma_frame_parts(o, k);
        assert(self.inv_calls()) by {
            assert forall|x: u32| self.calls().contains_key(x) implies
                self.svcs@.contains_key((self.calls()[x].callee_obj, self.calls()[x].callee_svc))
                && self.svcs@[(self.calls()[x].callee_obj, self.calls()[x].callee_svc)].function_calls@.contains(x) by {
                assert(o.calls().contains_key(x));
                let kx = (o.calls()[x].callee_obj, o.calls()[x].callee_svc);
                assert(o.svcs@.contains_key(kx) && o.svcs@[kx].function_calls@.contains(x));
            }
            assert forall|k2: (ObjectUuid, ServiceUuid), x: u32| self.svcs@.contains_key(k2) && #[trigger] self.svcs@[k2].function_calls@.contains(x)
                implies self.calls().contains_key(x) && self.calls()[x].callee_obj == k2.0 && self.calls()[x].callee_svc == k2.1 by {
                assert(o.svcs@.contains_key(k2));
                assert(o.svcs@[k2].function_calls@.contains(x));
            }
        }
        assert(self.inv_callers()) by {
            assert forall|x: u32| self.calls().contains_key(x) && !self.calls()[x].aborted && self.conns@.contains_key(self.calls()[x].caller_conn_id)
                implies self.conns@[self.calls()[x].caller_conn_id].calls@.contains_key(self.calls()[x].caller_serial)
                && self.conns@[self.calls()[x].caller_conn_id].calls@[self.calls()[x].caller_serial].0 == x by {
                assert(o.calls().contains_key(x));
                let cx = o.calls()[x].caller_conn_id;
                assert(o.conns@.contains_key(cx));
                assert(o.conns@[cx].calls@.contains_key(o.calls()[x].caller_serial));
                assert(o.conns@[cx].calls@[o.calls()[x].caller_serial].0 == x);
            }
        }
    }

    // the pending call `s` was marked aborted; if `entry` the caller's table entry was consumed
    proof fn lemma_call_aborted(&self, o: &Self, s: u32, entry: bool)
        requires
            o.reg_inv(), o.calls().contains_key(s), !o.calls()[s].aborted,
            self.frame_for_calls(o, (o.calls()[s].callee_obj, o.calls()[s].callee_svc)),
            self.svcs@[(o.calls()[s].callee_obj, o.calls()[s].callee_svc)].function_calls@
                == o.svcs@[(o.calls()[s].callee_obj, o.calls()[s].callee_svc)].function_calls@,
            self.calls().dom() =~= o.calls().dom(),
            self.calls()[s].aborted, self.calls()[s].caller_serial == o.calls()[s].caller_serial,
            self.calls()[s].caller_conn_id == o.calls()[s].caller_conn_id,
            self.calls()[s].callee_obj == o.calls()[s].callee_obj, self.calls()[s].callee_svc == o.calls()[s].callee_svc,
            forall|x: u32| #![trigger self.calls().contains_key(x)] x != s && o.calls().contains_key(x) ==> self.calls()[x] == o.calls()[x],
            entry ==> o.conns@.contains_key(o.calls()[s].caller_conn_id)
                && self.conns_same_but_calls(o, o.calls()[s].caller_conn_id, o.conns@[o.calls()[s].caller_conn_id].calls@.remove(o.calls()[s].caller_serial)),
            !entry ==> self.conns@ =~= o.conns@,
        ensures
            self.inv_objects(), self.inv_services(), self.inv_object_services(), self.inv_ownership(),
            self.inv_calls(), self.inv_callers(), self.inv_conns(), self.inv_subs(), self.reg_winv(), self.reg_inv(),
    {
        let k = (o.calls()[s].callee_obj, o.calls()[s].callee_svc);
        assert(o.svcs@.contains_key(k));
        self.lemma_frame_parts(o, k);
        assert(self.inv_calls()) by {
            assert forall|x: u32| self.calls().contains_key(x) implies
                self.svcs@.contains_key((self.calls()[x].callee_obj, self.calls()[x].callee_svc))
                && self.svcs@[(self.calls()[x].callee_obj, self.calls()[x].callee_svc)].function_calls@.contains(x) by {
                assert(o.calls().contains_key(x));
                let kx = (o.calls()[x].callee_obj, o.calls()[x].callee_svc);
                assert(o.svcs@.contains_key(kx) && o.svcs@[kx].function_calls@.contains(x));
            }
            assert forall|k2: (ObjectUuid, ServiceUuid), x: u32| self.svcs@.contains_key(k2) && #[trigger] self.svcs@[k2].function_calls@.contains(x)
                implies self.calls().contains_key(x) && self.calls()[x].callee_obj == k2.0 && self.calls()[x].callee_svc == k2.1 by {
                assert(o.svcs@.contains_key(k2));
                assert(o.svcs@[k2].function_calls@.contains(x));
            }
        }
        assert(self.inv_callers()) by {
            assert forall|x: u32| self.calls().contains_key(x) && !self.calls()[x].aborted && self.conns@.contains_key(self.calls()[x].caller_conn_id)
                implies self.conns@[self.calls()[x].caller_conn_id].calls@.contains_key(self.calls()[x].caller_serial)
                && self.conns@[self.calls()[x].caller_conn_id].calls@[self.calls()[x].caller_serial].0 == x by {
                assert(x != s);
                assert(o.calls().contains_key(x));
                let cx = o.calls()[x].caller_conn_id;
                assert(o.conns@.contains_key(cx));
                assert(o.conns@[cx].calls@.contains_key(o.calls()[x].caller_serial));
                assert(o.conns@[cx].calls@[o.calls()[x].caller_serial].0 == x);
            }
        }
    }

    // ---- routing of a call ---------------------------------------------------------------------------------------
    //@fn broker/src/broker.rs Broker::call_function_impl
        requires
            old(self).reg_inv(),
        ensures
            !old(self).conns@.contains_key(*id) ==> r is Ok && final(self).unchanged(old(self)),
            // a call to a service that is not live is answered (InvalidService) and leaves no trace
            (old(self).conns@.contains_key(*id) && !old(self).svc_uuids@.contains_key(req.service_cookie)) ==> final(self).unchanged(old(self)),
            // a caller that reuses one of its pending serials is closed and the attempt leaves no trace
            (old(self).conns@.contains_key(*id) && old(self).svc_uuids@.contains_key(req.service_cookie)
                && old(self).conns@[*id].calls@.contains_key(req.serial)) ==> r is Err && final(self).unchanged_calls_view(old(self), *id),
            // otherwise the call is registered under a serial that is not pending, at the called service, for the caller under
            // the caller's own serial, and it is routed to the connection that owns the service's object
            (old(self).conns@.contains_key(*id) && old(self).svc_uuids@.contains_key(req.service_cookie)
                && !old(self).conns@[*id].calls@.contains_key(req.serial)) ==> {
                let k = old(self).skey(req.service_cookie);
                &&& r is Ok
                &&& final(self).only_calls_changed(old(self), k, *id)
                &&& exists|s: u32| #![trigger final(self).calls().contains_key(s)] {
                        &&& !old(self).calls().contains_key(s)
                        &&& final(self).calls() =~= old(self).calls().insert(s, PendingFunctionCall {
                                caller_serial: req.serial, caller_conn_id: *id, callee_obj: k.0, callee_svc: k.1, aborted: false })
                        &&& final(self).svcs@[k].function_calls@ == old(self).svcs@[k].function_calls@.insert(s)
                        &&& final(self).conns@[*id].calls@ =~= old(self).conns@[*id].calls@.insert(req.serial, (s, old(self).objs@[k.0].conn_id))
                    }
            },
            final(self).stat_same(old(self)),   // no counter is touched
            // the invariant last (the frame facts above are then available), conjunct by conjunct (one query each
            // keeps the solver stable), then as a whole
            final(self).inv_objects(), final(self).inv_services(), final(self).inv_object_services(), final(self).inv_ownership(),
            final(self).inv_calls(), final(self).inv_callers(), final(self).inv_conns(), final(self).inv_subs(),
            final(self).reg_winv(), final(self).reg_inv(),
    //@ghost before `if res.is_err() {`
        proof {
            let k = old(self).skey(req.service_cookie);
            assert(!old(self).calls().contains_key(serial));
            assert(self.calls().contains_key(serial));
            assert(self.svcs@[k].function_calls@ == old(self).svcs@[k].function_calls@.insert(serial));
            self.lemma_call_added(old(self), k, *id, serial, req.serial, old(self).objs@[k.0].conn_id);
        }
    //@end

    //@fn broker/src/broker.rs Broker::call_function
        requires
            old(self).reg_inv(),
        ensures
            final(self).reg_inv(),
            // the legacy message is the new one without a version: same effect on the tables
            !old(self).conns@.contains_key(*id) ==> r is Ok && final(self).unchanged(old(self)),
            (old(self).conns@.contains_key(*id) && !old(self).svc_uuids@.contains_key(req.service_cookie)) ==> final(self).unchanged(old(self)),
            (old(self).conns@.contains_key(*id) && old(self).svc_uuids@.contains_key(req.service_cookie)
                && old(self).conns@[*id].calls@.contains_key(req.serial)) ==> r is Err && final(self).unchanged_calls_view(old(self), *id),
            (old(self).conns@.contains_key(*id) && old(self).svc_uuids@.contains_key(req.service_cookie)
                && !old(self).conns@[*id].calls@.contains_key(req.serial)) ==>
                r is Ok && final(self).only_calls_changed(old(self), old(self).skey(req.service_cookie), *id)
                && final(self).conns@[*id].calls@.contains_key(req.serial),
            final(self).stat_same(old(self)),   // no counter is touched
    //@end

    //@fn broker/src/broker.rs Broker::call_function2
        requires
            old(self).reg_inv(),
        ensures
            final(self).reg_inv(),
            // CallFunction2 exists since protocol 1.19: a connection negotiated below that is closed and nothing happens
            (old(self).conns@.contains_key(*id)
                && ProtocolVersion::lex_cmp(old(self).conns@[*id].version, ProtocolVersion::V1_19) == core::cmp::Ordering::Less)
                ==> r is Err && final(self).unchanged(old(self)),
            !old(self).conns@.contains_key(*id) ==> r is Ok && final(self).unchanged(old(self)),
            (old(self).conns@.contains_key(*id) && !old(self).svc_uuids@.contains_key(req.service_cookie)) ==> final(self).unchanged(old(self)),
            final(self).stat_same(old(self)),   // no counter is touched
    //@end

    // the id tables (not touched by replies and aborts)
    spec fn same_ids(&self, o: &Self) -> bool {
        &&& self.obj_uuids == o.obj_uuids &&& self.objs == o.objs &&& self.svc_uuids == o.svc_uuids
    }

    // the reply `serial` is acceptable from connection `id`: the call is pending and `id` owns the called object
    spec fn reply_acceptable(&self, id: &ConnectionId, serial: u32) -> bool {
        &&& self.conns@.contains_key(*id)
        &&& self.calls().contains_key(serial)
        &&& self.objs@[self.calls()[serial].callee_obj].conn_id.id() == id.id()
    }

    // ---- replies and aborts -----------------------------------------------------------------------------------------
    //@fn broker/src/broker.rs Broker::call_function_reply
        requires
            old(self).reg_inv(),
        ensures
            final(self).same_rest(old(self)), final(self).same_ids(old(self)),
            final(self).conns@.dom() == old(self).conns@.dom(),
            final(self).svcs@.dom() == old(self).svcs@.dom(),
            // replies from non-owners, duplicate or stale replies and replies from unknown connections change nothing:
            // in particular the caller's pending-call entry is still there, so the caller still gets its one reply later
            !old(self).reply_acceptable(id, req.serial) ==> {
                &&& final(self).calls() == old(self).calls()
                &&& final(self).conns@ == old(self).conns@
                &&& final(self).svcs@ == old(self).svcs@
            },
            // an acceptable reply consumes the pending call exactly once ...
            old(self).reply_acceptable(id, req.serial) ==> {
                let c = old(self).calls()[req.serial];
                &&& final(self).calls() == old(self).calls().remove(req.serial)
                &&& final(self).svcs@[(c.callee_obj, c.callee_svc)].function_calls@
                        == old(self).svcs@[(c.callee_obj, c.callee_svc)].function_calls@.remove(req.serial)
                // ... a reply after an abort is not delivered: the caller's bookkeeping is not touched (it was already
                // answered with Aborted)
                &&& (c.aborted ==> final(self).conns@ == old(self).conns@)
                // ... otherwise the caller's entry for its own serial is consumed, and only that one
                &&& (!c.aborted ==> forall|k: ConnectionId| #![trigger final(self).conns@[k]] old(self).conns@.contains_key(k) ==> {
                        if k.id() == c.caller_conn_id.id() {
                            final(self).conns@[k].calls@ == old(self).conns@[k].calls@.remove(c.caller_serial)
                        } else {
                            final(self).conns@[k] == old(self).conns@[k]
                        }
                    })
            },
            final(self).stat_same(old(self)),   // no counter is touched
            // the invariant last (the frame facts above are then available), conjunct by conjunct, then as a whole
            final(self).inv_objects(), final(self).inv_services(), final(self).inv_object_services(), final(self).inv_ownership(),
            final(self).inv_calls(), final(self).inv_callers(), final(self).inv_conns(), final(self).inv_subs(),
            final(self).reg_winv(), final(self).reg_inv(),
    //@ghost before#3/5 `return;`
        // (the call was aborted: the late reply is dropped, no connection is touched)
        proof { self.lemma_call_consumed(old(self), req.serial, false); }
    //@ghost before#4/5 `return;`
        // (the caller is gone: nothing to deliver)
        proof { self.lemma_call_consumed(old(self), req.serial, false); }
    //@ghost fn-tail
        proof { self.lemma_call_consumed(old(self), req.serial, true); }
    //@end

    //@fn broker/src/broker.rs Broker::abort_call
        requires
            old(self).reg_inv(),
        ensures
            final(self).same_rest(old(self)), final(self).same_ids(old(self)),
            final(self).svcs == old(self).svcs,
            final(self).conns@.dom() == old(self).conns@.dom(),
            final(self).calls().dom() == old(self).calls().dom(),
            // unknown or already aborted calls: nothing happens (no second Aborted reply)
            (!old(self).calls().contains_key(callee_serial) || old(self).calls()[callee_serial].aborted) ==> {
                &&& final(self).calls() == old(self).calls()
                &&& final(self).conns@ == old(self).conns@
            },
            // otherwise the call is marked aborted (so that the callee's late reply is dropped) and the caller's entry is
            // consumed
            (old(self).calls().contains_key(callee_serial) && !old(self).calls()[callee_serial].aborted) ==> {
                let c = old(self).calls()[callee_serial];
                &&& final(self).calls()[callee_serial].aborted
                &&& final(self).calls()[callee_serial].caller_serial == c.caller_serial
                &&& final(self).calls()[callee_serial].caller_conn_id == c.caller_conn_id
                &&& final(self).calls()[callee_serial].callee_obj == c.callee_obj
                &&& final(self).calls()[callee_serial].callee_svc == c.callee_svc
                &&& forall|s: u32| s != callee_serial && old(self).calls().contains_key(s) ==> final(self).calls()[s] == old(self).calls()[s]
                &&& forall|k: ConnectionId| #![trigger final(self).conns@[k]] old(self).conns@.contains_key(k) ==> {
                        if k.id() == c.caller_conn_id.id() {
                            final(self).conns@[k].calls@ == old(self).conns@[k].calls@.remove(c.caller_serial)
                        } else {
                            final(self).conns@[k] == old(self).conns@[k]
                        }
                    }
            },
            final(self).stat_same(old(self)),   // no counter is touched
            // the invariant last (the frame facts above are then available), conjunct by conjunct, then as a whole
            final(self).inv_objects(), final(self).inv_services(), final(self).inv_object_services(), final(self).inv_ownership(),
            final(self).inv_calls(), final(self).inv_callers(), final(self).inv_conns(), final(self).inv_subs(),
            final(self).reg_winv(), final(self).reg_inv(),
    //@ghost fn-tail
        proof {
            self.lemma_call_aborted(old(self), callee_serial, old(self).conns@.contains_key(old(self).calls()[callee_serial].caller_conn_id));
        }
    //@end

    //@fn broker/src/broker.rs Broker::abort_function_call
        ensures
            // an abort request only queues work; the tables are not touched by the request itself
            *final(self) == *old(self),
            // AbortFunctionCall exists since protocol 1.16: a connection negotiated below that is closed (Err drops it)
            old(self).conns@.contains_key(*id) ==> (r is Err <==>
                ProtocolVersion::lex_cmp(old(self).conns@[*id].version, ProtocolVersion::V1_16) == core::cmp::Ordering::Less),
            !old(self).conns@.contains_key(*id) ==> r is Ok,
            final(self).stat_same(old(self)),   // no counter is touched
    //@end
}

} // verus!

fn main() {}
