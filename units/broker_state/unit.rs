// unit: broker_state   (leaf facts for C02/C09: the deferred-work queues of the broker loop are LIFO stacks, a push or pop
// touches exactly one queue, and has_work_left is exactly "some queue is non-empty")
// verbatim `State::*` of broker/src/broker/state.rs except push_remove_conns (generic IntoIterator + Vec::extend).
use vstd::prelude::*;

verus! {

#[verifier::external_body]
pub struct ConnectionId { _p: () }
#[verifier::external_body]
pub struct CallFunctionResult { _p: () }
#[verifier::external_body]
#[derive(Clone, Copy)]
pub struct ServiceCookie { _p: () }
#[verifier::external_body]
#[derive(Clone, Copy)]
pub struct ObjectId { _p: () }
#[verifier::external_body]
#[derive(Clone, Copy)]
pub struct ServiceId { _p: () }

//@item broker/src/broker/state.rs struct State

impl State {
    //@include _shared/state_specs.rs

    //@fn broker/src/broker/state.rs State::new
        ensures
            !r.shutdown_now, !r.shutdown_idle,
            r.remove_conns@.len() == 0,
            r.remove_function_calls@.len() == 0,
            r.services_destroyed@.len() == 0,
            r.unsubscribe_event@.len() == 0,
            r.unsubscribe_all_events@.len() == 0,
            r.create_object@.len() == 0,
            r.destroy_object@.len() == 0,
            r.create_service@.len() == 0,
            r.destroy_service@.len() == 0,
            r.abort_function_calls@.len() == 0,
    //@end

    //@fn broker/src/broker/state.rs State::set_shutdown_now
        ensures final(self).shutdown_now, final(self).rest_eq(old(self), 0),
    //@end

    //@fn broker/src/broker/state.rs State::shutdown_now
        ensures r == self.shutdown_now,
    //@end

    //@fn broker/src/broker/state.rs State::set_shutdown_idle
        ensures final(self).shutdown_idle, final(self).rest_eq(old(self), 1),
    //@end

    //@fn broker/src/broker/state.rs State::shutdown_idle
        ensures r == self.shutdown_idle,
    //@end

    //@fn broker/src/broker/state.rs State::has_work_left
        ensures r == (
            self.remove_conns@.len() > 0
            || self.remove_function_calls@.len() > 0
            || self.services_destroyed@.len() > 0
            || self.unsubscribe_event@.len() > 0
            || self.unsubscribe_all_events@.len() > 0
            || self.create_object@.len() > 0
            || self.destroy_object@.len() > 0
            || self.create_service@.len() > 0
            || self.destroy_service@.len() > 0
            || self.abort_function_calls@.len() > 0),
    //@end

    //@fn broker/src/broker/state.rs State::push_remove_conn
        ensures
            final(self).remove_conns@ == old(self).remove_conns@.push((id, send_shutdown)),
            final(self).rest_eq(old(self), 2),
    //@end

    //@fn broker/src/broker/state.rs State::pop_remove_conn
        ensures
            final(self).rest_eq(old(self), 2),
            old(self).remove_conns@.len() == 0 ==> r is None && final(self).remove_conns@ == old(self).remove_conns@,
            old(self).remove_conns@.len() > 0 ==> r == Some(old(self).remove_conns@.last())
                && final(self).remove_conns@ == old(self).remove_conns@.drop_last(),
    //@end

    //@fn broker/src/broker/state.rs State::push_remove_function_call
        ensures
            final(self).remove_function_calls@ == old(self).remove_function_calls@.push((serial, conn_id, res)),
            final(self).rest_eq(old(self), 3),
    //@end

    //@fn broker/src/broker/state.rs State::pop_remove_function_call
        ensures
            final(self).rest_eq(old(self), 3),
            old(self).remove_function_calls@.len() == 0 ==> r is None && final(self).remove_function_calls@ == old(self).remove_function_calls@,
            old(self).remove_function_calls@.len() > 0 ==> r == Some(old(self).remove_function_calls@.last())
                && final(self).remove_function_calls@ == old(self).remove_function_calls@.drop_last(),
    //@end

    //@fn broker/src/broker/state.rs State::push_services_destroyed
        ensures
            final(self).services_destroyed@ == old(self).services_destroyed@.push((conn_id, svc_cookie)),
            final(self).rest_eq(old(self), 4),
    //@end

    //@fn broker/src/broker/state.rs State::pop_services_destroyed
        ensures
            final(self).rest_eq(old(self), 4),
            old(self).services_destroyed@.len() == 0 ==> r is None && final(self).services_destroyed@ == old(self).services_destroyed@,
            old(self).services_destroyed@.len() > 0 ==> r == Some(old(self).services_destroyed@.last())
                && final(self).services_destroyed@ == old(self).services_destroyed@.drop_last(),
    //@end

    //@fn broker/src/broker/state.rs State::push_unsubscribe_event
        ensures
            final(self).unsubscribe_event@ == old(self).unsubscribe_event@.push((conn_id, svc_cookie, event)),
            final(self).rest_eq(old(self), 5),
    //@end

    //@fn broker/src/broker/state.rs State::pop_unsubscribe_event
        ensures
            final(self).rest_eq(old(self), 5),
            old(self).unsubscribe_event@.len() == 0 ==> r is None && final(self).unsubscribe_event@ == old(self).unsubscribe_event@,
            old(self).unsubscribe_event@.len() > 0 ==> r == Some(old(self).unsubscribe_event@.last())
                && final(self).unsubscribe_event@ == old(self).unsubscribe_event@.drop_last(),
    //@end

    //@fn broker/src/broker/state.rs State::push_unsubscribe_all_events
        ensures
            final(self).unsubscribe_all_events@ == old(self).unsubscribe_all_events@.push((conn_id, svc_cookie)),
            final(self).rest_eq(old(self), 6),
    //@end

    //@fn broker/src/broker/state.rs State::pop_unsubscribe_all_events
        ensures
            final(self).rest_eq(old(self), 6),
            old(self).unsubscribe_all_events@.len() == 0 ==> r is None && final(self).unsubscribe_all_events@ == old(self).unsubscribe_all_events@,
            old(self).unsubscribe_all_events@.len() > 0 ==> r == Some(old(self).unsubscribe_all_events@.last())
                && final(self).unsubscribe_all_events@ == old(self).unsubscribe_all_events@.drop_last(),
    //@end

    //@fn broker/src/broker/state.rs State::push_create_object
        ensures
            final(self).create_object@ == old(self).create_object@.push(object),
            final(self).rest_eq(old(self), 7),
    //@end

    //@fn broker/src/broker/state.rs State::pop_create_object
        ensures
            final(self).rest_eq(old(self), 7),
            old(self).create_object@.len() == 0 ==> r is None && final(self).create_object@ == old(self).create_object@,
            old(self).create_object@.len() > 0 ==> r == Some(old(self).create_object@.last())
                && final(self).create_object@ == old(self).create_object@.drop_last(),
    //@end

    //@fn broker/src/broker/state.rs State::push_destroy_object
        ensures
            final(self).destroy_object@ == old(self).destroy_object@.push(object),
            final(self).rest_eq(old(self), 8),
    //@end

    //@fn broker/src/broker/state.rs State::pop_destroy_object
        ensures
            final(self).rest_eq(old(self), 8),
            old(self).destroy_object@.len() == 0 ==> r is None && final(self).destroy_object@ == old(self).destroy_object@,
            old(self).destroy_object@.len() > 0 ==> r == Some(old(self).destroy_object@.last())
                && final(self).destroy_object@ == old(self).destroy_object@.drop_last(),
    //@end

    //@fn broker/src/broker/state.rs State::push_create_service
        ensures
            final(self).create_service@ == old(self).create_service@.push(service),
            final(self).rest_eq(old(self), 9),
    //@end

    //@fn broker/src/broker/state.rs State::pop_create_service
        ensures
            final(self).rest_eq(old(self), 9),
            old(self).create_service@.len() == 0 ==> r is None && final(self).create_service@ == old(self).create_service@,
            old(self).create_service@.len() > 0 ==> r == Some(old(self).create_service@.last())
                && final(self).create_service@ == old(self).create_service@.drop_last(),
    //@end

    //@fn broker/src/broker/state.rs State::push_destroy_service
        ensures
            final(self).destroy_service@ == old(self).destroy_service@.push(service),
            final(self).rest_eq(old(self), 10),
    //@end

    //@fn broker/src/broker/state.rs State::pop_destroy_service
        ensures
            final(self).rest_eq(old(self), 10),
            old(self).destroy_service@.len() == 0 ==> r is None && final(self).destroy_service@ == old(self).destroy_service@,
            old(self).destroy_service@.len() > 0 ==> r == Some(old(self).destroy_service@.last())
                && final(self).destroy_service@ == old(self).destroy_service@.drop_last(),
    //@end

    //@fn broker/src/broker/state.rs State::push_abort_function_call
        ensures
            final(self).abort_function_calls@ == old(self).abort_function_calls@.push((callee_serial, callee_id)),
            final(self).rest_eq(old(self), 11),
    //@end

    //@fn broker/src/broker/state.rs State::pop_abort_function_call
        ensures
            final(self).rest_eq(old(self), 11),
            old(self).abort_function_calls@.len() == 0 ==> r is None && final(self).abort_function_calls@ == old(self).abort_function_calls@,
            old(self).abort_function_calls@.len() > 0 ==> r == Some(old(self).abort_function_calls@.last())
                && final(self).abort_function_calls@ == old(self).abort_function_calls@.drop_last(),
    //@end
}

} // verus!

fn main() {}
