// unit: broker_serial_map   (leaf facts for C02: the table of pending calls keyed by callee serial)
#![feature(allocator_api)]
use vstd::prelude::*;
use vstd::std_specs::hash::*;
use std::collections::hash_map::{Entry, HashMap, OccupiedEntry};
use std::hash::Hash;

verus! {

broadcast use vstd::std_specs::hash::group_hash_axioms;

//@include _shared/std_get_mut_spec.rs

//@item broker/src/serial_map.rs struct SerialMap

impl<T> SerialMap<T> {
    //@fn broker/src/serial_map.rs SerialMap::new
        ensures r.elems@ == Map::<u32, T>::empty(), r.next == 0,
    //@end

    //@include _shared/serial_map_specs.rs

    // `insert` hands out the FIRST serial at or after the counter that is not pending (cyclically), records the call under it
    // and advances the counter past it: serials are not reused while anything newer could still be confused with them.
    // Termination is not proved (the loop spins forever when all 2^32 serials are pending).
    //@fn broker/src/serial_map.rs SerialMap::insert tail-loop attr=verifier::exec_allows_no_decreases_clause
        ensures
            !old(self).elems@.contains_key(r),
            final(self).elems@ =~= old(self).elems@.insert(r, obj),
            final(self).next == r.wrapping_add(1),
            forall|s: u32| #![trigger old(self).elems@.contains_key(s)] Self::between(old(self).next, r, s) ==> old(self).elems@.contains_key(s),
    //@ghost bare-loop 0
        invariant
            self.elems@ == old(self).elems@,
            forall|s: u32| #![trigger old(self).elems@.contains_key(s)] Self::between(old(self).next, self.next, s) ==> old(self).elems@.contains_key(s),
            // the counter has not wrapped all the way round to where it started, unless every serial it passed is pending
    //@end

    //@fn broker/src/serial_map.rs SerialMap::get_mut
        ensures
            match r {
                Some(v) => {
                    &&& old(self).elems@.contains_key(serial)
                    &&& *v == old(self).elems@[serial]
                    &&& final(self).elems@ =~= old(self).elems@.insert(serial, *final(v))
                    &&& final(self).next == old(self).next
                }
                None => !old(self).elems@.contains_key(serial) && final(self).elems@ == old(self).elems@
                    && final(self).next == old(self).next,
            },
    //@end

    //@fn broker/src/serial_map.rs SerialMap::remove
        ensures
            final(self).next == old(self).next,
            final(self).elems@ == old(self).elems@.remove(serial),
            match r {
                Some(v) => old(self).elems@.contains_key(serial) && v == old(self).elems@[serial],
                None => !old(self).elems@.contains_key(serial),
            },
    //@end

    //@fn broker/src/serial_map.rs SerialMap::entry
        ensures
            final(self).next == old(self).next,
            match r {
                Some(e) => {
                    &&& old(self).elems@.contains_key(serial)
                    &&& e.spec_key() == serial
                    &&& e.value() == old(self).elems@[serial]
                    // the entry prophesies what the map holds once the entry is released
                    &&& final(self).elems@ =~= (match e.final_value() {
                            Some(v) => old(self).elems@.insert(serial, v),
                            None => old(self).elems@.remove(serial),
                        })
                }
                None => !old(self).elems@.contains_key(serial) && final(self).elems@ =~= old(self).elems@,
            },
    //@end

    //@fn broker/src/serial_map.rs SerialMap::is_empty
        ensures r == (self.elems@.len() == 0),
    //@end
}

} // verus!

fn main() {}
