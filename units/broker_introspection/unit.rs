// unit: broker_introspection   property: C11 (the introspection database's per-type entry, broker/src/introspection_database.rs:
// the index structure `conn_id_idxs` <-> `conn_ids` behind `swap_remove`, slice indexing, `expect("inconsistent state")` and the
// random choice of a connection to query never panics, for every sequence of register / remove_conn / query operations)
#![feature(allocator_api)]
use vstd::prelude::*;
use vstd::std_specs::hash::*;
use vstd::std_specs::cmp::*;
use vstd::std_specs::iter::IteratorSpec;
use std::collections::hash_map::{Entry, HashMap};
use std::collections::HashSet;
use std::hash::{Hash, Hasher};
use std::mem;

verus! {

// ---- prelude (trusted base) -------------------------------------------------------------------
pub mod connid {
    use super::*;
    #[verifier::external_body]
    pub struct ConnectionId { _p: () }

    impl ConnectionId {
        pub uninterp spec fn id(&self) -> int;
    }

    impl PartialEqSpecImpl for ConnectionId {
        open spec fn obeys_eq_spec() -> bool { true }
        open spec fn eq_spec(&self, other: &Self) -> bool { self.id() == other.id() }
    }
    impl PartialEq for ConnectionId {
        #[verifier::external_body]
        fn eq(&self, other: &Self) -> (r: bool) { unimplemented!() }
    }
    impl Eq for ConnectionId {}
    impl Hash for ConnectionId {
        #[verifier::external_body]
        fn hash<H: Hasher>(&self, state: &mut H) { unimplemented!() }
    }
    impl Clone for ConnectionId {
        #[verifier::external_body]
        fn clone(&self) -> (r: Self)
            ensures r.id() == self.id()
        { unimplemented!() }
    }
}
pub use connid::ConnectionId;

#[verifier::external_body]
pub struct SerializedValue { _p: () }

// TypeId (core): opaque Copy key with structural equality
#[verifier::external_body]
#[derive(Clone, Copy)]
pub struct TypeId { _p: () }
impl PartialEqSpecImpl for TypeId {
    open spec fn obeys_eq_spec() -> bool { true }
    open spec fn eq_spec(&self, other: &Self) -> bool { *self == *other }
}
impl PartialEq for TypeId {
    #[verifier::external_body]
    fn eq(&self, other: &Self) -> (r: bool) { unimplemented!() }
}
impl Eq for TypeId {}
impl Hash for TypeId {
    #[verifier::external_body]
    fn hash<H: Hasher>(&self, state: &mut H) { unimplemented!() }
}

pub mod trusted {
    use super::*;
    pub broadcast axiom fn axiom_conn_id_key_model() ensures #[trigger] obeys_key_model::<ConnectionId>();
    pub broadcast axiom fn axiom_type_id_key_model() ensures #[trigger] obeys_key_model::<TypeId>();
    // ConnectionId: two handles denote the same connection iff their numeric ids are equal (conn_id.rs: Eq, Hash and
    // the id all derive from the same counter value). ASSUMED.
    pub broadcast axiom fn axiom_conn_id_injective(a: ConnectionId, b: ConnectionId)
        ensures #[trigger] a.id() == #[trigger] b.id() <==> a == b;
}
broadcast use {trusted::axiom_conn_id_key_model, trusted::axiom_type_id_key_model, trusted::axiom_conn_id_injective, vstd::std_specs::hash::group_hash_axioms, trusted_default::axiom_default_hashset_u32};

//@include _shared/std_get_mut_spec.rs
//@include _shared/std_or_default_spec.rs
//@include _shared/std_hashset_ref_into_iter.rs

pub assume_specification<T>[ std::mem::take::<T> ](dest: &mut T) -> (r: T)
    where T: Default
    ensures r == *old(dest);

// Vec::retain with a closure: ASSUMED, and deliberately weak -- Verus knows nothing about what an un-annotated closure returns,
// so only "what is kept was there before, in the same order-free sense" is stated: every kept element is an old element
pub assume_specification<T, A: std::alloc::Allocator, F: FnMut(&T) -> bool>[ Vec::<T, A>::retain::<F> ](v: &mut Vec<T, A>, f: F)
    ensures
        forall|i: int| 0 <= i < final(v)@.len() ==> old(v)@.contains(#[trigger] final(v)@[i]),
;

// `rand::rng().random_range(0..n)`: the random source. ASSUMED: the result lies in the (non-empty) range; an empty range panics
// in the rand crate, so non-emptiness is a PRECONDITION that the caller has to prove
pub mod rand {
    use super::*;
    pub struct ThreadRng { _p: () }
    #[verifier::external_body]
    pub fn rng() -> (r: ThreadRng) { unimplemented!() }
    impl ThreadRng {
        #[verifier::external_body]
        pub fn random_range(&mut self, range: core::ops::Range<usize>) -> (r: usize)
            requires range.start < range.end,
            ensures range.start <= r < range.end,
        { unimplemented!() }
    }
}

// ---- extracted ---------------------------------------------------------------------------------
//@item broker/src/introspection_database.rs struct IntrospectionQuery
//@item broker/src/introspection_database.rs struct IntrospectionEntry

// #[derive(Default)] on IntrospectionEntry: every field is its type's default (empty map, empty vectors, None). ASSUMED.
impl Default for IntrospectionEntry {
    #[verifier::external_body]
    fn default() -> (r: Self) { unimplemented!() }
}
broadcast axiom fn axiom_default_entry(e: IntrospectionEntry)
    ensures #[trigger] trusted_default::is_default(e) ==> e.conn_id_idxs@ == Map::<ConnectionId, usize>::empty() && e.conn_ids@.len() == 0
        && e.introspection is None && e.queried is None && e.pending@.len() == 0;

impl IntrospectionQuery {
    //@fn broker/src/introspection_database.rs IntrospectionQuery::new
        ensures r.conn_id == conn_id, r.serial == serial,
    //@end
}

impl IntrospectionEntry {
    // representation invariant of an entry that is in the database: `conn_ids` lists the registered connections without
    // repetition, `conn_id_idxs` maps each of them to its position, and at least one connection is registered
    spec fn index_ok(&self) -> bool {
        &&& forall|i: int| 0 <= i < self.conn_ids@.len() ==> #[trigger] self.conn_id_idxs@.contains_key(self.conn_ids@[i])
                && self.conn_id_idxs@[self.conn_ids@[i]] == i
        &&& forall|c: ConnectionId| #[trigger] self.conn_id_idxs@.contains_key(c) ==> self.conn_id_idxs@[c] < self.conn_ids@.len()
                && self.conn_ids@[self.conn_id_idxs@[c] as int] == c
    }
    spec fn inv(&self) -> bool {
        self.index_ok() && self.conn_ids@.len() > 0
    }
    // the connection asked for the introspection is a registered one
    spec fn queried_ok(&self) -> bool {
        self.queried matches Some(q) ==> self.conn_id_idxs@.contains_key(q.conn_id)
    }

    //@fn broker/src/introspection_database.rs IntrospectionEntry::register
        requires old(self).index_ok(),
        ensures
            final(self).inv(),
            final(self).conn_id_idxs@.dom() == old(self).conn_id_idxs@.dom().insert(conn_id),
            final(self).introspection == old(self).introspection, final(self).queried == old(self).queried,
            final(self).pending == old(self).pending,
            old(self).queried_ok() ==> final(self).queried_ok(),
    //@end

    //@fn broker/src/introspection_database.rs IntrospectionEntry::introspection
        ensures (r is Some) == (self.introspection is Some), r is Some ==> *r->Some_0 == self.introspection->Some_0,
    //@end

    //@fn broker/src/introspection_database.rs IntrospectionEntry::queried option-map
        ensures r == (match self.queried { Some(q) => Some(q.serial), None => None }),
    //@end

    //@fn broker/src/introspection_database.rs IntrospectionEntry::add_pending
        requires old(self).introspection is None,
        ensures
            final(self).pending@ == old(self).pending@.push(IntrospectionQuery { conn_id, serial }),
            final(self).conn_id_idxs == old(self).conn_id_idxs, final(self).conn_ids == old(self).conn_ids,
            final(self).introspection == old(self).introspection, final(self).queried == old(self).queried,
    //@end

    // picks a registered connection (never indexes out of bounds, never asks the random source for an empty range)
    //@fn broker/src/introspection_database.rs IntrospectionEntry::query_random_conn
        requires old(self).inv(), old(self).queried is None,
        ensures
            old(self).conn_id_idxs@.contains_key(*r),
            final(self).queried == Some(IntrospectionQuery { conn_id: *r, serial }),
            final(self).queried_ok(),
            final(self).conn_id_idxs == old(self).conn_id_idxs, final(self).conn_ids == old(self).conn_ids,
            final(self).introspection == old(self).introspection, final(self).pending == old(self).pending,
    //@ghost before `debug_assert!(self.queried.is_none());`
        proof { assert(self.conn_id_idxs@.contains_key(self.conn_ids@[0])); }
    //@end

    //@fn broker/src/introspection_database.rs IntrospectionEntry::query_replied
        requires
            old(self).introspection is None,
            // a reply from the queried connection carries the serial of the query (the caller looked the serial up)
            old(self).queried matches Some(q) ==> (q.conn_id == *conn_id ==> q.serial == serial),
        ensures
            r == (old(self).queried matches Some(q) && q.conn_id == *conn_id),
            r ==> final(self).queried is None,
            !r ==> final(self).queried == old(self).queried,
            final(self).conn_id_idxs == old(self).conn_id_idxs, final(self).conn_ids == old(self).conn_ids,
            final(self).introspection == old(self).introspection, final(self).pending == old(self).pending,
    //@end

    //@fn broker/src/introspection_database.rs IntrospectionEntry::set_introspection
        requires old(self).introspection is None,
        ensures
            final(self).introspection == Some(*r), *r == introspection,
            final(self).conn_id_idxs == old(self).conn_id_idxs, final(self).conn_ids == old(self).conn_ids,
            final(self).queried == old(self).queried, final(self).pending == old(self).pending,
    //@end

    //@fn broker/src/introspection_database.rs IntrospectionEntry::take_pending
        ensures
            r == old(self).pending,
            final(self).conn_id_idxs == old(self).conn_id_idxs, final(self).conn_ids == old(self).conn_ids,
            final(self).queried == old(self).queried, final(self).introspection == old(self).introspection,
    //@end

    // removing a connection: `true` iff the entry still has a registered connection; then the index structure is intact again
    // (swap_remove moved the last connection into the hole and its index was updated), the removed connection is no longer
    // registered nor the one being queried, and nothing is pending that was not pending before
    //@fn broker/src/introspection_database.rs IntrospectionEntry::remove_conn
        requires old(self).inv(), old(self).queried_ok(),
        ensures
            final(self).conn_id_idxs@.dom() == old(self).conn_id_idxs@.dom().remove(*conn_id),
            r == (final(self).conn_id_idxs@.len() > 0),
            r ==> final(self).inv() && final(self).queried_ok(),
            final(self).queried matches Some(q) ==> q.conn_id != *conn_id && old(self).queried == final(self).queried,
            old(self).queried matches Some(q) ==> (q.conn_id != *conn_id ==> final(self).queried == old(self).queried),
            final(self).introspection == old(self).introspection,
            forall|i: int| 0 <= i < final(self).pending@.len() ==> old(self).pending@.contains(#[trigger] final(self).pending@[i]),
    //@ghost before `debug_assert!(!self.conn_id_idxs.is_empty());`
        proof { assert(self.conn_id_idxs@.contains_key(self.conn_ids@[0])); }
    //@ghost before#0/2 `true`
        proof {
            let o = old(self);
            let n = o.conn_ids@.len() - 1;
            let cl = o.conn_ids@[n];
            assert(o.conn_id_idxs@.contains_key(cl));
            assert forall|i: int| 0 <= i < self.conn_ids@.len() implies #[trigger] self.conn_id_idxs@.contains_key(self.conn_ids@[i])
                && self.conn_id_idxs@[self.conn_ids@[i]] == i by {
                assert(o.conn_id_idxs@.contains_key(o.conn_ids@[i]));
            }
            assert forall|c: ConnectionId| #[trigger] self.conn_id_idxs@.contains_key(c) implies self.conn_id_idxs@[c] < self.conn_ids@.len()
                && self.conn_ids@[self.conn_id_idxs@[c] as int] == c by {
                assert(o.conn_id_idxs@.contains_key(c));
            }
            let w = choose|c: ConnectionId| self.conn_id_idxs@.contains_key(c);
            assert(self.conn_id_idxs@.contains_key(w));
            assert(self.index_ok());
            assert(self.conn_ids@.len() > 0);
            if self.queried is Some {
                assert(o.conn_id_idxs@.contains_key(self.queried->Some_0.conn_id));
            }
            assert(self.queried_ok());
        }
    //@ghost before#1/2 `true`
        proof {
            let o = old(self);
            assert(self.conn_id_idxs@ == o.conn_id_idxs@);
            assert(self.conn_ids@ == o.conn_ids@);
            assert(self.index_ok());
            assert(self.queried_ok());
        }
    //@end
}

// ---- the database: type id -> entry; every entry has at least one registered connection and an intact index ------------------
//@item broker/src/introspection_database.rs struct IntrospectionDatabase

impl IntrospectionDatabase {
    spec fn inv(&self) -> bool {
        forall|t: TypeId| #[trigger] self.entries@.contains_key(t) ==> self.entries@[t].inv() && self.entries@[t].queried_ok()
    }

    //@fn broker/src/introspection_database.rs IntrospectionDatabase::new
        ensures r.inv(), r.entries@ == Map::<TypeId, IntrospectionEntry>::empty(),
    //@end

    //@fn broker/src/introspection_database.rs IntrospectionDatabase::len
        ensures r == self.entries@.len(),
    //@end

    // registering types for a connection keeps every entry well-formed (new entries start with exactly this connection)
    //@fn broker/src/introspection_database.rs IntrospectionDatabase::register
        requires old(self).inv(),
        ensures final(self).inv(),
    //@loop 0 it
        invariant self.inv(),
    //@ghost loop-start 0
        proof { broadcast use axiom_default_entry; }
    //@end

    //@fn broker/src/introspection_database.rs IntrospectionDatabase::get_mut
        ensures
            (r is Some) == old(self).entries@.contains_key(type_id),
            r is Some ==> *r->Some_0 == old(self).entries@[type_id]
                && final(self).entries@ == old(self).entries@.insert(type_id, *final(r->Some_0)),
            r is None ==> final(self).entries@ == old(self).entries@,
    //@end
}

} // verus!

fn main() {}
