// unit: broker_service      property: C04 (owner sees 0<->1 transitions of subscriber sets)
#![feature(allocator_api)]
use vstd::prelude::*;
use vstd::std_specs::hash::*;
use std::collections::hash_map::{Entry, HashMap};
use std::collections::HashSet;
use std::hash::{Hash, Hasher};

verus! {

// ---- prelude (trusted base) -------------------------------------------------------------------
// ConnectionId: opaque; Hash and Eq are consistent with each other and with spec equality (both derive from the
// numeric id in broker/src/conn_id.rs). ASSUMED via obeys_key_model.
#[verifier::external_body]
pub struct ConnectionId { _p: () }

impl PartialEq for ConnectionId {
    #[verifier::external_body]
    fn eq(&self, other: &Self) -> (r: bool) { unimplemented!() }
}
impl Eq for ConnectionId {}
impl Hash for ConnectionId {
    #[verifier::external_body]
    fn hash<H: Hasher>(&self, state: &mut H) { unimplemented!() }
}

pub mod trusted {
    use super::*;
    pub broadcast axiom fn axiom_connection_id_key_model()
        ensures #[trigger] obeys_key_model::<ConnectionId>();
}

broadcast use {trusted::axiom_connection_id_key_model, vstd::std_specs::hash::group_hash_axioms};

// cookies are UUID newtypes: opaque Copy values
#[verifier::external_body]
#[derive(Clone, Copy)]
pub struct ServiceCookie { _p: () }
#[verifier::external_body]
#[derive(Clone, Copy)]
pub struct ObjectCookie { _p: () }


//@include _shared/std_get_mut_spec.rs

// ---- extracted from broker/src/broker/service.rs ------------------------------------------------------
//@item broker/src/broker/service.rs struct Service

impl Service {
    //@include _shared/service_specs.rs

    //@fn broker/src/broker/service.rs Service::new
        ensures
            r.inv(),
            r.cookie == cookie, r.object_cookie == object_cookie,
            forall|e: u32| r.subs(e) == Set::<ConnectionId>::empty(),
            r.all_events@ == Set::<ConnectionId>::empty(),
            r.subscriptions@ == Set::<ConnectionId>::empty(),
            r.function_calls@ == Set::<u32>::empty(),
    //@end

    //@fn broker/src/broker/service.rs Service::cookie
        ensures r == self.cookie,
    //@end

    //@fn broker/src/broker/service.rs Service::object_cookie
        ensures r == self.object_cookie,
    //@end

    //@fn broker/src/broker/service.rs Service::add_function_call
        requires
            !old(self).function_calls@.contains(serial),   // discharges the debug_assert!(unique)
        ensures
            final(self).function_calls@ == old(self).function_calls@.insert(serial),
            final(self).events == old(self).events, final(self).all_events == old(self).all_events,
            final(self).subscriptions == old(self).subscriptions,
            final(self).cookie == old(self).cookie, final(self).object_cookie == old(self).object_cookie,
            forall|e: u32| #![trigger final(self).subs(e)] #![trigger old(self).subs(e)] final(self).subs(e) == old(self).subs(e),
    //@end

    //@fn broker/src/broker/service.rs Service::remove_function_call
        requires
            old(self).function_calls@.contains(serial),    // discharges the debug_assert!(contained)
        ensures
            final(self).function_calls@ == old(self).function_calls@.remove(serial),
            final(self).events == old(self).events, final(self).all_events == old(self).all_events,
            final(self).subscriptions == old(self).subscriptions,
            final(self).cookie == old(self).cookie, final(self).object_cookie == old(self).object_cookie,
            forall|e: u32| #![trigger final(self).subs(e)] #![trigger old(self).subs(e)] final(self).subs(e) == old(self).subs(e),
    //@end

    //@fn broker/src/broker/service.rs Service::subscribe_event
        requires
            old(self).inv(),
        ensures
            final(self).inv(),
            // the owner is told to start exactly on the 0 -> non-zero transition
            r == (old(self).subs(event) == Set::<ConnectionId>::empty()),
            r == (old(self).subs(event).len() == 0),
            final(self).subs(event) == old(self).subs(event).insert(conn_id),
            forall|e: u32| e != event ==> final(self).subs(e) == old(self).subs(e),
            final(self).all_events == old(self).all_events,
            final(self).subscriptions == old(self).subscriptions,
            final(self).function_calls == old(self).function_calls,
            final(self).cookie == old(self).cookie, final(self).object_cookie == old(self).object_cookie,
    //@end

    //@fn broker/src/broker/service.rs Service::unsubscribe_event
        requires
            old(self).inv(),
        ensures
            final(self).inv(),
            // the owner is told to stop exactly on the non-zero -> 0 transition
            r == (old(self).subs(event).len() > 0 && final(self).subs(event).len() == 0),
            r == (old(self).subs(event) == Set::<ConnectionId>::empty().insert(*conn_id)),
            final(self).subs(event) == old(self).subs(event).remove(*conn_id),
            forall|e: u32| e != event ==> final(self).subs(e) == old(self).subs(e),
            final(self).all_events == old(self).all_events,
            final(self).subscriptions == old(self).subscriptions,
            final(self).function_calls == old(self).function_calls,
            final(self).cookie == old(self).cookie, final(self).object_cookie == old(self).object_cookie,
    //@end

    //@fn broker/src/broker/service.rs Service::subscribe_all_events
        ensures
            r == (old(self).all_events@.len() == 0),
            final(self).all_events@ == old(self).all_events@.insert(conn_id),
            final(self).events == old(self).events,
            final(self).subscriptions == old(self).subscriptions,
            final(self).function_calls == old(self).function_calls,
            final(self).cookie == old(self).cookie, final(self).object_cookie == old(self).object_cookie,
            forall|e: u32| #![trigger final(self).subs(e)] #![trigger old(self).subs(e)] final(self).subs(e) == old(self).subs(e),
    //@end

    //@fn broker/src/broker/service.rs Service::unsubscribe_all_events
        ensures
            r == (old(self).all_events@.len() > 0 && final(self).all_events@.len() == 0),
            final(self).all_events@ == old(self).all_events@.remove(*conn_id),
            final(self).events == old(self).events,
            final(self).subscriptions == old(self).subscriptions,
            final(self).function_calls == old(self).function_calls,
            final(self).cookie == old(self).cookie, final(self).object_cookie == old(self).object_cookie,
            forall|e: u32| #![trigger final(self).subs(e)] #![trigger old(self).subs(e)] final(self).subs(e) == old(self).subs(e),
    //@end

    //@fn broker/src/broker/service.rs Service::subscribe
        ensures
            final(self).subscriptions@ == old(self).subscriptions@.insert(conn_id),
            final(self).events == old(self).events, final(self).all_events == old(self).all_events,
            final(self).function_calls == old(self).function_calls,
            final(self).cookie == old(self).cookie, final(self).object_cookie == old(self).object_cookie,
            forall|e: u32| #![trigger final(self).subs(e)] #![trigger old(self).subs(e)] final(self).subs(e) == old(self).subs(e),
    //@end

    //@fn broker/src/broker/service.rs Service::unsubscribe
        ensures
            final(self).subscriptions@ == old(self).subscriptions@.remove(*conn_id),
            final(self).events == old(self).events, final(self).all_events == old(self).all_events,
            final(self).function_calls == old(self).function_calls,
            final(self).cookie == old(self).cookie, final(self).object_cookie == old(self).object_cookie,
            forall|e: u32| #![trigger final(self).subs(e)] #![trigger old(self).subs(e)] final(self).subs(e) == old(self).subs(e),
    //@end
}

} // verus!

fn main() {}
