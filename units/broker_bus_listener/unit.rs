// unit: broker_bus_listener   property: C10 (listener start/stop state machine, cached-flag reset)
use vstd::prelude::*;
use vstd::std_specs::hash::*;
use vstd::std_specs::cmp::*;
use vstd::std_specs::iter::IteratorSpec;
use vstd::set_lib::*;
use std::collections::HashSet;
use std::hash::{Hash, Hasher};

verus! {

// ---- prelude (trusted base) -------------------------------------------------------------------
#[verifier::external_body]
pub struct ConnectionId { _p: () }

// UUID newtypes: opaque Copy keys with structural equality
macro_rules! opaque_copy_key {
    ($t:ident) => {
        verus! {
        #[verifier::external_body]
        #[derive(Clone, Copy)]
        pub struct $t { _p: () }
        impl PartialEqSpecImpl for $t {
            open spec fn obeys_eq_spec() -> bool { true }
            open spec fn eq_spec(&self, other: &Self) -> bool { *self == *other }
        }
        impl PartialEq for $t {
            #[verifier::external_body]
            fn eq(&self, other: &Self) -> (r: bool) { unimplemented!() }
        }
        impl Eq for $t {}
        impl Hash for $t {
            #[verifier::external_body]
            fn hash<H: Hasher>(&self, state: &mut H) { unimplemented!() }
        }
        }
    };
}
opaque_copy_key!(ObjectUuid);
opaque_copy_key!(ServiceUuid);
opaque_copy_key!(ObjectCookie);
opaque_copy_key!(ServiceCookie);

// the real id structs and bus events (core/src/ids/*.rs, core/src/bus_listener.rs)
//@item core/src/ids/object_id.rs struct ObjectId attr=derive(Clone,Copy)
//@item core/src/ids/service_id.rs struct ServiceId attr=derive(Clone,Copy)
//@item core/src/bus_listener.rs enum BusEvent attr=derive(Clone,Copy)

// the real filter types (core/src/bus_listener.rs). #[derive(PartialEq, Eq, Hash)] = structural equality with a consistent
// hash: ASSUMED (eq_spec below, key-model axiom)
//@item core/src/bus_listener.rs enum BusListenerFilter attr=derive(Clone,Copy)
//@item core/src/bus_listener.rs struct BusListenerServiceFilter attr=derive(Clone,Copy)
impl PartialEqSpecImpl for BusListenerFilter {
    open spec fn obeys_eq_spec() -> bool { true }
    open spec fn eq_spec(&self, other: &Self) -> bool { *self == *other }
}
impl PartialEq for BusListenerFilter {
    #[verifier::external_body]
    fn eq(&self, other: &Self) -> (r: bool) { unimplemented!() }
}
impl Eq for BusListenerFilter {}
impl Hash for BusListenerFilter {
    #[verifier::external_body]
    fn hash<H: Hasher>(&self, state: &mut H) { unimplemented!() }
}

pub mod trusted {
    use super::*;
    pub broadcast axiom fn axiom_filter_key_model()
        ensures #[trigger] obeys_key_model::<BusListenerFilter>();
}

broadcast use {trusted::axiom_filter_key_model, vstd::std_specs::hash::group_hash_axioms};

//@include _shared/std_option_specs.rs

//@include _shared/iter_step.rs
//@include _shared/set_iter_lemmas.rs

// ---- extracted ---------------------------------------------------------------------------------
//@item core/src/bus_listener.rs enum BusListenerScope attr=derive(Clone,Copy)
// #[derive(PartialEq)] on BusListenerScope is structural equality. ASSUMED.
impl PartialEqSpecImpl for BusListenerScope {
    open spec fn obeys_eq_spec() -> bool { true }
    open spec fn eq_spec(&self, other: &Self) -> bool { *self == *other }
}
impl PartialEq for BusListenerScope {
    #[verifier::external_body]
    fn eq(&self, other: &Self) -> (r: bool) { unimplemented!() }
}

// ---- the filter predicate, written from the property statement (the same specification the Kani harnesses
// C10.filter_matches_* check against the compiled code for all inputs) -------------------------------------------
pub open spec fn spec_service_filter_matches(f: BusListenerServiceFilter, id: ServiceId) -> bool {
    &&& (f.object matches Some(o) ==> id.object_id.uuid == o)
    &&& (f.service matches Some(s) ==> id.uuid == s)
}
pub open spec fn spec_matches_object(f: BusListenerFilter, object: ObjectId) -> bool {
    f matches BusListenerFilter::Object(o) && (o matches Some(u) ==> object.uuid == u)
}
pub open spec fn spec_matches_service(f: BusListenerFilter, service: ServiceId) -> bool {
    f matches BusListenerFilter::Service(sf) && spec_service_filter_matches(sf, service)
}
pub open spec fn spec_matches_event(f: BusListenerFilter, event: BusEvent) -> bool {
    match event {
        BusEvent::ObjectCreated(o) => spec_matches_object(f, o),
        BusEvent::ObjectDestroyed(o) => spec_matches_object(f, o),
        BusEvent::ServiceCreated(s) => spec_matches_service(f, s),
        BusEvent::ServiceDestroyed(s) => spec_matches_service(f, s),
    }
}

impl BusListenerScope {
    //@fn core/src/bus_listener.rs BusListenerScope::includes_current
        ensures r == (self == BusListenerScope::Current || self == BusListenerScope::All),
    //@end
    //@fn core/src/bus_listener.rs BusListenerScope::includes_new
        ensures r == (self == BusListenerScope::New || self == BusListenerScope::All),
    //@end
}

impl BusListenerServiceFilter {
    //@fn core/src/bus_listener.rs BusListenerServiceFilter::matches
        ensures r == spec_service_filter_matches(self, id),
    //@end
}

impl BusListenerFilter {
    //@fn core/src/bus_listener.rs BusListenerFilter::matches_object
        ensures r == spec_matches_object(self, object),
    //@end
    //@fn core/src/bus_listener.rs BusListenerFilter::matches_service
        ensures r == spec_matches_service(self, service),
    //@end
    //@fn core/src/bus_listener.rs BusListenerFilter::matches_event
        ensures r == spec_matches_event(self, event),
    //@end
}

//@item broker/src/bus_listener.rs struct BusListener

impl BusListener {
    //@fn broker/src/bus_listener.rs BusListener::new
        ensures
            r.scope is None,                       // a fresh listener is not started
            r.filters@ == Set::<BusListenerFilter>::empty(),
            r.matches_all_objects == false,        // cached flags = their values for the empty filter set
            r.matches_specific_services == true,
            r.conn_id == conn_id,
            r.flags_ok(),
    //@end

    // a filter that names both an object and a service
    spec fn is_specific_service(f: BusListenerFilter) -> bool {
        f matches BusListenerFilter::Service(s) && s.object is Some && s.service is Some
    }

    // the cached flags say what they are meant to say about the filter set: `matches_all_objects` iff the any-object filter
    // is present, `matches_specific_services` iff every filter names both an object and a service (these guard the
    // unreachable!() arms of specific_objects() / specific_services())
    spec fn flags_ok(&self) -> bool {
        &&& self.matches_all_objects == self.filters@.contains(BusListenerFilter::Object(None))
        &&& self.matches_specific_services == (forall|f: BusListenerFilter| self.filters@.contains(f) ==> Self::is_specific_service(f))
    }

    // (`|=` / `&=` on bool desugared by the extractor, normalisation N10)
    //@fn broker/src/bus_listener.rs BusListener::add_filter
        requires old(self).flags_ok(),
        ensures
            final(self).flags_ok(),
            final(self).filters@ == old(self).filters@.insert(filter),
            final(self).scope == old(self).scope,
            final(self).conn_id == old(self).conn_id,
    //@ghost fn-tail
        proof {
            let old_all = forall|f: BusListenerFilter| old(self).filters@.contains(f) ==> Self::is_specific_service(f);
            let new_all = forall|f: BusListenerFilter| self.filters@.contains(f) ==> Self::is_specific_service(f);
            assert(self.filters@ == old(self).filters@.insert(filter));
            if old_all && Self::is_specific_service(filter) {
                assert forall|f: BusListenerFilter| self.filters@.contains(f) implies Self::is_specific_service(f) by {
                    if f != filter { assert(old(self).filters@.contains(f)); }
                }
            }
            if new_all {
                assert(self.filters@.contains(filter));
                assert forall|f: BusListenerFilter| old(self).filters@.contains(f) implies Self::is_specific_service(f) by {
                    assert(self.filters@.contains(f));
                }
            }
            assert(new_all == (old_all && Self::is_specific_service(filter)));
        }
    //@end

    // (`.iter().any(|&f| ..)` / `.iter().all(|f| ..)` desugared into the loops they are, normalisation N12): removing a filter
    // recomputes both cached flags from the remaining set, so `flags_ok` is (re-)established whatever the flags were before
    //@fn broker/src/bus_listener.rs BusListener::remove_filter iter-any-all
        ensures
            final(self).flags_ok(),
            final(self).filters@ == old(self).filters@.remove(filter),
            final(self).scope == old(self).scope,
            final(self).conn_id == old(self).conn_id,
    //@loop? 0 it
        invariant
            it.seq().no_duplicates(), it.seq().len() == self.filters@.len(),
            forall|x: BusListenerFilter| self.filters@.contains(x) ==> #[trigger] it.seq().contains(&x),
            __vp_any0 ==> self.filters@.contains(BusListenerFilter::Object(None)),
            !__vp_any0 && self.filters@.contains(BusListenerFilter::Object(None))
                ==> in_rest(it.seq(), it.index(), &BusListenerFilter::Object(None)),
        ensures !__vp_any0 ==> it.index() == it.seq().len(),
    //@ghost? loop-start 0
        proof { lemma_iter_covers(it.seq(), self.filters@); lemma_iter_step(it.seq(), it.index()); }
    //@loop? 1 it
        invariant
            it.seq().no_duplicates(), it.seq().len() == self.filters@.len(),
            forall|x: BusListenerFilter| self.filters@.contains(x) ==> #[trigger] it.seq().contains(&x),
            !__vp_all1 ==> exists|g: BusListenerFilter| self.filters@.contains(g) && !Self::is_specific_service(g),
            __vp_all1 ==> forall|x: BusListenerFilter| #![trigger self.filters@.contains(x)]
                self.filters@.contains(x) ==> Self::is_specific_service(x) || in_rest(it.seq(), it.index(), &x),
        ensures __vp_all1 ==> it.index() == it.seq().len(),
    //@ghost? loop-start 1
        proof { lemma_iter_covers(it.seq(), self.filters@); lemma_iter_step(it.seq(), it.index()); assert(f == it.seq()[it.index()]); }
    //@ghost? before `__vp_all1 = false;`
        proof { assert(self.filters@.contains(*f)); assert(!Self::is_specific_service(*f)); }
    //@end

    // some filter of the set matches (the plain filter semantics of the property statement)
    spec fn some_filter_matches_object(&self, object: ObjectId) -> bool {
        exists|f: BusListenerFilter| self.filters@.contains(f) && spec_matches_object(f, object)
    }
    spec fn some_filter_matches_service(&self, service: ServiceId) -> bool {
        exists|f: BusListenerFilter| self.filters@.contains(f) && spec_matches_service(f, service)
    }
    spec fn some_filter_matches_event(&self, event: BusEvent) -> bool {
        exists|f: BusListenerFilter| self.filters@.contains(f) && spec_matches_event(f, event)
    }

    // the cached any-object flag short-cuts the scan: right only because of flags_ok
    //@fn broker/src/bus_listener.rs BusListener::matches_object iter-any-all
        requires self.flags_ok(),
        ensures r == self.some_filter_matches_object(object),
    //@ghost before `self.matches_all_objects`
        proof {
            if self.matches_all_objects {
                assert(self.filters@.contains(BusListenerFilter::Object(None)) && spec_matches_object(BusListenerFilter::Object(None), object));
            }
        }
    //@loop 0 it
        invariant
            it.seq().no_duplicates(), it.seq().len() == self.filters@.len(),
            forall|x: BusListenerFilter| self.filters@.contains(x) ==> #[trigger] it.seq().contains(&x),
            __vp_any0 ==> self.some_filter_matches_object(object),
            !__vp_any0 ==> forall|x: BusListenerFilter| #![trigger self.filters@.contains(x)]
                self.filters@.contains(x) && spec_matches_object(x, object) ==> in_rest(it.seq(), it.index(), &x),
        ensures !__vp_any0 ==> it.index() == it.seq().len(),
    //@ghost loop-start 0
        proof { lemma_iter_covers(it.seq(), self.filters@); lemma_iter_step(it.seq(), it.index()); assert(__vp_e0 == it.seq()[it.index()]); }
    //@ghost before `__vp_any0 = true;`
        proof { assert(self.filters@.contains(filter) && spec_matches_object(filter, object)); }
    //@end

    //@fn broker/src/bus_listener.rs BusListener::matches_service iter-any-all
        ensures r == self.some_filter_matches_service(service),
    //@loop 0 it
        invariant
            it.seq().no_duplicates(), it.seq().len() == self.filters@.len(),
            forall|x: BusListenerFilter| self.filters@.contains(x) ==> #[trigger] it.seq().contains(&x),
            __vp_any0 ==> self.some_filter_matches_service(service),
            !__vp_any0 ==> forall|x: BusListenerFilter| #![trigger self.filters@.contains(x)]
                self.filters@.contains(x) && spec_matches_service(x, service) ==> in_rest(it.seq(), it.index(), &x),
        ensures !__vp_any0 ==> it.index() == it.seq().len(),
    //@ghost loop-start 0
        proof { lemma_iter_covers(it.seq(), self.filters@); lemma_iter_step(it.seq(), it.index()); assert(__vp_e0 == it.seq()[it.index()]); }
    //@ghost before `__vp_any0 = true;`
        proof { assert(self.filters@.contains(filter) && spec_matches_service(filter, service)); }
    //@end

    // a started listener whose scope includes new entities reports an event iff some filter matches it; a listener that is
    // not started (or started for current entities only) reports nothing
    //@fn broker/src/bus_listener.rs BusListener::matches_new_event iter-any-all
        ensures r == (self.scope matches Some(sc) && (sc == BusListenerScope::New || sc == BusListenerScope::All)
                      && self.some_filter_matches_event(event)),
    //@loop 0 it
        invariant
            it.seq().no_duplicates(), it.seq().len() == self.filters@.len(),
            forall|x: BusListenerFilter| self.filters@.contains(x) ==> #[trigger] it.seq().contains(&x),
            __vp_any0 ==> self.some_filter_matches_event(event),
            !__vp_any0 ==> forall|x: BusListenerFilter| #![trigger self.filters@.contains(x)]
                self.filters@.contains(x) && spec_matches_event(x, event) ==> in_rest(it.seq(), it.index(), &x),
        ensures !__vp_any0 ==> it.index() == it.seq().len(),
    //@ghost loop-start 0
        proof { lemma_iter_covers(it.seq(), self.filters@); lemma_iter_step(it.seq(), it.index()); assert(__vp_e0 == it.seq()[it.index()]); }
    //@ghost before `__vp_any0 = true;`
        proof { assert(self.filters@.contains(filter) && spec_matches_event(filter, event)); }
    //@end

    //@fn broker/src/bus_listener.rs BusListener::conn_id
        ensures *r == self.conn_id,
    //@end

    //@fn broker/src/bus_listener.rs BusListener::clear_filters
        ensures
            final(self).filters@ == Set::<BusListenerFilter>::empty(),
            final(self).matches_all_objects == false,
            final(self).matches_specific_services == true,
            final(self).flags_ok(),
            final(self).scope == old(self).scope,
            final(self).conn_id == old(self).conn_id,
    //@end

    //@fn broker/src/bus_listener.rs BusListener::start
        ensures
            // starting succeeds iff not started, and records the scope
            r == (old(self).scope is None),
            r ==> final(self).scope == Some(scope),
            !r ==> final(self).scope == old(self).scope,
            final(self).filters == old(self).filters,
            final(self).matches_all_objects == old(self).matches_all_objects,
            final(self).matches_specific_services == old(self).matches_specific_services,
            final(self).conn_id == old(self).conn_id,
            final(self).flags_ok() == old(self).flags_ok(),
    //@end

    //@fn broker/src/bus_listener.rs BusListener::stop
        ensures
            // stopping succeeds iff started, and afterwards the listener is not started
            r == (old(self).scope is Some),
            final(self).scope is None,
            final(self).filters == old(self).filters,
            final(self).matches_all_objects == old(self).matches_all_objects,
            final(self).matches_specific_services == old(self).matches_specific_services,
            final(self).conn_id == old(self).conn_id,
            final(self).flags_ok() == old(self).flags_ok(),
    //@end
}

} // verus!

fn main() {}
