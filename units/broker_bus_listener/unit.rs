// unit: broker_bus_listener   property: C10 (listener start/stop state machine, cached-flag reset)
use vstd::prelude::*;
use vstd::std_specs::hash::*;
use vstd::std_specs::cmp::*;
use vstd::std_specs::iter::IteratorSpec;
use vstd::set_lib::*;
use std::collections::HashSet;
use std::hash::{Hash, Hasher};

verus! {

//@include _shared/bus_filter_prelude.rs
broadcast use {trusted::axiom_filter_key_model, vstd::std_specs::hash::group_hash_axioms};
//@item broker/src/bus_listener.rs struct BusListener

impl BusListener {
    //@fn broker/src/bus_listener.rs BusListener::new
        ensures
            r.scope is None,                       // a fresh listener is not started
            r.filters@ == Set::<BusListenerFilter>::empty(),
            r.matches_all_objects == false,        // cached flags = their values for the empty filter set
            r.matches_specific_services == true,
            r.conn_id == conn_id,
            r.flags_ok(),
    //@end

    // a filter that names both an object and a service
    spec fn is_specific_service(f: BusListenerFilter) -> bool {
        f matches BusListenerFilter::Service(s) && s.object is Some && s.service is Some
    }

    // the cached flags say what they are meant to say about the filter set: `matches_all_objects` iff the any-object filter
    // is present, `matches_specific_services` iff every filter names both an object and a service (these guard the
    // unreachable!() arms of specific_objects() / specific_services())
    spec fn flags_ok(&self) -> bool {
        &&& self.matches_all_objects == self.filters@.contains(BusListenerFilter::Object(None))
        &&& self.matches_specific_services == (forall|f: BusListenerFilter| self.filters@.contains(f) ==> Self::is_specific_service(f))
    }

    // (`|=` / `&=` on bool desugared by the extractor, normalisation N10)
    //@fn broker/src/bus_listener.rs BusListener::add_filter
        requires old(self).flags_ok(),
        ensures
            final(self).flags_ok(),
            final(self).filters@ == old(self).filters@.insert(filter),
            final(self).scope == old(self).scope,
            final(self).conn_id == old(self).conn_id,
    //@ghost fn-tail
        proof {
            let old_all = forall|f: BusListenerFilter| old(self).filters@.contains(f) ==> Self::is_specific_service(f);
            let new_all = forall|f: BusListenerFilter| self.filters@.contains(f) ==> Self::is_specific_service(f);
            assert(self.filters@ == old(self).filters@.insert(filter));
            if old_all && Self::is_specific_service(filter) {
                assert forall|f: BusListenerFilter| self.filters@.contains(f) implies Self::is_specific_service(f) by {
                    if f != filter { assert(old(self).filters@.contains(f)); }
                }
            }
            if new_all {
                assert(self.filters@.contains(filter));
                assert forall|f: BusListenerFilter| old(self).filters@.contains(f) implies Self::is_specific_service(f) by {
                    assert(self.filters@.contains(f));
                }
            }
            assert(new_all == (old_all && Self::is_specific_service(filter)));
        }
    //@end

    // (`.iter().any(|&f| ..)` / `.iter().all(|f| ..)` desugared into the loops they are, normalisation N12): removing a filter
    // recomputes both cached flags from the remaining set, so `flags_ok` is (re-)established whatever the flags were before
    //@fn broker/src/bus_listener.rs BusListener::remove_filter iter-any-all
        ensures
            final(self).flags_ok(),
            final(self).filters@ == old(self).filters@.remove(filter),
            final(self).scope == old(self).scope,
            final(self).conn_id == old(self).conn_id,
    //@loop? 0 it
        invariant
            it.seq().no_duplicates(), it.seq().len() == self.filters@.len(),
            forall|x: BusListenerFilter| self.filters@.contains(x) ==> #[trigger] it.seq().contains(&x),
            __vp_any0 ==> self.filters@.contains(BusListenerFilter::Object(None)),
            !__vp_any0 && self.filters@.contains(BusListenerFilter::Object(None))
                ==> in_rest(it.seq(), it.index(), &BusListenerFilter::Object(None)),
        ensures !__vp_any0 ==> it.index() == it.seq().len(),
    //@ghost? loop-start 0
        proof { lemma_iter_covers(it.seq(), self.filters@); lemma_iter_step(it.seq(), it.index()); }
    //@loop? 1 it
        invariant
            it.seq().no_duplicates(), it.seq().len() == self.filters@.len(),
            forall|x: BusListenerFilter| self.filters@.contains(x) ==> #[trigger] it.seq().contains(&x),
            !__vp_all1 ==> exists|g: BusListenerFilter| self.filters@.contains(g) && !Self::is_specific_service(g),
            __vp_all1 ==> forall|x: BusListenerFilter| #![trigger self.filters@.contains(x)]
                self.filters@.contains(x) ==> Self::is_specific_service(x) || in_rest(it.seq(), it.index(), &x),
        ensures __vp_all1 ==> it.index() == it.seq().len(),
    //@ghost? loop-start 1
        proof { lemma_iter_covers(it.seq(), self.filters@); lemma_iter_step(it.seq(), it.index()); assert(f == it.seq()[it.index()]); }
    //@ghost? before `__vp_all1 = false;`
        proof { assert(self.filters@.contains(*f)); assert(!Self::is_specific_service(*f)); }
    //@end

    // some filter of the set matches (the plain filter semantics of the property statement)
    spec fn some_filter_matches_object(&self, object: ObjectId) -> bool {
        exists|f: BusListenerFilter| self.filters@.contains(f) && spec_matches_object(f, object)
    }
    spec fn some_filter_matches_service(&self, service: ServiceId) -> bool {
        exists|f: BusListenerFilter| self.filters@.contains(f) && spec_matches_service(f, service)
    }
    spec fn some_filter_matches_event(&self, event: BusEvent) -> bool {
        exists|f: BusListenerFilter| self.filters@.contains(f) && spec_matches_event(f, event)
    }

    spec fn has_any_object_filter(&self) -> bool { self.filters@.contains(BusListenerFilter::Object(None)) }

    // the any-object filter matches every object: matches_object's result IS the plain semantics
    proof fn lemma_any_object_filter_matches(&self, object: ObjectId)
        ensures (self.has_any_object_filter() || self.some_filter_matches_object(object))
            == self.some_filter_matches_object(object),
    {
        if self.filters@.contains(BusListenerFilter::Object(None)) {
            assert(spec_matches_object(BusListenerFilter::Object(None), object));
        }
    }

    // the cached any-object flag short-cuts the scan: right only because of flags_ok
    //@fn broker/src/bus_listener.rs BusListener::matches_object iter-any-all
        requires self.flags_ok(),
        // (the first disjunct is implied by the second -- lemma_any_object_filter_matches below --; stated so that the function's
        // own proof needs no witness and hence no ghost text tied to the shape of the short-cut)
        ensures r == (self.has_any_object_filter() || self.some_filter_matches_object(object)),
    //@loop 0 it
        invariant
            it.seq().no_duplicates(), it.seq().len() == self.filters@.len(),
            forall|x: BusListenerFilter| self.filters@.contains(x) ==> #[trigger] it.seq().contains(&x),
            __vp_any0 ==> self.some_filter_matches_object(object),
            !__vp_any0 ==> forall|x: BusListenerFilter| #![trigger self.filters@.contains(x)]
                self.filters@.contains(x) && spec_matches_object(x, object) ==> in_rest(it.seq(), it.index(), &x),
        ensures !__vp_any0 ==> it.index() == it.seq().len(),
    //@ghost loop-start 0
        proof { lemma_iter_covers(it.seq(), self.filters@); lemma_iter_step(it.seq(), it.index()); assert(__vp_e0 == it.seq()[it.index()]); }
    //@ghost before `__vp_any0 = true;`
        proof { assert(self.filters@.contains(filter) && spec_matches_object(filter, object)); }
    //@end

    //@fn broker/src/bus_listener.rs BusListener::matches_service iter-any-all
        ensures r == self.some_filter_matches_service(service),
    //@loop 0 it
        invariant
            it.seq().no_duplicates(), it.seq().len() == self.filters@.len(),
            forall|x: BusListenerFilter| self.filters@.contains(x) ==> #[trigger] it.seq().contains(&x),
            __vp_any0 ==> self.some_filter_matches_service(service),
            !__vp_any0 ==> forall|x: BusListenerFilter| #![trigger self.filters@.contains(x)]
                self.filters@.contains(x) && spec_matches_service(x, service) ==> in_rest(it.seq(), it.index(), &x),
        ensures !__vp_any0 ==> it.index() == it.seq().len(),
    //@ghost loop-start 0
        proof { lemma_iter_covers(it.seq(), self.filters@); lemma_iter_step(it.seq(), it.index()); assert(__vp_e0 == it.seq()[it.index()]); }
    //@ghost before `__vp_any0 = true;`
        proof { assert(self.filters@.contains(filter) && spec_matches_service(filter, service)); }
    //@end

    // a started listener whose scope includes new entities reports an event iff some filter matches it; a listener that is
    // not started (or started for current entities only) reports nothing
    //@fn broker/src/bus_listener.rs BusListener::matches_new_event iter-any-all
        ensures r == (self.scope matches Some(sc) && (sc == BusListenerScope::New || sc == BusListenerScope::All)
                      && self.some_filter_matches_event(event)),
    //@loop 0 it
        invariant
            it.seq().no_duplicates(), it.seq().len() == self.filters@.len(),
            forall|x: BusListenerFilter| self.filters@.contains(x) ==> #[trigger] it.seq().contains(&x),
            __vp_any0 ==> self.some_filter_matches_event(event),
            !__vp_any0 ==> forall|x: BusListenerFilter| #![trigger self.filters@.contains(x)]
                self.filters@.contains(x) && spec_matches_event(x, event) ==> in_rest(it.seq(), it.index(), &x),
        ensures !__vp_any0 ==> it.index() == it.seq().len(),
    //@ghost loop-start 0
        proof { lemma_iter_covers(it.seq(), self.filters@); lemma_iter_step(it.seq(), it.index()); assert(__vp_e0 == it.seq()[it.index()]); }
    //@ghost before `__vp_any0 = true;`
        proof { assert(self.filters@.contains(filter) && spec_matches_event(filter, event)); }
    //@end

    //@fn broker/src/bus_listener.rs BusListener::conn_id
        ensures *r == self.conn_id,
    //@end

    //@fn broker/src/bus_listener.rs BusListener::clear_filters
        ensures
            final(self).filters@ == Set::<BusListenerFilter>::empty(),
            final(self).matches_all_objects == false,
            final(self).matches_specific_services == true,
            final(self).flags_ok(),
            final(self).scope == old(self).scope,
            final(self).conn_id == old(self).conn_id,
    //@end

    //@fn broker/src/bus_listener.rs BusListener::start
        ensures
            // starting succeeds iff not started, and records the scope
            r == (old(self).scope is None),
            r ==> final(self).scope == Some(scope),
            !r ==> final(self).scope == old(self).scope,
            final(self).filters == old(self).filters,
            final(self).matches_all_objects == old(self).matches_all_objects,
            final(self).matches_specific_services == old(self).matches_specific_services,
            final(self).conn_id == old(self).conn_id,
            final(self).flags_ok() == old(self).flags_ok(),
    //@end

    //@fn broker/src/bus_listener.rs BusListener::stop
        ensures
            // stopping succeeds iff started, and afterwards the listener is not started
            r == (old(self).scope is Some),
            final(self).scope is None,
            final(self).filters == old(self).filters,
            final(self).matches_all_objects == old(self).matches_all_objects,
            final(self).matches_specific_services == old(self).matches_specific_services,
            final(self).conn_id == old(self).conn_id,
            final(self).flags_ok() == old(self).flags_ok(),
    //@end
}

} // verus!

fn main() {}
