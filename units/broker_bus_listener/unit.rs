// unit: broker_bus_listener   property: C10 (listener start/stop state machine, cached-flag reset)
use vstd::prelude::*;
use vstd::std_specs::hash::*;
use std::collections::HashSet;
use std::hash::{Hash, Hasher};

verus! {

// ---- prelude (trusted base) -------------------------------------------------------------------
#[verifier::external_body]
pub struct ConnectionId { _p: () }

// BusListenerFilter is opaque here: the functions under contract never look inside a filter.
#[verifier::external_body]
#[derive(Clone, Copy)]
pub struct BusListenerFilter { _p: () }

impl PartialEq for BusListenerFilter {
    #[verifier::external_body]
    fn eq(&self, other: &Self) -> (r: bool) { unimplemented!() }
}
impl Eq for BusListenerFilter {}
impl Hash for BusListenerFilter {
    #[verifier::external_body]
    fn hash<H: Hasher>(&self, state: &mut H) { unimplemented!() }
}

pub mod trusted {
    use super::*;
    pub broadcast axiom fn axiom_filter_key_model()
        ensures #[trigger] obeys_key_model::<BusListenerFilter>();
}

broadcast use {trusted::axiom_filter_key_model, vstd::std_specs::hash::group_hash_axioms};

//@include _shared/std_option_specs.rs

// ---- extracted ---------------------------------------------------------------------------------
//@item core/src/bus_listener.rs enum BusListenerScope attr=derive(Clone,Copy)
//@item broker/src/bus_listener.rs struct BusListener

impl BusListener {
    //@fn broker/src/bus_listener.rs BusListener::new
        ensures
            r.scope is None,                       // a fresh listener is not started
            r.filters@ == Set::<BusListenerFilter>::empty(),
            r.matches_all_objects == false,        // cached flags = their values for the empty filter set
            r.matches_specific_services == true,
            r.conn_id == conn_id,
    //@end

    //@fn broker/src/bus_listener.rs BusListener::conn_id
        ensures *r == self.conn_id,
    //@end

    //@fn broker/src/bus_listener.rs BusListener::clear_filters
        ensures
            final(self).filters@ == Set::<BusListenerFilter>::empty(),
            final(self).matches_all_objects == false,
            final(self).matches_specific_services == true,
            final(self).scope == old(self).scope,
            final(self).conn_id == old(self).conn_id,
    //@end

    //@fn broker/src/bus_listener.rs BusListener::start
        ensures
            // starting succeeds iff not started, and records the scope
            r == (old(self).scope is None),
            r ==> final(self).scope == Some(scope),
            !r ==> final(self).scope == old(self).scope,
            final(self).filters == old(self).filters,
            final(self).matches_all_objects == old(self).matches_all_objects,
            final(self).matches_specific_services == old(self).matches_specific_services,
            final(self).conn_id == old(self).conn_id,
    //@end

    //@fn broker/src/bus_listener.rs BusListener::stop
        ensures
            // stopping succeeds iff started, and afterwards the listener is not started
            r == (old(self).scope is Some),
            final(self).scope is None,
            final(self).filters == old(self).filters,
            final(self).matches_all_objects == old(self).matches_all_objects,
            final(self).matches_specific_services == old(self).matches_specific_services,
            final(self).conn_id == old(self).conn_id,
    //@end
}

} // verus!

fn main() {}
