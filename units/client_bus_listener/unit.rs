// unit: client_bus_listener   property: C10 (the client's end of a bus listener, aldrin/src/bus_listener.rs BusListenerHandle:
// the broker sends an untagged new-event once per CONNECTION; the client hands it to each of its listeners that is started with a
// scope including new entities and has a matching filter -- the same predicate as on the broker side)
use vstd::prelude::*;
use vstd::std_specs::hash::*;
use vstd::std_specs::cmp::*;
use vstd::std_specs::iter::IteratorSpec;
use vstd::set_lib::*;
use std::collections::HashSet;
use std::hash::{Hash, Hasher};

verus! {

//@include _shared/bus_filter_prelude.rs
broadcast use {trusted::axiom_filter_key_model, vstd::std_specs::hash::group_hash_axioms};

// the channel to the listener's stream (futures_channel::mpsc): opaque; what is sent is not part of the state model
#[verifier::external_body]
#[verifier::reject_recursive_types(T)]
pub struct UnboundedSender<T> { _p: core::marker::PhantomData<T> }
#[verifier::external_body]
#[verifier::reject_recursive_types(T)]
pub struct TrySendError<T> { _p: core::marker::PhantomData<T> }
impl<T> UnboundedSender<T> {
    #[verifier::external_body]
    pub fn unbounded_send(&self, msg: T) -> (r: Result<(), TrySendError<T>>) { unimplemented!() }
}

//@item aldrin/src/bus_listener.rs enum BusListenerEvent vis=pub
//@item aldrin/src/bus_listener.rs struct BusListenerHandle

impl BusListenerHandle {
    spec fn some_filter_matches_event(&self, event: BusEvent) -> bool {
        exists|f: BusListenerFilter| self.filters@.contains(f) && spec_matches_event(f, event)
    }

    //@fn aldrin/src/bus_listener.rs BusListenerHandle::new
        ensures r.scope is None, r.filters@ == Set::<BusListenerFilter>::empty(), !r.current_finished,
    //@end

    //@fn aldrin/src/bus_listener.rs BusListenerHandle::add_filter
        ensures final(self).filters@ == old(self).filters@.insert(filter), final(self).scope == old(self).scope,
            final(self).current_finished == old(self).current_finished,
    //@end

    //@fn aldrin/src/bus_listener.rs BusListenerHandle::remove_filter
        ensures final(self).filters@ == old(self).filters@.remove(filter), final(self).scope == old(self).scope,
            final(self).current_finished == old(self).current_finished,
    //@end

    //@fn aldrin/src/bus_listener.rs BusListenerHandle::clear_filters
        ensures final(self).filters@ == Set::<BusListenerFilter>::empty(), final(self).scope == old(self).scope,
            final(self).current_finished == old(self).current_finished,
    //@end

    // starting succeeds iff not started; the listener then waits for the end-of-current marker exactly when the scope includes
    // current entities; a refused start changes nothing
    //@fn aldrin/src/bus_listener.rs BusListenerHandle::start
        ensures
            r == (old(self).scope is None),
            r ==> final(self).scope == Some(scope)
                && final(self).current_finished == !(scope == BusListenerScope::Current || scope == BusListenerScope::All),
            !r ==> final(self).scope == old(self).scope && final(self).current_finished == old(self).current_finished,
            final(self).filters == old(self).filters,
    //@end

    //@fn aldrin/src/bus_listener.rs BusListenerHandle::stop
        ensures
            r == (old(self).scope is Some),
            final(self).scope is None,
            final(self).filters == old(self).filters, final(self).current_finished == old(self).current_finished,
    //@end

    // the end-of-current marker is passed on once
    //@fn aldrin/src/bus_listener.rs BusListenerHandle::current_finished
        ensures
            r == !old(self).current_finished,
            final(self).current_finished,
            final(self).filters == old(self).filters, final(self).scope == old(self).scope,
    //@end

    //@fn aldrin/src/bus_listener.rs BusListenerHandle::includes_current
        ensures r == (self.scope matches Some(sc) && (sc == BusListenerScope::Current || sc == BusListenerScope::All)),
    //@end

    //@fn aldrin/src/bus_listener.rs BusListenerHandle::includes_new
        ensures r == (self.scope matches Some(sc) && (sc == BusListenerScope::New || sc == BusListenerScope::All)),
    //@end

    // a tagged (current) event is passed on (r) exactly while the listener is started with a scope that includes current
    // entities and the end-of-current marker has not been seen
    //@fn aldrin/src/bus_listener.rs BusListenerHandle::emit_current
        ensures r == ((self.scope matches Some(sc) && (sc == BusListenerScope::Current || sc == BusListenerScope::All))
                      && !self.current_finished),
    //@end

    //@fn aldrin/src/bus_listener.rs BusListenerHandle::matches_filters iter-any-all
        ensures r == self.some_filter_matches_event(event),
    //@loop 0 it
        invariant
            it.seq().no_duplicates(), it.seq().len() == self.filters@.len(),
            forall|x: BusListenerFilter| self.filters@.contains(x) ==> #[trigger] it.seq().contains(&x),
            __vp_any0 ==> self.some_filter_matches_event(event),
            !__vp_any0 ==> forall|x: BusListenerFilter| #![trigger self.filters@.contains(x)]
                self.filters@.contains(x) && spec_matches_event(x, event) ==> in_rest(it.seq(), it.index(), &x),
        ensures !__vp_any0 ==> it.index() == it.seq().len(),
    //@ghost loop-start 0
        proof { lemma_iter_covers(it.seq(), self.filters@); lemma_iter_step(it.seq(), it.index()); assert(filter == it.seq()[it.index()]); }
    //@ghost before `__vp_any0 = true;`
        proof { assert(self.filters@.contains(*filter) && spec_matches_event(*filter, event)); }
    //@end

    // whether the event is passed on is not observable in the state (the send goes into an opaque channel); verified here: no panic
    //@fn aldrin/src/bus_listener.rs BusListenerHandle::emit_new_if_matches
    //@end
}

} // verus!

fn main() {}
