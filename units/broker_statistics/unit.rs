// unit: broker_statistics   property: C09 (the statistics record, broker/src/broker/statistics.rs: taking a snapshot resets the
// per-interval message counters ONLY; the table-size counters, which the handlers keep equal to the table sizes, survive it)
use vstd::prelude::*;

verus! {

// std::time::Instant: opaque Copy value; `now()` has no specification
#[verifier::external_body]
#[derive(Clone, Copy)]
pub struct Instant { _p: () }
impl Instant {
    #[verifier::external_body]
    pub fn now() -> (r: Self) { unimplemented!() }
}

//@item broker/src/broker/statistics.rs struct BrokerStatistics

// #[derive(Clone)] on BrokerStatistics (all fields Copy): the clone equals the original. ASSUMED.
impl Clone for BrokerStatistics {
    #[verifier::external_body]
    fn clone(&self) -> (r: Self)
        ensures r == *self,
    { unimplemented!() }
}

impl BrokerStatistics {
    //@fn broker/src/broker/statistics.rs BrokerStatistics::new vis=crate
        ensures
            r.messages_sent == 0, r.messages_received == 0, r.num_connections == 0, r.num_objects == 0, r.num_services == 0,
            r.num_channels == 0, r.num_bus_listeners == 0, r.start == r.end,
    //@end

    //@fn broker/src/broker/statistics.rs BrokerStatistics::take vis=crate
        ensures
            // the snapshot: everything as it was, except the end timestamp
            r.start == old(self).start,
            r.messages_sent == old(self).messages_sent, r.messages_received == old(self).messages_received,
            r.num_connections == old(self).num_connections, r.num_objects == old(self).num_objects,
            r.num_services == old(self).num_services, r.num_channels == old(self).num_channels,
            r.num_bus_listeners == old(self).num_bus_listeners,
            // what is kept: a new interval starts where the snapshot ends, the message counters restart, the table-size counters
            // are untouched
            final(self).start == r.end, final(self).end == old(self).end,
            final(self).messages_sent == 0, final(self).messages_received == 0,
            final(self).num_connections == old(self).num_connections, final(self).num_objects == old(self).num_objects,
            final(self).num_services == old(self).num_services, final(self).num_channels == old(self).num_channels,
            final(self).num_bus_listeners == old(self).num_bus_listeners,
    //@end

    //@fn broker/src/broker/statistics.rs BrokerStatistics::messages_sent vis=crate
        ensures r == self.messages_sent,
    //@end
    //@fn broker/src/broker/statistics.rs BrokerStatistics::messages_received vis=crate
        ensures r == self.messages_received,
    //@end
    //@fn broker/src/broker/statistics.rs BrokerStatistics::num_connections vis=crate
        ensures r == self.num_connections,
    //@end
    //@fn broker/src/broker/statistics.rs BrokerStatistics::num_objects vis=crate
        ensures r == self.num_objects,
    //@end
    //@fn broker/src/broker/statistics.rs BrokerStatistics::num_services vis=crate
        ensures r == self.num_services,
    //@end
    //@fn broker/src/broker/statistics.rs BrokerStatistics::num_channels vis=crate
        ensures r == self.num_channels,
    //@end
    //@fn broker/src/broker/statistics.rs BrokerStatistics::num_bus_listeners vis=crate
        ensures r == self.num_bus_listeners,
    //@end
}

} // verus!

fn main() {}
