// unit: broker_handlers_subs   property: C04 (subscription handlers: both sides of the subscription mirror change together,
// the owner is told via the deferred-work queue exactly on the last-subscriber transition); C09 (cleanup helpers); C12 (gates)
// Subscription handlers of broker/src/broker.rs verified against the CONTRACTS of Service, ConnectionState and State, under the
// same registry invariant as unit broker_handlers_registry (shared text: units/_shared/registry_inv.rs).
#![feature(allocator_api)]
use vstd::prelude::*;
use vstd::std_specs::hash::*;
use vstd::std_specs::cmp::*;
use std::collections::hash_map::{Entry, HashMap, OccupiedEntry};
use std::collections::HashSet;
use std::hash::{Hash, Hasher};
use std::mem;

verus! {

//@keep-cfg statistics
//@include _shared/registry_preamble_a.rs
//@include _shared/statistics_items.rs
opaque!(Channel);
opaque!(BusListener);
//@item core/src/message/subscribe_event.rs struct SubscribeEvent attr=derive(Clone,Copy)
//@item core/src/message/subscribe_event_reply.rs enum SubscribeEventResult
//@item core/src/message/subscribe_event_reply.rs struct SubscribeEventReply
//@item core/src/message/unsubscribe_event.rs struct UnsubscribeEvent attr=derive(Clone,Copy)
//@item core/src/message/emit_event.rs struct EmitEvent
//@item core/src/message/subscribe_service.rs struct SubscribeService
//@item core/src/message/subscribe_service_reply.rs enum SubscribeServiceResult
//@item core/src/message/subscribe_service_reply.rs struct SubscribeServiceReply
//@item core/src/message/unsubscribe_service.rs struct UnsubscribeService
//@item core/src/message/subscribe_all_events.rs struct SubscribeAllEvents
//@item core/src/message/subscribe_all_events_reply.rs enum SubscribeAllEventsResult
//@item core/src/message/subscribe_all_events_reply.rs struct SubscribeAllEventsReply
//@item core/src/message/unsubscribe_all_events.rs struct UnsubscribeAllEvents
//@item core/src/message/unsubscribe_all_events_reply.rs enum UnsubscribeAllEventsResult
//@item core/src/message/unsubscribe_all_events_reply.rs struct UnsubscribeAllEventsReply

// protocol minor version that introduced each message kind sent by these handlers (0 = base protocol 1.14)
impl IntoMessage for SubscribeEvent { open spec fn min_minor() -> u32 { 0 } open spec fn allowed_for(&self, receiver: &ConnectionState) -> bool { true } }
impl IntoMessage for SubscribeEventReply { open spec fn min_minor() -> u32 { 0 } open spec fn allowed_for(&self, receiver: &ConnectionState) -> bool { true } }
impl IntoMessage for UnsubscribeEvent { open spec fn min_minor() -> u32 { 0 } open spec fn allowed_for(&self, receiver: &ConnectionState) -> bool { true } }
impl IntoMessage for SubscribeServiceReply { open spec fn min_minor() -> u32 { 18 } open spec fn allowed_for(&self, receiver: &ConnectionState) -> bool { true } }
impl IntoMessage for SubscribeAllEvents { open spec fn min_minor() -> u32 { 18 } open spec fn allowed_for(&self, receiver: &ConnectionState) -> bool { true } }
impl IntoMessage for SubscribeAllEventsReply { open spec fn min_minor() -> u32 { 18 } open spec fn allowed_for(&self, receiver: &ConnectionState) -> bool { true } }
impl IntoMessage for UnsubscribeAllEvents { open spec fn min_minor() -> u32 { 18 } open spec fn allowed_for(&self, receiver: &ConnectionState) -> bool { true } }
impl IntoMessage for UnsubscribeAllEventsReply { open spec fn min_minor() -> u32 { 18 } open spec fn allowed_for(&self, receiver: &ConnectionState) -> bool { true } }

// #[derive(Clone)] of EmitEvent clones field by field. ASSUMED (the payload is opaque here).
impl Clone for EmitEvent {
    #[verifier::external_body]
    fn clone(&self) -> (r: Self)
        ensures r.service_cookie == self.service_cookie, r.event == self.event
    { unimplemented!() }
}

// ROUTING (C04): an event is delivered only to a connection that is subscribed to that event id of that service or to all
// events of the service ("... and to no other connection")
impl IntoMessage for EmitEvent {
    open spec fn min_minor() -> u32 { 0 }
    closed spec fn allowed_for(&self, receiver: &ConnectionState) -> bool {
        receiver.all_events@.contains(self.service_cookie) || receiver.ev(self.service_cookie).contains(self.event)
    }
}


//@include _shared/registry_preamble_b.rs
impl Broker {
    //@include _shared/registry_inv.rs
    //@include _shared/statistics_specs.rs

    // ---- per-event subscriptions -------------------------------------------------------------------------------
    //@fn broker/src/broker.rs Broker::subscribe_event
        requires
            old(self).reg_inv(),
        ensures
            // a subscription is recorded only for a connected requester, a request with a serial and a live service
            (req.serial is None || !old(self).conns@.contains_key(*id) || !old(self).svc_uuids@.contains_key(req.service_cookie))
                ==> final(self).unchanged(old(self)),
            req.serial is None ==> r is Err,
            (req.serial is Some && old(self).conns@.contains_key(*id) && old(self).svc_uuids@.contains_key(req.service_cookie)) ==> {
                let k = old(self).skey(req.service_cookie);
                ||| (r is Err && final(self).unchanged(old(self)))
                // recorded on BOTH sides (service and connection), nothing else changes
                ||| (r is Ok && final(self).only_subs_changed(old(self), k, *id)
                        && final(self).svcs@[k].subs(req.event) == old(self).svcs@[k].subs(req.event).insert(*id)
                        && (forall|e: u32| e != req.event ==> final(self).svcs@[k].subs(e) == old(self).svcs@[k].subs(e))
                        && final(self).svcs@[k].all_events == old(self).svcs@[k].all_events
                        && final(self).svcs@[k].subscriptions == old(self).svcs@[k].subscriptions
                        && final(self).conns@[*id].ev(req.service_cookie) == old(self).conns@[*id].ev(req.service_cookie).insert(req.event)
                        && (forall|o: ServiceCookie| o != req.service_cookie ==> final(self).conns@[*id].ev(o) == old(self).conns@[*id].ev(o))
                        && final(self).conns@[*id].rest_eq(&old(self).conns@[*id], 3))
            },
            final(self).stat_same(old(self)),   // no counter is touched
            // the invariant last (the frame facts above are then available), conjunct by conjunct (one query each
            // keeps the solver stable), then as a whole
            final(self).inv_objects(), final(self).inv_services(), final(self).inv_object_services(), final(self).inv_ownership(),
            final(self).inv_calls(), final(self).inv_callers(), final(self).inv_conns(), final(self).inv_subs(),
            final(self).reg_winv(), final(self).reg_inv(),
    //@end

    //@fn broker/src/broker.rs Broker::unsubscribe_event
        requires
            old(self).reg_inv(),
        ensures
            (!old(self).conns@.contains_key(*id) || !old(self).svc_uuids@.contains_key(req.service_cookie))
                ==> final(self).unchanged(old(self)),
            (old(self).conns@.contains_key(*id) && old(self).svc_uuids@.contains_key(req.service_cookie)) ==> {
                let k = old(self).skey(req.service_cookie);
                // removed on BOTH sides, nothing else changes
                &&& final(self).only_subs_changed(old(self), k, *id)
                &&& final(self).svcs@[k].subs(req.event) == old(self).svcs@[k].subs(req.event).remove(*id)
                &&& forall|e: u32| e != req.event ==> final(self).svcs@[k].subs(e) == old(self).svcs@[k].subs(e)
                &&& final(self).svcs@[k].all_events == old(self).svcs@[k].all_events
                &&& final(self).svcs@[k].subscriptions == old(self).svcs@[k].subscriptions
                &&& final(self).conns@[*id].ev(req.service_cookie) == old(self).conns@[*id].ev(req.service_cookie).remove(req.event)
                &&& forall|o: ServiceCookie| o != req.service_cookie ==> final(self).conns@[*id].ev(o) == old(self).conns@[*id].ev(o)
                &&& final(self).conns@[*id].rest_eq(&old(self).conns@[*id], 3)
            },
            final(self).stat_same(old(self)),   // no counter is touched
            // the invariant last (the frame facts above are then available), conjunct by conjunct (one query each
            // keeps the solver stable), then as a whole
            final(self).inv_objects(), final(self).inv_services(), final(self).inv_object_services(), final(self).inv_ownership(),
            final(self).inv_calls(), final(self).inv_callers(), final(self).inv_conns(), final(self).inv_subs(),
            final(self).reg_winv(), final(self).reg_inv(),
    //@end

    // cleanup of one per-event subscription of a (possibly already removed) connection; the owner of the service is told
    // through the deferred-work queue exactly when this was the last subscriber of that event
    //@fn broker/src/broker.rs Broker::remove_event_subscription
        requires
            old(self).reg_winv(), old(self).no_orphans(),
        ensures
            final(self).no_orphans(),
            !old(self).svc_uuids@.contains_key(svc_cookie) ==> final(self).unchanged(old(self)) && *final(state) == *old(state),
            old(self).svc_uuids@.contains_key(svc_cookie) ==> {
                let k = old(self).skey(svc_cookie);
                let owner = old(self).objs@[k.0].conn_id;
                &&& final(self).only_subs_changed(old(self), k, *conn_id)
                &&& final(self).svcs@[k].subs(event) == old(self).svcs@[k].subs(event).remove(*conn_id)
                &&& forall|e: u32| e != event ==> final(self).svcs@[k].subs(e) == old(self).svcs@[k].subs(e)
                &&& final(self).svcs@[k].all_events == old(self).svcs@[k].all_events
                &&& final(self).svcs@[k].subscriptions == old(self).svcs@[k].subscriptions
                &&& old(self).conns@.contains_key(*conn_id) ==> {
                        &&& final(self).conns@[*conn_id].ev(svc_cookie) == old(self).conns@[*conn_id].ev(svc_cookie).remove(event)
                        &&& forall|o: ServiceCookie| o != svc_cookie ==> final(self).conns@[*conn_id].ev(o) == old(self).conns@[*conn_id].ev(o)
                        &&& final(self).conns@[*conn_id].rest_eq(&old(self).conns@[*conn_id], 3)
                    }
                // the owner is told to stop producing the event exactly on the non-zero -> zero transition
                &&& (old(self).svcs@[k].subs(event).len() > 0 && final(self).svcs@[k].subs(event).len() == 0) ==>
                        final(state).unsubscribe_event@ == old(state).unsubscribe_event@.push((owner, svc_cookie, event))
                &&& !(old(self).svcs@[k].subs(event).len() > 0 && final(self).svcs@[k].subs(event).len() == 0) ==>
                        final(state).unsubscribe_event@ == old(state).unsubscribe_event@
                &&& final(state).rest_eq(old(state), 5)
            },
            final(self).stat_same(old(self)),   // no counter is touched
            // the invariant last (the frame facts above are then available), conjunct by conjunct (one query each
            // keeps the solver stable), then as a whole
            final(self).inv_objects(), final(self).inv_services(), final(self).inv_object_services(), final(self).inv_ownership(),
            final(self).inv_calls(), final(self).inv_callers(), final(self).inv_conns(), final(self).inv_subs(),
            final(self).reg_winv(),
    //@end

    //@fn broker/src/broker.rs Broker::remove_all_events_subscription
        requires
            old(self).reg_winv(), old(self).no_orphans(),
        ensures
            final(self).no_orphans(),
            !old(self).svc_uuids@.contains_key(svc_cookie) ==> final(self).unchanged(old(self)) && *final(state) == *old(state),
            old(self).svc_uuids@.contains_key(svc_cookie) ==> {
                let k = old(self).skey(svc_cookie);
                let owner = old(self).objs@[k.0].conn_id;
                &&& final(self).only_subs_changed(old(self), k, *conn_id)
                &&& final(self).svcs@[k].all_events@ == old(self).svcs@[k].all_events@.remove(*conn_id)
                &&& final(self).svcs@[k].events == old(self).svcs@[k].events && final(self).svc_events_same(old(self), k)
                &&& final(self).svcs@[k].subscriptions == old(self).svcs@[k].subscriptions
                &&& old(self).conns@.contains_key(*conn_id) ==> {
                        &&& final(self).conns@[*conn_id].all_events@ == old(self).conns@[*conn_id].all_events@.remove(svc_cookie)
                        &&& final(self).conns@[*conn_id].rest_eq(&old(self).conns@[*conn_id], 4) && final(self).conn_events_same(old(self), *conn_id)
                    }
                &&& (old(self).svcs@[k].all_events@.len() > 0 && final(self).svcs@[k].all_events@.len() == 0) ==>
                        final(state).unsubscribe_all_events@ == old(state).unsubscribe_all_events@.push((owner, svc_cookie))
                &&& !(old(self).svcs@[k].all_events@.len() > 0 && final(self).svcs@[k].all_events@.len() == 0) ==>
                        final(state).unsubscribe_all_events@ == old(state).unsubscribe_all_events@
                &&& final(state).rest_eq(old(state), 6)
            },
            final(self).stat_same(old(self)),   // no counter is touched
            // the invariant last (the frame facts above are then available), conjunct by conjunct (one query each
            // keeps the solver stable), then as a whole
            final(self).inv_objects(), final(self).inv_services(), final(self).inv_object_services(), final(self).inv_ownership(),
            final(self).inv_calls(), final(self).inv_callers(), final(self).inv_conns(), final(self).inv_subs(),
            final(self).reg_winv(),
    //@end

    //@fn broker/src/broker.rs Broker::remove_subscription
        requires
            old(self).reg_winv(),
        ensures
            old(self).no_orphans() ==> final(self).no_orphans(),
            final(self).conns@ =~= old(self).conns@,
            !old(self).svc_uuids@.contains_key(svc_cookie) ==> final(self).unchanged(old(self)),
            old(self).svc_uuids@.contains_key(svc_cookie) ==> {
                let k = old(self).skey(svc_cookie);
                &&& final(self).only_subs_changed(old(self), k, *conn_id)
                &&& final(self).svcs@[k].subscriptions@ == old(self).svcs@[k].subscriptions@.remove(*conn_id)
                &&& final(self).svcs@[k].events == old(self).svcs@[k].events && final(self).svc_events_same(old(self), k)
                &&& final(self).svcs@[k].all_events == old(self).svcs@[k].all_events
            },
            final(self).stat_same(old(self)),   // no counter is touched
            // the invariant last (the frame facts above are then available), conjunct by conjunct (one query each
            // keeps the solver stable), then as a whole
            final(self).inv_objects(), final(self).inv_services(), final(self).inv_object_services(), final(self).inv_ownership(),
            final(self).inv_calls(), final(self).inv_callers(), final(self).inv_conns(), final(self).inv_subs(),
            final(self).reg_winv(),
    //@end

    // ---- service subscriptions (protocol 1.18) -----------------------------------------------------------------------
    //@fn broker/src/broker.rs Broker::subscribe_service
        requires
            old(self).reg_inv(),
        ensures
            !old(self).conns@.contains_key(*id) ==> r is Ok && final(self).unchanged(old(self)),
            // SubscribeService exists since protocol 1.18: a connection negotiated below that is closed
            (old(self).conns@.contains_key(*id) && ProtocolVersion::lex_cmp(old(self).conns@[*id].version, ProtocolVersion::V1_18) == core::cmp::Ordering::Less) ==> r is Err && final(self).unchanged(old(self)),
            (old(self).conns@.contains_key(*id) && !old(self).svc_uuids@.contains_key(req.service_cookie)) ==> final(self).unchanged(old(self)),
            (old(self).conns@.contains_key(*id) && !(ProtocolVersion::lex_cmp(old(self).conns@[*id].version, ProtocolVersion::V1_18) == core::cmp::Ordering::Less) && old(self).svc_uuids@.contains_key(req.service_cookie)) ==> {
                let k = old(self).skey(req.service_cookie);
                ||| (r is Err && final(self).unchanged(old(self)))
                ||| (r is Ok && final(self).only_subs_changed(old(self), k, *id)
                        && final(self).svcs@[k].subscriptions@ == old(self).svcs@[k].subscriptions@.insert(*id)
                        && final(self).svcs@[k].events == old(self).svcs@[k].events && final(self).svc_events_same(old(self), k)
                        && final(self).svcs@[k].all_events == old(self).svcs@[k].all_events
                        && final(self).conns@[*id].subscriptions@ == old(self).conns@[*id].subscriptions@.insert(req.service_cookie)
                        && final(self).conns@[*id].rest_eq(&old(self).conns@[*id], 5) && final(self).conn_events_same(old(self), *id))
            },
            final(self).stat_same(old(self)),   // no counter is touched
            // the invariant last (the frame facts above are then available), conjunct by conjunct (one query each
            // keeps the solver stable), then as a whole
            final(self).inv_objects(), final(self).inv_services(), final(self).inv_object_services(), final(self).inv_ownership(),
            final(self).inv_calls(), final(self).inv_callers(), final(self).inv_conns(), final(self).inv_subs(),
            final(self).reg_winv(), final(self).reg_inv(),
    //@end

    //@fn broker/src/broker.rs Broker::unsubscribe_service
        requires
            old(self).reg_inv(),
        ensures
            !old(self).conns@.contains_key(*id) ==> r is Ok && final(self).unchanged(old(self)),
            (old(self).conns@.contains_key(*id) && ProtocolVersion::lex_cmp(old(self).conns@[*id].version, ProtocolVersion::V1_18) == core::cmp::Ordering::Less) ==> r is Err && final(self).unchanged(old(self)),
            (old(self).conns@.contains_key(*id) && !old(self).svc_uuids@.contains_key(req.service_cookie)) ==> final(self).unchanged(old(self)),
            (old(self).conns@.contains_key(*id) && !(ProtocolVersion::lex_cmp(old(self).conns@[*id].version, ProtocolVersion::V1_18) == core::cmp::Ordering::Less) && old(self).svc_uuids@.contains_key(req.service_cookie)) ==> {
                let k = old(self).skey(req.service_cookie);
                &&& r is Ok
                &&& final(self).only_subs_changed(old(self), k, *id)
                &&& final(self).svcs@[k].subscriptions@ == old(self).svcs@[k].subscriptions@.remove(*id)
                &&& final(self).svcs@[k].events == old(self).svcs@[k].events && final(self).svc_events_same(old(self), k)
                &&& final(self).svcs@[k].all_events == old(self).svcs@[k].all_events
                &&& final(self).conns@[*id].subscriptions@ == old(self).conns@[*id].subscriptions@.remove(req.service_cookie)
                &&& final(self).conns@[*id].rest_eq(&old(self).conns@[*id], 5) && final(self).conn_events_same(old(self), *id)
            },
            final(self).stat_same(old(self)),   // no counter is touched
            // the invariant last (the frame facts above are then available), conjunct by conjunct (one query each
            // keeps the solver stable), then as a whole
            final(self).inv_objects(), final(self).inv_services(), final(self).inv_object_services(), final(self).inv_ownership(),
            final(self).inv_calls(), final(self).inv_callers(), final(self).inv_conns(), final(self).inv_subs(),
            final(self).reg_winv(), final(self).reg_inv(),
    //@end

    // ---- all-events subscriptions (protocol 1.18) ---------------------------------------------------------------------
    //@fn broker/src/broker.rs Broker::subscribe_all_events
        requires
            old(self).reg_inv(),
        ensures
            !old(self).conns@.contains_key(*id) ==> r is Ok && final(self).unchanged(old(self)),
            (old(self).conns@.contains_key(*id) && ProtocolVersion::lex_cmp(old(self).conns@[*id].version, ProtocolVersion::V1_18) == core::cmp::Ordering::Less) ==> r is Err && final(self).unchanged(old(self)),
            (old(self).conns@.contains_key(*id) && (req.serial is None || !old(self).svc_uuids@.contains_key(req.service_cookie)))
                ==> final(self).unchanged(old(self)),
            // if anything is recorded, it is recorded on BOTH sides, and only when the service owner speaks protocol >= 1.18
            // (it is sent SubscribeAllEvents, see the precondition of send)
            (old(self).conns@.contains_key(*id) && old(self).svc_uuids@.contains_key(req.service_cookie)) ==> {
                let k = old(self).skey(req.service_cookie);
                ||| final(self).unchanged(old(self))
                ||| (r is Ok && final(self).only_subs_changed(old(self), k, *id)
                        && old(self).conns@[old(self).objs@[k.0].conn_id].version.allows(18)
                        && final(self).svcs@[k].all_events@ == old(self).svcs@[k].all_events@.insert(*id)
                        && final(self).svcs@[k].events == old(self).svcs@[k].events && final(self).svc_events_same(old(self), k)
                        && final(self).svcs@[k].subscriptions == old(self).svcs@[k].subscriptions
                        && final(self).conns@[*id].all_events@ == old(self).conns@[*id].all_events@.insert(req.service_cookie)
                        && final(self).conns@[*id].rest_eq(&old(self).conns@[*id], 4) && final(self).conn_events_same(old(self), *id))
            },
            // it IS recorded (on both sides) whenever the request carries a serial, both sides speak protocol >= 1.18 and the service is
            // live and supports all-events subscriptions; the only way out is an undeliverable reply
            (old(self).conns@.contains_key(*id) && old(self).svc_uuids@.contains_key(req.service_cookie) && req.serial is Some
                && old(self).conns@[*id].version.allows(18)
                && old(self).svc_uuids@[req.service_cookie].2.spec_subscribe_all() == Some(true)
                && old(self).conns@[old(self).objs@[old(self).skey(req.service_cookie).0].conn_id].version.allows(18)) ==> {
                let k = old(self).skey(req.service_cookie);
                ||| (r is Err && final(self).unchanged(old(self)))
                ||| (r is Ok && final(self).svcs@[k].all_events@ == old(self).svcs@[k].all_events@.insert(*id)
                        && final(self).conns@[*id].all_events@ == old(self).conns@[*id].all_events@.insert(req.service_cookie))
            },
            final(self).stat_same(old(self)),   // no counter is touched
            // the invariant last (the frame facts above are then available), conjunct by conjunct (one query each
            // keeps the solver stable), then as a whole
            final(self).inv_objects(), final(self).inv_services(), final(self).inv_object_services(), final(self).inv_ownership(),
            final(self).inv_calls(), final(self).inv_callers(), final(self).inv_conns(), final(self).inv_subs(),
            final(self).reg_winv(), final(self).reg_inv(),
    //@end

    //@fn broker/src/broker.rs Broker::unsubscribe_all_events
        requires
            old(self).reg_inv(),
        ensures
            !old(self).conns@.contains_key(*id) ==> r is Ok && final(self).unchanged(old(self)),
            (old(self).conns@.contains_key(*id) && ProtocolVersion::lex_cmp(old(self).conns@[*id].version, ProtocolVersion::V1_18) == core::cmp::Ordering::Less) ==> r is Err && final(self).unchanged(old(self)),
            (old(self).conns@.contains_key(*id) && !old(self).svc_uuids@.contains_key(req.service_cookie)) ==> final(self).unchanged(old(self)),
            (old(self).conns@.contains_key(*id) && old(self).svc_uuids@.contains_key(req.service_cookie)) ==> {
                let k = old(self).skey(req.service_cookie);
                ||| final(self).unchanged(old(self))
                ||| (r is Ok && final(self).only_subs_changed(old(self), k, *id)
                        && final(self).svcs@[k].all_events@ == old(self).svcs@[k].all_events@.remove(*id)
                        && final(self).svcs@[k].events == old(self).svcs@[k].events && final(self).svc_events_same(old(self), k)
                        && final(self).svcs@[k].subscriptions == old(self).svcs@[k].subscriptions
                        && final(self).conns@[*id].all_events@ == old(self).conns@[*id].all_events@.remove(req.service_cookie)
                        && final(self).conns@[*id].rest_eq(&old(self).conns@[*id], 4) && final(self).conn_events_same(old(self), *id))
            },
            // it IS removed whenever both sides speak protocol >= 1.18 and the service is live - with or without a serial (the client
            // library sends the serial-less form when a proxy is dropped); the only way out is an undeliverable reply
            (old(self).conns@.contains_key(*id) && old(self).svc_uuids@.contains_key(req.service_cookie)
                && old(self).conns@[*id].version.allows(18)
                && old(self).conns@[old(self).objs@[old(self).skey(req.service_cookie).0].conn_id].version.allows(18)) ==> {
                let k = old(self).skey(req.service_cookie);
                ||| (r is Err && req.serial is Some && final(self).unchanged(old(self)))
                ||| (r is Ok && final(self).svcs@[k].all_events@ == old(self).svcs@[k].all_events@.remove(*id)
                        && final(self).conns@[*id].all_events@ == old(self).conns@[*id].all_events@.remove(req.service_cookie))
            },
            final(self).stat_same(old(self)),   // no counter is touched
            // the invariant last (the frame facts above are then available), conjunct by conjunct (one query each
            // keeps the solver stable), then as a whole
            final(self).inv_objects(), final(self).inv_services(), final(self).inv_object_services(), final(self).inv_ownership(),
            final(self).inv_calls(), final(self).inv_callers(), final(self).inv_conns(), final(self).inv_subs(),
            final(self).reg_winv(), final(self).reg_inv(),
    //@end

    // ---- event delivery ---------------------------------------------------------------------------------------------------
    // No table changes; every EmitEvent that is sent goes to a subscribed connection (precondition of `send`, see
    // IntoMessage for EmitEvent above); an event from a connection that does not own the service's object is dropped before the
    // fan-out loop is reached.
    //@fn broker/src/broker.rs Broker::emit_event option-map
        requires
            old(self).reg_inv(),
        ensures
            final(self).unchanged(old(self)), final(self).stat_same(old(self)),
            // events emitted by anybody but the owner of the service's object (or for a stale service cookie) are dropped: not even
            // the deferred-work queue is touched
            !(old(self).conns@.contains_key(*id) && old(self).svc_uuids@.contains_key(req.service_cookie)
                && old(self).objs@[old(self).svc_uuids@[req.service_cookie].0.uuid].conn_id == *id) ==> *final(state) == *old(state),
            final(state).rest_eq(old(state), 2),
    //@ghost before `for (conn_id, conn) in self.conns.iter()`
        let ghost pre = *self;
    //@loop 0 it
        invariant
            self.unchanged(&pre), self.stat_same(&pre), pre.unchanged(old(self)), pre.stat_same(old(self)),
            state.rest_eq(old(state), 2),
    //@end
}

} // verus!

fn main() {}
