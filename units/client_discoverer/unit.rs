// unit: client_discoverer   property: C19 (safety core of the discoverer entries: after ANY sequence of bus events that is
// consistent with the bus, an entry reports exactly what the bus holds, and it emits one created / destroyed event per
// transition). Verified on the verbatim text of aldrin/src/discoverer/specific_without_services.rs (the whole entry kind) and
// of AnyObject::{object_created, object_destroyed, service_destroyed} (aldrin/src/discoverer/any.rs; local contracts only:
// service_created uses an iterator adapter with a closure, so the fold step of that entry kind is not decided).
#![feature(allocator_api)]
use vstd::prelude::*;
use vstd::std_specs::hash::*;
use vstd::std_specs::cmp::*;
use vstd::std_specs::iter::IteratorSpec;
use std::collections::hash_map::{self, HashMap};
use std::hash::{Hash, Hasher};

verus! {

// ---- prelude (trusted base): UUID newtypes as opaque Copy keys with structural equality ------------------------------
macro_rules! opaque_copy_key {
    ($t:ident) => {
        verus! {
        #[verifier::external_body]
        #[derive(Clone, Copy, Debug)]
        pub struct $t { _p: () }
        impl PartialEqSpecImpl for $t {
            open spec fn obeys_eq_spec() -> bool { true }
            open spec fn eq_spec(&self, other: &Self) -> bool { *self == *other }
        }
        impl PartialEq for $t {
            #[verifier::external_body]
            fn eq(&self, other: &Self) -> (r: bool) { unimplemented!() }
        }
        impl Eq for $t {}
        impl Hash for $t {
            #[verifier::external_body]
            fn hash<H: Hasher>(&self, state: &mut H) { unimplemented!() }
        }
        }
    };
}
opaque_copy_key!(ObjectUuid);
opaque_copy_key!(ObjectCookie);
opaque_copy_key!(ServiceUuid);
opaque_copy_key!(ServiceCookie);

pub mod trusted {
    use super::*;
    pub broadcast axiom fn axiom_object_uuid_key_model() ensures #[trigger] obeys_key_model::<ObjectUuid>();
    pub broadcast axiom fn axiom_service_uuid_key_model() ensures #[trigger] obeys_key_model::<ServiceUuid>();
}
broadcast use {trusted::axiom_object_uuid_key_model, trusted::axiom_service_uuid_key_model, vstd::std_specs::hash::group_hash_axioms};

//@include _shared/std_get_mut_spec.rs
//@include _shared/iter_step.rs

//@item core/src/ids/object_id.rs struct ObjectId attr=derive(Clone,Copy)
//@item core/src/ids/service_id.rs struct ServiceId attr=derive(Clone,Copy)
//@item core/src/bus_listener.rs enum BusEvent attr=derive(Clone,Copy)
//@item aldrin/src/discoverer/event.rs struct DiscovererEvent
//@item aldrin/src/discoverer/event.rs enum DiscovererEventKind attr=derive(Clone,Copy)

impl<Key> DiscovererEvent<Key> where Key: Copy + Eq + Hash {
    //@fn aldrin/src/discoverer/event.rs DiscovererEvent::new
        ensures r.key == key, r.kind == kind, r.object == object,
    //@end
}

// ---- the bus as the events describe it -------------------------------------------------------------------------------------
// live objects (uuid -> cookie) and live services ((object uuid, service uuid) -> cookie)
pub struct Bus {
    pub objects: Map<ObjectUuid, ObjectCookie>,
    pub services: Map<(ObjectUuid, ServiceUuid), ServiceCookie>,
}

impl Bus {
    // the event can happen on this bus: creations of things that do not exist, destructions of things that do (with their
    // current cookie); a service lives inside its object's lifetime (C10 is about the broker producing only such sequences)
    pub open spec fn admits(self, ev: BusEvent) -> bool {
        match ev {
            BusEvent::ObjectCreated(id) => !self.objects.contains_key(id.uuid),
            BusEvent::ObjectDestroyed(id) => self.objects.contains_key(id.uuid) && self.objects[id.uuid] == id.cookie
                && (forall|su: ServiceUuid| !self.services.contains_key((id.uuid, su))),   // its services went first
            BusEvent::ServiceCreated(id) => self.objects.contains_key(id.object_id.uuid) && self.objects[id.object_id.uuid] == id.object_id.cookie
                && !self.services.contains_key((id.object_id.uuid, id.uuid)),
            BusEvent::ServiceDestroyed(id) => self.services.contains_key((id.object_id.uuid, id.uuid))
                && self.services[(id.object_id.uuid, id.uuid)] == id.cookie
                && self.objects.contains_key(id.object_id.uuid) && self.objects[id.object_id.uuid] == id.object_id.cookie,
        }
    }

    pub open spec fn apply(self, ev: BusEvent) -> Bus {
        match ev {
            BusEvent::ObjectCreated(id) => Bus { objects: self.objects.insert(id.uuid, id.cookie), ..self },
            BusEvent::ObjectDestroyed(id) => Bus { objects: self.objects.remove(id.uuid), ..self },
            BusEvent::ServiceCreated(id) => Bus { services: self.services.insert((id.object_id.uuid, id.uuid), id.cookie), ..self },
            BusEvent::ServiceDestroyed(id) => Bus { services: self.services.remove((id.object_id.uuid, id.uuid)), ..self },
        }
    }
}

// ---- entry kind "one specific object, no services required" (whole file) ----------------------------------------------------
//@item aldrin/src/discoverer/specific_without_services.rs struct SpecificObjectWithoutServices

impl<Key> SpecificObjectWithoutServices<Key> where Key: Copy + Eq + Hash {
    // the entry mirrors the bus: it holds the cookie of its object exactly while the object exists
    spec fn mirrors(&self, bus: Bus) -> bool {
        self.cookie == (if bus.objects.contains_key(self.object) { Some(bus.objects[self.object]) } else { None::<ObjectCookie> })
    }

    //@fn aldrin/src/discoverer/specific_without_services.rs SpecificObjectWithoutServices::new
        ensures r.key == key, r.object == object, r.cookie is None,
    //@end

    //@fn aldrin/src/discoverer/specific_without_services.rs SpecificObjectWithoutServices::reset
        ensures final(self).cookie is None, final(self).key == old(self).key, final(self).object == old(self).object,
    //@end

    //@fn aldrin/src/discoverer/specific_without_services.rs SpecificObjectWithoutServices::contains
        ensures r == (self.cookie is Some && object == self.object),
    //@end

    //@fn aldrin/src/discoverer/specific_without_services.rs SpecificObjectWithoutServices::contains_any
        ensures r == (self.cookie is Some),
    //@end

    //@fn aldrin/src/discoverer/specific_without_services.rs SpecificObjectWithoutServices::object_created
        requires old(self).cookie is None || id.uuid != old(self).object,
        ensures
            final(self).key == old(self).key, final(self).object == old(self).object,
            id.uuid != old(self).object ==> r is None && final(self).cookie == old(self).cookie,
            id.uuid == old(self).object ==> final(self).cookie == Some(id.cookie) && r is Some
                && r->Some_0.key == old(self).key && r->Some_0.kind == DiscovererEventKind::Created && r->Some_0.object == id,
    //@end

    //@fn aldrin/src/discoverer/specific_without_services.rs SpecificObjectWithoutServices::object_destroyed
        requires old(self).cookie == Some(id.cookie) || id.uuid != old(self).object,
        ensures
            final(self).key == old(self).key, final(self).object == old(self).object,
            id.uuid != old(self).object ==> r is None && final(self).cookie == old(self).cookie,
            id.uuid == old(self).object ==> final(self).cookie is None && r is Some
                && r->Some_0.key == old(self).key && r->Some_0.kind == DiscovererEventKind::Destroyed && r->Some_0.object == id,
    //@end

    // One step of the fold over the event stream. `bus` is the bus before the event (ghost). If the entry mirrors the bus
    // and the event is one the bus admits, the entry mirrors the bus after the event, and a discoverer event is emitted
    // exactly when the set of reported objects changes: Created / Destroyed for this entry's key and the object's id.
    //@fn aldrin/src/discoverer/specific_without_services.rs SpecificObjectWithoutServices::handle_event
        requires
            exists|bus: Bus| old(self).mirrors(bus) && bus.admits(event),
        ensures
            final(self).key == old(self).key, final(self).object == old(self).object,
            forall|bus: Bus| old(self).mirrors(bus) && bus.admits(event) ==> final(self).mirrors(#[trigger] bus.apply(event)),
            (r is Some) == (final(self).cookie != old(self).cookie),
            r is Some ==> r->Some_0.key == old(self).key && match event {
                BusEvent::ObjectCreated(id) => r->Some_0.kind == DiscovererEventKind::Created && r->Some_0.object == id,
                BusEvent::ObjectDestroyed(id) => r->Some_0.kind == DiscovererEventKind::Destroyed && r->Some_0.object == id,
                _ => false,
            },
    //@end
}

// ---- entry kind "any object that has all of the given services" (aldrin/src/discoverer/any.rs) ----------------------------
//@item aldrin/src/discoverer/any.rs struct AnyObject

impl<Key> AnyObject<Key> where Key: Copy + Eq + Hash {
    // the dispatch of the "any object" kind: an object is reported as Created only by the creation of an object when no services are
    // required, or by the ServiceCreated that gives it every required service
    //@fn aldrin/src/discoverer/any.rs AnyObject::handle_event
        requires
            event matches BusEvent::ObjectCreated(id) ==> !old(self).created@.contains_key(id.uuid),
            event matches BusEvent::ObjectDestroyed(id) ==> (old(self).created@.contains_key(id.uuid) ==> old(self).created@[id.uuid] == id.cookie),
            event matches BusEvent::ServiceCreated(id) ==> (old(self).services@.contains_key(id.uuid) ==>
                !old(self).services@[id.uuid]@.contains_key(id.object_id.uuid) && !old(self).created@.contains_key(id.object_id.uuid)),
            event matches BusEvent::ServiceDestroyed(id) ==> {
                &&& old(self).services@.contains_key(id.uuid) ==> old(self).services@[id.uuid]@.contains_key(id.object_id.uuid)
                        && old(self).services@[id.uuid]@[id.object_id.uuid] == id.cookie
                &&& old(self).created@.contains_key(id.object_id.uuid) ==> old(self).created@[id.object_id.uuid] == id.object_id.cookie
            },
        ensures
            final(self).key == old(self).key,
            final(self).services@.dom() == old(self).services@.dom(),
            r is Some && r->Some_0.kind == DiscovererEventKind::Created ==> {
                ||| (event matches BusEvent::ObjectCreated(id) && old(self).services@.len() == 0 && r->Some_0.object == id)
                ||| (event matches BusEvent::ServiceCreated(id) && r->Some_0.object == id.object_id
                        && forall|su: ServiceUuid| #![trigger final(self).services@[su]] final(self).services@.contains_key(su)
                            ==> final(self).services@[su]@.contains_key(id.object_id.uuid))
            },
    //@end

    //@fn aldrin/src/discoverer/any.rs AnyObject::object_destroyed
        requires
            old(self).created@.contains_key(id.uuid) ==> old(self).created@[id.uuid] == id.cookie,
        ensures
            final(self).key == old(self).key, final(self).services == old(self).services,
            final(self).created@ == old(self).created@.remove(id.uuid),
            (r is Some) == old(self).created@.contains_key(id.uuid),
            r is Some ==> r->Some_0.key == old(self).key && r->Some_0.kind == DiscovererEventKind::Destroyed && r->Some_0.object == id,
    //@end

    //@fn aldrin/src/discoverer/any.rs AnyObject::object_created
        requires
            !old(self).created@.contains_key(id.uuid),
        ensures
            final(self).key == old(self).key, final(self).services == old(self).services,
            old(self).services@.len() > 0 ==> r is None && final(self).created@ == old(self).created@,
            old(self).services@.len() == 0 ==> final(self).created@ == old(self).created@.insert(id.uuid, id.cookie) && r is Some
                && r->Some_0.key == old(self).key && r->Some_0.kind == DiscovererEventKind::Created && r->Some_0.object == id,
    //@end

    // a required service appears on some object. SOUNDNESS half only (see SpecificObjectWithServices::service_created below): the
    // object is reported (one Created event, added to `created`) ONLY IF it now offers every required service.
    //@fn aldrin/src/discoverer/any.rs AnyObject::service_created iter-any-all
        requires
            old(self).services@.contains_key(id.uuid) ==> !old(self).services@[id.uuid]@.contains_key(id.object_id.uuid)
                && !old(self).created@.contains_key(id.object_id.uuid),
        ensures
            final(self).key == old(self).key,
            !old(self).services@.contains_key(id.uuid) ==> r is None && final(self).services@ == old(self).services@
                && final(self).created@ == old(self).created@,
            old(self).services@.contains_key(id.uuid) ==> {
                &&& final(self).services@.dom() == old(self).services@.dom()
                &&& final(self).services@[id.uuid]@ == old(self).services@[id.uuid]@.insert(id.object_id.uuid, id.cookie)
                &&& forall|su: ServiceUuid| #![trigger final(self).services@[su]] su != id.uuid && old(self).services@.contains_key(su) ==> final(self).services@[su] == old(self).services@[su]
                &&& r is Some ==> (forall|su: ServiceUuid| #![trigger final(self).services@[su]] final(self).services@.contains_key(su)
                        ==> final(self).services@[su]@.contains_key(id.object_id.uuid))
                &&& r is Some ==> final(self).created@ == old(self).created@.insert(id.object_id.uuid, id.object_id.cookie)
                        && r->Some_0.key == old(self).key && r->Some_0.kind == DiscovererEventKind::Created && r->Some_0.object == id.object_id
                &&& r is None ==> final(self).created@ == old(self).created@
            },
    //@loop 0 it
        invariant
            forall|v: HashMap<ObjectUuid, ServiceCookie>| self.services@.values().contains(v) ==> #[trigger] it.seq().contains(&v),
            __vp_all0 ==> forall|v: HashMap<ObjectUuid, ServiceCookie>| #![trigger self.services@.values().contains(v)]
                self.services@.values().contains(v) ==> v@.contains_key(id.object_id.uuid) || in_rest(it.seq(), it.index(), &v),
        ensures __vp_all0 ==> it.index() == it.seq().len(),
    //@ghost loop-start 0
        proof { lemma_in_rest_step(it.seq(), it.index()); assert(c == it.seq()[it.index()]); }
    //@ghost before `let dup = self.created.insert(id.object_id.uuid, id.object_id.cookie);`
        proof {
            assert forall|su: ServiceUuid| self.services@.contains_key(su) implies #[trigger] self.services@[su]@.contains_key(id.object_id.uuid) by {
                assert(self.services@.values().contains(self.services@[su]));
            }
        }
    //@end

    //@fn aldrin/src/discoverer/any.rs AnyObject::service_destroyed
        requires
            old(self).services@.contains_key(id.uuid) ==> old(self).services@[id.uuid]@.contains_key(id.object_id.uuid)
                && old(self).services@[id.uuid]@[id.object_id.uuid] == id.cookie,
            old(self).created@.contains_key(id.object_id.uuid) ==> old(self).created@[id.object_id.uuid] == id.object_id.cookie,
        ensures
            final(self).key == old(self).key,
            // a service this entry does not require: nothing happens
            !old(self).services@.contains_key(id.uuid) ==> r is None && final(self).services@ == old(self).services@
                && final(self).created@ == old(self).created@,
            // a required service: the object no longer offers it, so the object is no longer reported (one Destroyed event if
            // it was)
            old(self).services@.contains_key(id.uuid) ==> {
                &&& final(self).services@.dom() == old(self).services@.dom()
                &&& final(self).services@[id.uuid]@ == old(self).services@[id.uuid]@.remove(id.object_id.uuid)
                &&& forall|su: ServiceUuid| #![trigger final(self).services@[su]] su != id.uuid && old(self).services@.contains_key(su) ==> final(self).services@[su] == old(self).services@[su]
                &&& final(self).created@ == old(self).created@.remove(id.object_id.uuid)
                &&& (r is Some) == old(self).created@.contains_key(id.object_id.uuid)
                &&& r is Some ==> r->Some_0.key == old(self).key && r->Some_0.kind == DiscovererEventKind::Destroyed
                        && r->Some_0.object == id.object_id
            },
    //@end
}

// ---- entry kind "one specific object with the given services" (aldrin/src/discoverer/specific_with_services.rs) ----------
//@item aldrin/src/discoverer/specific_with_services.rs struct SpecificObjectWithServices

impl<Key> SpecificObjectWithServices<Key> where Key: Copy + Eq + Hash {
    // a required service of this entry's object appears. SOUNDNESS half only: the object is reported (one Created event, cookie
    // recorded) ONLY IF every required service is now present. The converse (it IS reported as soon as all are present) is not
    // decided: vstd's specification of `HashMap::values()` says that every value of the map is yielded, not that nothing else is,
    // so a `false` from `.values().all(..)` cannot be traced back to a missing service.
    //@fn aldrin/src/discoverer/specific_with_services.rs SpecificObjectWithServices::service_created iter-any-all
        requires
            (id.object_id.uuid == old(self).object && old(self).services@.contains_key(id.uuid))
                ==> old(self).services@[id.uuid] is None,
        ensures
            final(self).key == old(self).key, final(self).object == old(self).object,
            final(self).services@.dom() == old(self).services@.dom(),
            !(id.object_id.uuid == old(self).object && old(self).services@.contains_key(id.uuid)) ==> r is None
                && final(self).services@ == old(self).services@ && final(self).cookie == old(self).cookie,
            (id.object_id.uuid == old(self).object && old(self).services@.contains_key(id.uuid)) ==> {
                &&& final(self).services@[id.uuid] == Some(id.cookie)
                &&& forall|su: ServiceUuid| #![trigger final(self).services@[su]] su != id.uuid && old(self).services@.contains_key(su) ==> final(self).services@[su] == old(self).services@[su]
                &&& r is Some ==> (forall|su: ServiceUuid| #![trigger final(self).services@[su]] final(self).services@.contains_key(su) ==> final(self).services@[su] is Some)
                &&& r is Some ==> final(self).cookie == Some(id.object_id.cookie) && r->Some_0.key == old(self).key
                        && r->Some_0.kind == DiscovererEventKind::Created && r->Some_0.object == id.object_id
                &&& r is None ==> final(self).cookie == old(self).cookie
            },
    //@loop 0 it
        invariant
            forall|v: Option<ServiceCookie>| self.services@.values().contains(v) ==> #[trigger] it.seq().contains(&v),
            __vp_all0 ==> forall|v: Option<ServiceCookie>| #![trigger self.services@.values().contains(v)]
                self.services@.values().contains(v) ==> v is Some || in_rest(it.seq(), it.index(), &v),
        ensures __vp_all0 ==> it.index() == it.seq().len(),
    //@ghost loop-start 0
        proof { lemma_in_rest_step(it.seq(), it.index()); assert(__vp_x == it.seq()[it.index()]); }
    //@ghost after `self.cookie = Some(id.object_id.cookie);`
        proof {
            assert forall|su: ServiceUuid| self.services@.contains_key(su) implies #[trigger] self.services@[su] is Some by {
                assert(self.services@.values().contains(self.services@[su]));
            }
        }
    //@end

    // the dispatch: object events never concern an entry of this kind (its object is reported through its services); service
    // events go to the two handlers above under their preconditions
    //@fn aldrin/src/discoverer/specific_with_services.rs SpecificObjectWithServices::handle_event
        requires
            event matches BusEvent::ServiceCreated(id) ==> ((id.object_id.uuid == old(self).object && old(self).services@.contains_key(id.uuid))
                ==> old(self).services@[id.uuid] is None),
            event matches BusEvent::ServiceDestroyed(id) ==> ((id.object_id.uuid == old(self).object && old(self).services@.contains_key(id.uuid))
                ==> old(self).services@[id.uuid] == Some(id.cookie)),
        ensures
            final(self).key == old(self).key, final(self).object == old(self).object,
            final(self).services@.dom() == old(self).services@.dom(),
            (event is ObjectCreated || event is ObjectDestroyed) ==> r is None && final(self).services@ == old(self).services@
                && final(self).cookie == old(self).cookie,
            // an entry reports its object only while every required service is present
            r is Some && r->Some_0.kind == DiscovererEventKind::Created ==> event is ServiceCreated
                && (forall|su: ServiceUuid| #![trigger final(self).services@[su]] final(self).services@.contains_key(su) ==> final(self).services@[su] is Some),
    //@end

    // losing one of the required services un-reports the object (one Destroyed event if it was reported); a service the
    // entry does not require, or one of another object, changes nothing
    //@fn aldrin/src/discoverer/specific_with_services.rs SpecificObjectWithServices::service_destroyed
        requires
            (id.object_id.uuid == old(self).object && old(self).services@.contains_key(id.uuid))
                ==> old(self).services@[id.uuid] == Some(id.cookie),
        ensures
            final(self).key == old(self).key, final(self).object == old(self).object,
            final(self).services@.dom() == old(self).services@.dom(),
            !(id.object_id.uuid == old(self).object && old(self).services@.contains_key(id.uuid)) ==> r is None
                && final(self).services@ == old(self).services@ && final(self).cookie == old(self).cookie,
            (id.object_id.uuid == old(self).object && old(self).services@.contains_key(id.uuid)) ==> {
                &&& final(self).services@[id.uuid] is None
                &&& forall|su: ServiceUuid| #![trigger final(self).services@[su]] su != id.uuid && old(self).services@.contains_key(su) ==> final(self).services@[su] == old(self).services@[su]
                &&& final(self).cookie is None
                &&& (r is Some) == (old(self).cookie is Some)
                &&& r is Some ==> r->Some_0.key == old(self).key && r->Some_0.kind == DiscovererEventKind::Destroyed && r->Some_0.object == id.object_id
            },
    //@end
}

} // verus!

fn main() {}
