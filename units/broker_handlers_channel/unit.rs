// unit: broker_handlers_channel   property: C05 (handler layer), C11 (channel.rs preconditions established by handlers)
// The channel handlers of broker/src/broker.rs verified against the CONTRACTS of Channel (unit broker_channel) and
// ConnectionState (unit broker_conn_state): callee bodies are not visible here, only their contracts (//@fn-from).
#![feature(allocator_api)]
use vstd::prelude::*;
use vstd::std_specs::hash::*;
use vstd::std_specs::cmp::*;
use std::collections::hash_map::{Entry, HashMap};
use std::collections::HashSet;
use std::hash::{Hash, Hasher};
use std::mem;

verus! {

//@keep-cfg statistics
//@include _shared/handler_prelude.rs
//@include _shared/statistics_items.rs
opaque!(Object);
opaque!(Service);
opaque!(PendingFunctionCall);
#[verifier::external_body]
#[verifier::reject_recursive_types(T)]
pub struct SerialMap<T> { _p: core::marker::PhantomData<T> }
opaque!(BusListener);

// ---- message structs and enums extracted from aldrin-core ----------------------------------------------
//@item core/src/channel_end.rs enum ChannelEnd attr=derive(Clone,Copy)
//@item core/src/message/close_channel_end_reply.rs enum CloseChannelEndResult attr=derive(Clone,Copy)
// #[derive(PartialEq)] on the real enum is structural equality. ASSUMED (Verus has no spec for derived PartialEq).
impl PartialEqSpecImpl for CloseChannelEndResult {
    open spec fn obeys_eq_spec() -> bool { true }
    open spec fn eq_spec(&self, other: &Self) -> bool { *self == *other }
}
impl PartialEq for CloseChannelEndResult {
    #[verifier::external_body]
    fn eq(&self, other: &Self) -> (r: bool) { unimplemented!() }
}
impl Eq for CloseChannelEndResult {}
//@item core/src/message/claim_channel_end_reply.rs enum ClaimChannelEndResult
//@item core/src/message/send_item.rs struct SendItem
//@item core/src/message/item_received.rs struct ItemReceived
//@item core/src/message/add_channel_capacity.rs struct AddChannelCapacity
//@item core/src/message/channel_end_closed.rs struct ChannelEndClosed
//@item core/src/message/close_channel_end.rs struct CloseChannelEnd
//@item core/src/message/close_channel_end_reply.rs struct CloseChannelEndReply
//@item core/src/channel_end.rs enum ChannelEndWithCapacity attr=derive(Clone,Copy)
//@item core/src/message/create_channel.rs struct CreateChannel
//@item core/src/message/create_channel_reply.rs struct CreateChannelReply
//@item core/src/message/claim_channel_end.rs struct ClaimChannelEnd
//@item core/src/message/claim_channel_end_reply.rs struct ClaimChannelEndReply
//@item core/src/message/channel_end_claimed.rs struct ChannelEndClaimed

// the messages the handlers send; VersionedMessage::new / with_version take `impl Into<Message>` in the real code
// protocol minor version that introduced each message kind sent by these handlers (0 = base protocol 1.14)
// ROUTING (C05): an item goes only to the connection that holds the receiver end of that channel; a capacity announcement only
// to the connection that holds the sender end
impl IntoMessage for ItemReceived { open spec fn min_minor() -> u32 { 0 } closed spec fn allowed_for(&self, receiver: &ConnectionState) -> bool { receiver.receivers@.contains(self.cookie) } }
impl IntoMessage for AddChannelCapacity { open spec fn min_minor() -> u32 { 0 } closed spec fn allowed_for(&self, receiver: &ConnectionState) -> bool { receiver.senders@.contains(self.cookie) } }
// ROUTING (C05): "the peer is told when the other end is closed": the notification goes to the holder of the OTHER end
impl IntoMessage for ChannelEndClosed {
    open spec fn min_minor() -> u32 { 0 }
    closed spec fn allowed_for(&self, receiver: &ConnectionState) -> bool {
        match self.end {
            ChannelEnd::Sender => receiver.receivers@.contains(self.cookie),
            ChannelEnd::Receiver => receiver.senders@.contains(self.cookie),
        }
    }
}
impl IntoMessage for CloseChannelEndReply { open spec fn min_minor() -> u32 { 0 } open spec fn allowed_for(&self, receiver: &ConnectionState) -> bool { true } }
impl IntoMessage for ClaimChannelEndReply { open spec fn min_minor() -> u32 { 0 } open spec fn allowed_for(&self, receiver: &ConnectionState) -> bool { true } }
// ROUTING (C05): "the peer is told when the other end is claimed": the notification goes to the connection that holds the
// OTHER end of that channel
impl IntoMessage for ChannelEndClaimed {
    open spec fn min_minor() -> u32 { 0 }
    closed spec fn allowed_for(&self, receiver: &ConnectionState) -> bool {
        match self.end {
            ChannelEndWithCapacity::Sender => receiver.receivers@.contains(self.cookie),
            ChannelEndWithCapacity::Receiver(_) => receiver.senders@.contains(self.cookie),
        }
    }
}
impl IntoMessage for CreateChannelReply { open spec fn min_minor() -> u32 { 0 } open spec fn allowed_for(&self, receiver: &ConnectionState) -> bool { true } }

// random UUIDv4 cookie: freshness w.r.t. live channels is ASSUMED at the creation site (see create_channel)
impl ChannelCookie {
    #[verifier::external_body]
    pub fn new_v4() -> (r: Self) { unimplemented!() }
}

// ---- Channel: real data types, methods ASSUMED with the contracts verified in unit broker_channel ------------
//@item broker/src/broker/channel.rs const LOW_CAPACITY
//@item broker/src/broker/channel.rs struct Channel
//@item broker/src/broker/channel.rs enum ChannelEndState
//@item broker/src/broker/channel.rs enum SendItemError
//@item broker/src/broker/channel.rs struct AddCapacityError
//@include _shared/channel_specs.rs

impl Channel {
    //@fn-from broker_channel broker/src/broker/channel.rs Channel::with_claimed_sender
    //@fn-from broker_channel broker/src/broker/channel.rs Channel::with_claimed_receiver
    //@fn-from broker_channel broker/src/broker/channel.rs Channel::claim_sender
    //@fn-from broker_channel broker/src/broker/channel.rs Channel::claim_receiver
    //@fn-from broker_channel broker/src/broker/channel.rs Channel::check_close
    //@fn-from broker_channel broker/src/broker/channel.rs Channel::close
    //@fn-from broker_channel broker/src/broker/channel.rs Channel::send_item
    //@fn-from broker_channel broker/src/broker/channel.rs Channel::add_capacity
}

// ---- ConnectionState: real struct, methods ASSUMED with the contracts verified in unit broker_conn_state -------
//@item broker/src/broker/conn_state.rs struct ConnectionState

impl ConnectionState {
    //@include _shared/conn_state_specs.rs
    //@fn-from broker_conn_state broker/src/broker/conn_state.rs ConnectionState::version
    //@fn-from broker_conn_state broker/src/broker/conn_state.rs ConnectionState::add_sender
    //@fn-from broker_conn_state broker/src/broker/conn_state.rs ConnectionState::add_receiver
    //@fn-from broker_conn_state broker/src/broker/conn_state.rs ConnectionState::remove_sender
    //@fn-from broker_conn_state broker/src/broker/conn_state.rs ConnectionState::remove_receiver

    // sending only pushes into the connection's outgoing queue (interior mutability); no broker state changes.
    // Precondition: the message kind exists in the connection's negotiated protocol version (see handler_prelude.rs).
    #[verifier::external_body]
    pub(crate) fn send(&self, msg: VersionedMessage) -> (r: Result<(), ()>)
        requires self.version.allows(msg.min_minor()), msg.allowed_for(self)
    { unimplemented!() }
}

// ---- Broker -------------------------------------------------------------------------------------------
//@item broker/src/broker.rs macro send
//@item broker/src/broker.rs struct Broker

impl Broker {
    //@include _shared/chan_inv.rs
    //@include _shared/statistics_specs.rs
    // remove_channel_end: the closure in `owner.and_then(|conn_id| self.conns.get_mut(conn_id))` is inlined by the extractor (N11);
    // preconditions are what every call site establishes
    //@fn broker/src/broker.rs Broker::remove_channel_end option-map
        requires
            old(self).chan_inv(),
            old(self).channels@.contains_key(cookie) ==> {
                let st = old(self).channels@[cookie].end_state(end);
                &&& !(st is Closed)
                // `owner` names the connection holding the end, or None when nobody holds it
                &&& (owner is Some ==> st.claimed_by(owner->Some_0.id()))
                &&& (owner is None ==> st is Unclaimed)
            },
        ensures
            final(self).chan_inv(),
            final(self).chan_same_rest(old(self)),
            final(self).conns@.dom() == old(self).conns@.dom(),
            // only the owner's own list of ends is touched, and only the deferred-removal queue of the loop state
            forall|k: ConnectionId| #![trigger final(self).conns@[k]] old(self).conns@.contains_key(k) ==> {
                if owner is Some && k == *owner->Some_0 && old(self).channels@.contains_key(cookie) {
                    match end {
                        ChannelEnd::Sender => final(self).conns@[k].senders@ == old(self).conns@[k].senders@.remove(cookie)
                            && final(self).conns@[k].rest_eq(&old(self).conns@[k], 6),
                        ChannelEnd::Receiver => final(self).conns@[k].receivers@ == old(self).conns@[k].receivers@.remove(cookie)
                            && final(self).conns@[k].rest_eq(&old(self).conns@[k], 7),
                    }
                } else {
                    final(self).conns@[k] == old(self).conns@[k]
                }
            },
            final(state).only_remove_conns_changed(old(state)),
            // ends are only closed and channels only dropped: claimed ends keep belonging to connected clients
            old(self).chan_owners_connected() ==> final(self).chan_owners_connected(),
            // statistics: the channel counter is decremented exactly when the channel is dropped from the table
            old(self).stat_channels_ok() ==> final(self).stat_channels_ok(),
            final(self).statistics.num_connections == old(self).statistics.num_connections,
            final(self).statistics.num_objects == old(self).statistics.num_objects,
            final(self).statistics.num_services == old(self).statistics.num_services,
            final(self).statistics.num_bus_listeners == old(self).statistics.num_bus_listeners,
            !old(self).channels@.contains_key(cookie) ==> final(self).channels@ == old(self).channels@
                && final(self).conns@ == old(self).conns@,
            old(self).channels@.contains_key(cookie) ==> {
                let other = old(self).channels@[cookie].other_state(end);
                let keep = other is Claimed && exists|k: ConnectionId| old(self).conns@.contains_key(k) && k.id() == other.owner_id();
                &&& forall|c: ChannelCookie| c != cookie ==> final(self).channels@.contains_key(c) == old(self).channels@.contains_key(c)
                &&& forall|c: ChannelCookie| c != cookie && old(self).channels@.contains_key(c) ==> final(self).channels@[c] == old(self).channels@[c]
                &&& final(self).channels@.contains_key(cookie) == keep
                &&& keep ==> {
                        &&& final(self).channels@[cookie].end_state(end) is Closed
                        &&& final(self).channels@[cookie].other_state(end) == other
                    }
            },
    //@end

    //@fn broker/src/broker.rs Broker::close_channel_end
        requires
            old(self).chan_inv(), old(self).chan_owners_connected(),
        ensures
            final(self).chan_inv(), final(self).chan_owners_connected(),
            final(self).chan_same_rest(old(self)),
            final(self).conns@.dom() == old(self).conns@.dom(),
            forall|c: ChannelCookie| c != req.cookie ==> final(self).channels@.contains_key(c) == old(self).channels@.contains_key(c),
            forall|c: ChannelCookie| c != req.cookie && old(self).channels@.contains_key(c) ==> final(self).channels@[c] == old(self).channels@[c],
            // only its owner, or anyone if unclaimed, can close an end: a request for an end held by somebody else, for a
            // closed end or for an unknown cookie changes nothing
            (old(self).conns@.contains_key(*id) && old(self).channels@.contains_key(req.cookie)
                && (old(self).channels@[req.cookie].end_state(req.end) is Closed
                    || (old(self).channels@[req.cookie].end_state(req.end) is Claimed
                        && !old(self).channels@[req.cookie].end_state(req.end).claimed_by(id.id()))))
                ==> final(self).channels@ == old(self).channels@ && final(self).conns@ == old(self).conns@,
            (!old(self).conns@.contains_key(*id) || !old(self).channels@.contains_key(req.cookie))
                ==> final(self).channels@ == old(self).channels@ && final(self).conns@ == old(self).conns@,
            // an accepted close closes exactly that end; the other end is untouched if the channel survives
            (r is Ok && old(self).conns@.contains_key(*id) && old(self).channels@.contains_key(req.cookie)
                && (old(self).channels@[req.cookie].end_state(req.end) is Unclaimed
                    || old(self).channels@[req.cookie].end_state(req.end).claimed_by(id.id()))
                && final(self).channels@.contains_key(req.cookie)) ==> {
                    &&& final(self).channels@[req.cookie].end_state(req.end) is Closed
                    &&& final(self).channels@[req.cookie].other_state(req.end) == old(self).channels@[req.cookie].other_state(req.end)
                },
            // statistics: the channel counter follows the channel table, the other counters are untouched
            old(self).stat_channels_ok() ==> final(self).stat_channels_ok(),
            final(self).statistics.num_connections == old(self).statistics.num_connections,
            final(self).statistics.num_objects == old(self).statistics.num_objects,
            final(self).statistics.num_services == old(self).statistics.num_services,
            final(self).statistics.num_bus_listeners == old(self).statistics.num_bus_listeners,
    //@end

    //@fn broker/src/broker.rs Broker::add_channel_capacity
        requires
            old(self).chan_inv(), old(self).chan_owners_connected(),
        ensures
            final(self).chan_inv(), final(self).chan_owners_connected(),
            final(self).chan_same_rest(old(self)),
            final(self).conns@.dom() == old(self).conns@.dom(),
            // no other channel is touched
            forall|c: ChannelCookie| c != req.cookie ==> final(self).channels@.contains_key(c) == old(self).channels@.contains_key(c),
            forall|c: ChannelCookie| c != req.cookie && old(self).channels@.contains_key(c) ==> final(self).channels@[c] == old(self).channels@[c],
            // a capacity grant that would overflow closes only the receiver: if the channel survives, its sender end is
            // exactly what it was and the receiver end is closed
            (old(self).channels@.contains_key(req.cookie)
                && old(self).channels@[req.cookie].receiver.claimed_by(id.id())
                && req.capacity > 0
                && old(self).channels@[req.cookie].receiver.cap() + req.capacity > u32::MAX
                && final(self).channels@.contains_key(req.cookie)) ==> {
                    &&& final(self).channels@[req.cookie].receiver is Closed
                    &&& final(self).channels@[req.cookie].sender == old(self).channels@[req.cookie].sender
                },
            // an accepted grant is credited exactly, and nothing else about the channel changes ownership
            (old(self).channels@.contains_key(req.cookie)
                && old(self).channels@[req.cookie].receiver.claimed_by(id.id())
                && req.capacity > 0
                && old(self).channels@[req.cookie].receiver.cap() + req.capacity <= u32::MAX) ==> {
                    &&& final(self).channels@.contains_key(req.cookie)
                    &&& final(self).channels@[req.cookie].receiver.cap() == old(self).channels@[req.cookie].receiver.cap() + req.capacity
                    &&& final(self).channels@[req.cookie].receiver.claimed_by(id.id())
                    &&& final(self).conns@ == old(self).conns@
                },
            // grants from anybody else, zero grants and unknown cookies change nothing
            (!old(self).channels@.contains_key(req.cookie) || req.capacity == 0
                || !old(self).channels@[req.cookie].receiver.claimed_by(id.id()))
                ==> final(self).channels@ == old(self).channels@ && final(self).conns@ == old(self).conns@,
            // statistics: the channel counter follows the channel table, the other counters are untouched
            old(self).stat_channels_ok() ==> final(self).stat_channels_ok(),
            final(self).statistics.num_connections == old(self).statistics.num_connections,
            final(self).statistics.num_objects == old(self).statistics.num_objects,
            final(self).statistics.num_services == old(self).statistics.num_services,
            final(self).statistics.num_bus_listeners == old(self).statistics.num_bus_listeners,
    //@end

    //@fn broker/src/broker.rs Broker::send_item
        requires
            old(self).chan_inv(), old(self).chan_owners_connected(),
        ensures
            final(self).chan_inv(), final(self).chan_owners_connected(),
            final(self).chan_same_rest(old(self)),
            final(self).conns@.dom() == old(self).conns@.dom(),
            // no other channel is touched
            forall|c: ChannelCookie| c != req.cookie ==> final(self).channels@.contains_key(c) == old(self).channels@.contains_key(c),
            forall|c: ChannelCookie| c != req.cookie && old(self).channels@.contains_key(c) ==> final(self).channels@[c] == old(self).channels@[c],
            // items from anybody but the owner of the sender end (or on unknown cookies, or from unknown connections)
            // change nothing
            (!old(self).conns@.contains_key(*id) || !old(self).channels@.contains_key(req.cookie)
                || !old(self).channels@[req.cookie].sender.claimed_by(id.id()))
                ==> final(self).channels@ == old(self).channels@ && final(self).conns@ == old(self).conns@,
            // within the announced capacity the item is accepted: exactly one unit of receiver credit is consumed and
            // nobody loses an end
            (old(self).conns@.contains_key(*id) && old(self).channels@.contains_key(req.cookie)
                && old(self).channels@[req.cookie].sender.claimed_by(id.id())
                && old(self).channels@[req.cookie].receiver is Claimed
                && old(self).channels@[req.cookie].sender.cap() > 0) ==> {
                    &&& final(self).channels@.contains_key(req.cookie)
                    &&& final(self).channels@[req.cookie].receiver.cap() == old(self).channels@[req.cookie].receiver.cap() - 1
                    &&& final(self).channels@[req.cookie].sender.claimed_by(id.id())
                    &&& final(self).channels@[req.cookie].receiver.claimed_by(old(self).channels@[req.cookie].receiver.owner_id())
                    &&& final(self).conns@ == old(self).conns@
                },
            // a sender that exceeds its capacity loses only its own end: if the channel survives, the receiver end is
            // exactly what it was and the sender end is closed
            (old(self).conns@.contains_key(*id) && old(self).channels@.contains_key(req.cookie)
                && old(self).channels@[req.cookie].sender.claimed_by(id.id())
                && old(self).channels@[req.cookie].receiver is Claimed
                && old(self).channels@[req.cookie].sender.cap() == 0
                && final(self).channels@.contains_key(req.cookie)) ==> {
                    &&& final(self).channels@[req.cookie].sender is Closed
                    &&& final(self).channels@[req.cookie].receiver == old(self).channels@[req.cookie].receiver
                },
            // sending into a closed receiver is ignored
            (old(self).conns@.contains_key(*id) && old(self).channels@.contains_key(req.cookie)
                && old(self).channels@[req.cookie].sender.claimed_by(id.id())
                && old(self).channels@[req.cookie].receiver is Closed)
                ==> final(self).channels@ == old(self).channels@ && final(self).conns@ == old(self).conns@,
            // statistics: the channel counter follows the channel table, the other counters are untouched
            old(self).stat_channels_ok() ==> final(self).stat_channels_ok(),
            final(self).statistics.num_connections == old(self).statistics.num_connections,
            final(self).statistics.num_objects == old(self).statistics.num_objects,
            final(self).statistics.num_services == old(self).statistics.num_services,
            final(self).statistics.num_bus_listeners == old(self).statistics.num_bus_listeners,
    //@end

    // ---- create_channel ---------------------------------------------------------------------------------------------
    //@fn broker/src/broker.rs Broker::create_channel
        requires
            old(self).chan_inv(), old(self).chan_owners_connected(),
        ensures
            final(self).chan_inv(), final(self).chan_owners_connected(),
            final(self).chan_same_rest(old(self)),
            final(self).conns@.dom() == old(self).conns@.dom(),
            !old(self).conns@.contains_key(*id) ==> final(self).channels@ == old(self).channels@ && final(self).conns@ == old(self).conns@,
            // a connected requester gets exactly one new channel, under a cookie no live channel uses, with the requested end
            // claimed by the requester (receiver: with the announced capacity) and the other end unclaimed; no other channel
            // and no other connection is touched
            old(self).conns@.contains_key(*id) ==> exists|cookie: ChannelCookie| #![trigger final(self).channels@.contains_key(cookie)] {
                &&& !old(self).channels@.contains_key(cookie)
                &&& final(self).channels@.dom() =~= old(self).channels@.dom().insert(cookie)
                &&& forall|c: ChannelCookie| #![trigger final(self).channels@[c]] old(self).channels@.contains_key(c) ==> final(self).channels@[c] == old(self).channels@[c]
                &&& match req.end {
                        ChannelEndWithCapacity::Sender => final(self).channels@[cookie].sender.claimed_by(id.id())
                            && final(self).channels@[cookie].receiver is Unclaimed
                            && final(self).conns@[*id].senders@ == old(self).conns@[*id].senders@.insert(cookie)
                            && final(self).conns@[*id].rest_eq(&old(self).conns@[*id], 6),
                        ChannelEndWithCapacity::Receiver(capacity) => final(self).channels@[cookie].receiver.claimed_by(id.id())
                            && final(self).channels@[cookie].receiver.cap() == capacity
                            && final(self).channels@[cookie].sender is Unclaimed
                            && final(self).conns@[*id].receivers@ == old(self).conns@[*id].receivers@.insert(cookie)
                            && final(self).conns@[*id].rest_eq(&old(self).conns@[*id], 7),
                    }
                &&& forall|k: ConnectionId| #![trigger final(self).conns@[k]] old(self).conns@.contains_key(k) && k != *id ==> final(self).conns@[k] == old(self).conns@[k]
            },
            // statistics (exact below usize::MAX entries)
            old(self).stat_channels_ok() && old(self).channels@.len() < usize::MAX ==> final(self).stat_channels_ok(),
            final(self).statistics.num_connections == old(self).statistics.num_connections,
            final(self).statistics.num_objects == old(self).statistics.num_objects,
            final(self).statistics.num_services == old(self).statistics.num_services,
            final(self).statistics.num_bus_listeners == old(self).statistics.num_bus_listeners,
    //@ghost after `self.channels.insert(cookie, channel);`
        proof {
            assert(!old(self).channels@.contains_key(cookie));
            assert(self.channels@.contains_key(cookie));
            assert(self.channels@.dom() =~= old(self).channels@.dom().insert(cookie));
            assert(forall|c: ChannelCookie| #![trigger self.channels@[c]] old(self).channels@.contains_key(c) ==> self.channels@[c] == old(self).channels@[c]);
        }
    //@ghost after `let cookie = ChannelCookie::new_v4();`
        // ASSUMPTION (random UUIDv4): the new cookie is not the cookie of a live channel
        proof { assume(!self.channels@.contains_key(cookie)); }
    //@end

    // ---- claim_channel_end ------------------------------------------------------------------------------------------------
    //@fn broker/src/broker.rs Broker::claim_channel_end result-map
        requires
            old(self).chan_inv(), old(self).chan_owners_connected(),
        ensures
            final(self).chan_inv(), final(self).chan_owners_connected(),
            final(self).chan_same_rest(old(self)),
            final(self).conns@.dom() == old(self).conns@.dom(),
            final(self).channels@.dom() == old(self).channels@.dom(),
            forall|c: ChannelCookie| #![trigger final(self).channels@[c]] c != req.cookie && old(self).channels@.contains_key(c) ==> final(self).channels@[c] == old(self).channels@[c],
            forall|k: ConnectionId| #![trigger final(self).conns@[k]] k != *id && old(self).conns@.contains_key(k) ==> final(self).conns@[k] == old(self).conns@[k],
            // an end can be claimed once, and only while it is unclaimed: in every other case (unknown requester or channel, end
            // already claimed or closed) nothing changes
            !(old(self).conns@.contains_key(*id) && old(self).channels@.contains_key(req.cookie)
                && (match req.end {
                        ChannelEndWithCapacity::Sender => old(self).channels@[req.cookie].sender is Unclaimed,
                        ChannelEndWithCapacity::Receiver(_) => old(self).channels@[req.cookie].receiver is Unclaimed,
                    })) ==> final(self).channels@ == old(self).channels@ && final(self).conns@ == old(self).conns@,
            // a successful claim: that end now belongs to the requester (receiver: with the capacity it announced; sender: with
            // the credit the receiver granted), the other end is untouched, and the requester lists the end
            (old(self).conns@.contains_key(*id) && old(self).channels@.contains_key(req.cookie)) ==> match req.end {
                ChannelEndWithCapacity::Sender => old(self).channels@[req.cookie].sender is Unclaimed ==> {
                    &&& final(self).channels@[req.cookie].sender.claimed_by(id.id())
                    &&& final(self).channels@[req.cookie].sender.cap() == old(self).channels@[req.cookie].receiver.cap()
                    &&& final(self).channels@[req.cookie].receiver == old(self).channels@[req.cookie].receiver
                    &&& final(self).conns@[*id].senders@ == old(self).conns@[*id].senders@.insert(req.cookie)
                    &&& final(self).conns@[*id].rest_eq(&old(self).conns@[*id], 6)
                },
                ChannelEndWithCapacity::Receiver(capacity) => old(self).channels@[req.cookie].receiver is Unclaimed ==> {
                    &&& final(self).channels@[req.cookie].receiver.claimed_by(id.id())
                    &&& final(self).channels@[req.cookie].receiver.cap() == capacity
                    &&& final(self).channels@[req.cookie].sender.claimed_by(old(self).channels@[req.cookie].sender.owner_id())
                    &&& final(self).conns@[*id].receivers@ == old(self).conns@[*id].receivers@.insert(req.cookie)
                    &&& final(self).conns@[*id].rest_eq(&old(self).conns@[*id], 7)
                },
            },
            old(self).stat_channels_ok() ==> final(self).stat_channels_ok(),
            final(self).stat_same(old(self)),
    //@end
}

} // verus!

fn main() {}
