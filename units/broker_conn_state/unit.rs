// unit: broker_conn_state   property: C04 (per-connection mirror of subscriptions); leaf facts for C02/C03/C05/C09
#![feature(allocator_api)]
use vstd::prelude::*;
use vstd::std_specs::hash::*;
use std::collections::hash_map::{Entry, HashMap};
use std::collections::HashSet;
use std::hash::{Hash, Hasher};

verus! {

// ---- prelude (trusted base) -------------------------------------------------------------------
#[verifier::external_body]
pub struct ConnectionId { _p: () }

// cookies are UUID newtypes (aldrin-core ids.rs): opaque Copy + Eq + Hash keys. ASSUMED key model.
#[verifier::external_body]
#[derive(Clone, Copy)]
pub struct ServiceCookie { _p: () }
#[verifier::external_body]
#[derive(Clone, Copy)]
pub struct ObjectCookie { _p: () }
#[verifier::external_body]
#[derive(Clone, Copy)]
pub struct ChannelCookie { _p: () }
#[verifier::external_body]
#[derive(Clone, Copy)]
pub struct BusListenerCookie { _p: () }
#[verifier::external_body]
#[derive(Clone, Copy)]
pub struct ProtocolVersion { _p: () }
#[verifier::external_body]
pub struct VersionedMessage { _p: () }
#[verifier::external_body]
#[verifier::reject_recursive_types(T)]
pub struct UnboundedSender<T> { _p: core::marker::PhantomData<T> }

macro_rules! opaque_key {
    ($t:ident) => {
        verus! {
        impl PartialEq for $t {
            #[verifier::external_body]
            fn eq(&self, other: &Self) -> (r: bool) { unimplemented!() }
        }
        impl Eq for $t {}
        impl Hash for $t {
            #[verifier::external_body]
            fn hash<H: Hasher>(&self, state: &mut H) { unimplemented!() }
        }
        }
    };
}
opaque_key!(ServiceCookie);
opaque_key!(ObjectCookie);
opaque_key!(ChannelCookie);
opaque_key!(BusListenerCookie);

pub mod trusted {
    use super::*;
    pub broadcast axiom fn axiom_service_cookie_key_model()
        ensures #[trigger] obeys_key_model::<ServiceCookie>();
    pub broadcast axiom fn axiom_object_cookie_key_model()
        ensures #[trigger] obeys_key_model::<ObjectCookie>();
    pub broadcast axiom fn axiom_channel_cookie_key_model()
        ensures #[trigger] obeys_key_model::<ChannelCookie>();
    pub broadcast axiom fn axiom_bus_listener_cookie_key_model()
        ensures #[trigger] obeys_key_model::<BusListenerCookie>();
}

broadcast use {
    trusted::axiom_service_cookie_key_model, trusted::axiom_object_cookie_key_model,
    trusted::axiom_channel_cookie_key_model, trusted::axiom_bus_listener_cookie_key_model,
    vstd::std_specs::hash::group_hash_axioms, trusted_default::axiom_default_hashset_u32,
};


//@include _shared/std_get_mut_spec.rs
//@include _shared/std_or_default_spec.rs

// ---- extracted from broker/src/broker/conn_state.rs ---------------------------------------------------
//@item broker/src/broker/conn_state.rs struct ConnectionState

impl ConnectionState {
    //@include _shared/conn_state_specs.rs

    //@fn broker/src/broker/conn_state.rs ConnectionState::new
        ensures
            r.inv(),
            r.objects@ == Set::<ObjectCookie>::empty(),
            r.events@ == Map::<ServiceCookie, HashSet<u32>>::empty(),
            r.all_events@ == Set::<ServiceCookie>::empty(),
            r.subscriptions@ == Set::<ServiceCookie>::empty(),
            r.senders@ == Set::<ChannelCookie>::empty(),
            r.receivers@ == Set::<ChannelCookie>::empty(),
            r.bus_listeners@ == Set::<BusListenerCookie>::empty(),
            r.calls@ == Map::<u32, (u32, ConnectionId)>::empty(),
    //@end

    //@fn broker/src/broker/conn_state.rs ConnectionState::version
        ensures r == self.version,
    //@end

    //@fn broker/src/broker/conn_state.rs ConnectionState::add_object
        requires !old(self).objects@.contains(cookie),
        ensures final(self).objects@ == old(self).objects@.insert(cookie),
            final(self).events == old(self).events, final(self).same_but_objects(old(self)),
            final(self).rest_eq(old(self), 2),
            forall|o: ServiceCookie| #![trigger final(self).ev(o)] #![trigger old(self).ev(o)] final(self).ev(o) == old(self).ev(o),
            old(self).inv() ==> final(self).inv(),
    //@end

    //@fn broker/src/broker/conn_state.rs ConnectionState::remove_object
        requires old(self).objects@.contains(cookie),
        ensures final(self).objects@ == old(self).objects@.remove(cookie),
            final(self).events == old(self).events, final(self).same_but_objects(old(self)),
            final(self).rest_eq(old(self), 2),
            forall|o: ServiceCookie| #![trigger final(self).ev(o)] #![trigger old(self).ev(o)] final(self).ev(o) == old(self).ev(o),
            old(self).inv() ==> final(self).inv(),
    //@end

    //@fn broker/src/broker/conn_state.rs ConnectionState::subscribe_event
        requires old(self).inv(),
        ensures
            final(self).inv(),
            final(self).ev(svc_cookie) == old(self).ev(svc_cookie).insert(event),
            forall|c: ServiceCookie| c != svc_cookie ==> final(self).ev(c) == old(self).ev(c),
            final(self).same_but_events(old(self)),
            final(self).rest_eq(old(self), 3),
    //@end

    //@fn broker/src/broker/conn_state.rs ConnectionState::unsubscribe_event
        requires old(self).inv(),
        ensures
            final(self).inv(),
            final(self).ev(svc_cookie) == old(self).ev(svc_cookie).remove(event),
            forall|c: ServiceCookie| c != svc_cookie ==> final(self).ev(c) == old(self).ev(c),
            final(self).same_but_events(old(self)),
            final(self).rest_eq(old(self), 3),
    //@end

    //@fn broker/src/broker/conn_state.rs ConnectionState::subscribe_all_events
        ensures
            final(self).all_events@ == old(self).all_events@.insert(svc_cookie),
            final(self).events == old(self).events,
            final(self).subscriptions == old(self).subscriptions, final(self).objects == old(self).objects,
            final(self).senders == old(self).senders, final(self).receivers == old(self).receivers,
            final(self).bus_listeners == old(self).bus_listeners, final(self).calls == old(self).calls,
            final(self).rest_eq(old(self), 4),
            forall|o: ServiceCookie| #![trigger final(self).ev(o)] #![trigger old(self).ev(o)] final(self).ev(o) == old(self).ev(o),
            old(self).inv() ==> final(self).inv(),
    //@end

    //@fn broker/src/broker/conn_state.rs ConnectionState::unsubscribe_all_events
        ensures
            final(self).all_events@ == old(self).all_events@.remove(svc_cookie),
            final(self).events == old(self).events,
            final(self).subscriptions == old(self).subscriptions, final(self).objects == old(self).objects,
            final(self).senders == old(self).senders, final(self).receivers == old(self).receivers,
            final(self).bus_listeners == old(self).bus_listeners, final(self).calls == old(self).calls,
            final(self).rest_eq(old(self), 4),
            forall|o: ServiceCookie| #![trigger final(self).ev(o)] #![trigger old(self).ev(o)] final(self).ev(o) == old(self).ev(o),
            old(self).inv() ==> final(self).inv(),
    //@end

    //@fn broker/src/broker/conn_state.rs ConnectionState::subscribe
        ensures
            final(self).subscriptions@ == old(self).subscriptions@.insert(svc_cookie),
            final(self).events == old(self).events, final(self).all_events == old(self).all_events,
            final(self).objects == old(self).objects,
            final(self).senders == old(self).senders, final(self).receivers == old(self).receivers,
            final(self).bus_listeners == old(self).bus_listeners, final(self).calls == old(self).calls,
            final(self).rest_eq(old(self), 5),
            forall|o: ServiceCookie| #![trigger final(self).ev(o)] #![trigger old(self).ev(o)] final(self).ev(o) == old(self).ev(o),
            old(self).inv() ==> final(self).inv(),
    //@end

    //@fn broker/src/broker/conn_state.rs ConnectionState::unsubscribe
        ensures
            final(self).subscriptions@ == old(self).subscriptions@.remove(svc_cookie),
            final(self).events == old(self).events, final(self).all_events == old(self).all_events,
            final(self).objects == old(self).objects,
            final(self).senders == old(self).senders, final(self).receivers == old(self).receivers,
            final(self).bus_listeners == old(self).bus_listeners, final(self).calls == old(self).calls,
            final(self).rest_eq(old(self), 5),
            forall|o: ServiceCookie| #![trigger final(self).ev(o)] #![trigger old(self).ev(o)] final(self).ev(o) == old(self).ev(o),
            old(self).inv() ==> final(self).inv(),
    //@end

    //@fn broker/src/broker/conn_state.rs ConnectionState::unsubscribe_all
        requires old(self).inv(),
        ensures
            final(self).inv(),
            // all per-event subscriptions to that service and the service subscription end
            final(self).ev(svc_cookie) == Set::<u32>::empty(),
            forall|c: ServiceCookie| c != svc_cookie ==> final(self).ev(c) == old(self).ev(c),
            final(self).subscriptions@ == old(self).subscriptions@.remove(svc_cookie),
            final(self).all_events == old(self).all_events,
            final(self).objects == old(self).objects,
            final(self).senders == old(self).senders, final(self).receivers == old(self).receivers,
            final(self).bus_listeners == old(self).bus_listeners, final(self).calls == old(self).calls,
            final(self).rest_eq2(old(self), 3, 5),
    //@end

    //@fn broker/src/broker/conn_state.rs ConnectionState::add_sender
        requires !old(self).senders@.contains(cookie),
        ensures final(self).senders@ == old(self).senders@.insert(cookie),
            final(self).receivers == old(self).receivers, final(self).objects == old(self).objects,
            final(self).events == old(self).events, final(self).calls == old(self).calls,
            final(self).bus_listeners == old(self).bus_listeners,
            final(self).rest_eq(old(self), 6),
            forall|o: ServiceCookie| #![trigger final(self).ev(o)] #![trigger old(self).ev(o)] final(self).ev(o) == old(self).ev(o),
            old(self).inv() ==> final(self).inv(),
    //@end

    //@fn broker/src/broker/conn_state.rs ConnectionState::remove_sender
        requires old(self).senders@.contains(cookie),
        ensures final(self).senders@ == old(self).senders@.remove(cookie),
            final(self).receivers == old(self).receivers, final(self).objects == old(self).objects,
            final(self).events == old(self).events, final(self).calls == old(self).calls,
            final(self).bus_listeners == old(self).bus_listeners,
            final(self).rest_eq(old(self), 6),
            forall|o: ServiceCookie| #![trigger final(self).ev(o)] #![trigger old(self).ev(o)] final(self).ev(o) == old(self).ev(o),
            old(self).inv() ==> final(self).inv(),
    //@end

    //@fn broker/src/broker/conn_state.rs ConnectionState::add_receiver
        requires !old(self).receivers@.contains(cookie),
        ensures final(self).receivers@ == old(self).receivers@.insert(cookie),
            final(self).senders == old(self).senders, final(self).objects == old(self).objects,
            final(self).events == old(self).events, final(self).calls == old(self).calls,
            final(self).bus_listeners == old(self).bus_listeners,
            final(self).rest_eq(old(self), 7),
            forall|o: ServiceCookie| #![trigger final(self).ev(o)] #![trigger old(self).ev(o)] final(self).ev(o) == old(self).ev(o),
            old(self).inv() ==> final(self).inv(),
    //@end

    //@fn broker/src/broker/conn_state.rs ConnectionState::remove_receiver
        requires old(self).receivers@.contains(cookie),
        ensures final(self).receivers@ == old(self).receivers@.remove(cookie),
            final(self).senders == old(self).senders, final(self).objects == old(self).objects,
            final(self).events == old(self).events, final(self).calls == old(self).calls,
            final(self).bus_listeners == old(self).bus_listeners,
            final(self).rest_eq(old(self), 7),
            forall|o: ServiceCookie| #![trigger final(self).ev(o)] #![trigger old(self).ev(o)] final(self).ev(o) == old(self).ev(o),
            old(self).inv() ==> final(self).inv(),
    //@end

    //@fn broker/src/broker/conn_state.rs ConnectionState::add_bus_listener
        requires !old(self).bus_listeners@.contains(cookie),
        ensures final(self).bus_listeners@ == old(self).bus_listeners@.insert(cookie),
            final(self).senders == old(self).senders, final(self).receivers == old(self).receivers,
            final(self).objects == old(self).objects, final(self).events == old(self).events,
            final(self).calls == old(self).calls,
            final(self).rest_eq(old(self), 8),
            forall|o: ServiceCookie| #![trigger final(self).ev(o)] #![trigger old(self).ev(o)] final(self).ev(o) == old(self).ev(o),
            old(self).inv() ==> final(self).inv(),
    //@end

    //@fn broker/src/broker/conn_state.rs ConnectionState::remove_bus_listener
        requires old(self).bus_listeners@.contains(cookie),
        ensures final(self).bus_listeners@ == old(self).bus_listeners@.remove(cookie),
            final(self).senders == old(self).senders, final(self).receivers == old(self).receivers,
            final(self).objects == old(self).objects, final(self).events == old(self).events,
            final(self).calls == old(self).calls,
            final(self).rest_eq(old(self), 8),
            forall|o: ServiceCookie| #![trigger final(self).ev(o)] #![trigger old(self).ev(o)] final(self).ev(o) == old(self).ev(o),
            old(self).inv() ==> final(self).inv(),
    //@end

    // C02 leaf fact: a caller serial that is already pending is rejected and nothing changes
    //@fn broker/src/broker/conn_state.rs ConnectionState::add_call
        ensures
            r == !old(self).calls@.contains_key(caller_serial),
            !r ==> final(self).calls@ == old(self).calls@,
            r ==> final(self).calls@ == old(self).calls@.insert(caller_serial, (callee_serial, callee_id)),
            final(self).events == old(self).events, final(self).objects == old(self).objects,
            final(self).senders == old(self).senders, final(self).receivers == old(self).receivers,
            final(self).bus_listeners == old(self).bus_listeners,
            final(self).rest_eq(old(self), 9),
            forall|o: ServiceCookie| #![trigger final(self).ev(o)] #![trigger old(self).ev(o)] final(self).ev(o) == old(self).ev(o),
            old(self).inv() ==> final(self).inv(),
    //@end

    //@fn broker/src/broker/conn_state.rs ConnectionState::remove_call
        requires old(self).calls@.contains_key(caller_serial),
        ensures
            final(self).calls@ == old(self).calls@.remove(caller_serial),
            final(self).events == old(self).events, final(self).objects == old(self).objects,
            final(self).senders == old(self).senders, final(self).receivers == old(self).receivers,
            final(self).bus_listeners == old(self).bus_listeners,
            final(self).rest_eq(old(self), 9),
            forall|o: ServiceCookie| #![trigger final(self).ev(o)] #![trigger old(self).ev(o)] final(self).ev(o) == old(self).ev(o),
            old(self).inv() ==> final(self).inv(),
    //@end

    // (closures inlined by the extractor, normalisation N11)
    //@fn broker/src/broker/conn_state.rs ConnectionState::call_data option-map
        ensures
            match r {
                Some(d) => self.calls@.contains_key(caller_serial) && d.0 == self.calls@[caller_serial].0
                    && *d.1 == self.calls@[caller_serial].1,
                None => !self.calls@.contains_key(caller_serial),
            },
    //@end

    // subscribed to all events of the service or to this event
    //@fn broker/src/broker/conn_state.rs ConnectionState::is_subscribed_to_event option-map
        ensures r == (self.all_events@.contains(svc_cookie) || self.ev(svc_cookie).contains(event)),
    //@end
}

} // verus!

fn main() {}
