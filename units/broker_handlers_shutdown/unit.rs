// unit: broker_handlers_shutdown   property: C09 (a connection that ends releases everything it owned or subscribed to; once all
// connections are gone nothing is left), C11 (the expect()s / debug_assert!s reached from shutdown_connection)
// Broker::shutdown_connection of broker/src/broker.rs verified against the CONTRACTS of the cleanup helpers it calls
// (remove_object, remove_event_subscription, remove_all_events_subscription, remove_subscription: verified in the registry
// and subscription units; remove_bus_listener: verified in the bus-listener unit; remove_channel_end: ASSUMED, see there),
// under the conjunction of the registry, channel and bus-listener invariants.
#![feature(allocator_api)]
use vstd::prelude::*;
use vstd::std_specs::hash::*;
use vstd::std_specs::cmp::*;
use std::collections::hash_map::{Entry, HashMap, OccupiedEntry};
use std::collections::HashSet;
use std::hash::{Hash, Hasher};
use std::mem;

verus! {

//@keep-cfg statistics
//@include _shared/registry_preamble_a.rs
//@include _shared/statistics_items.rs
//@item core/src/channel_end.rs enum ChannelEnd attr=derive(Clone,Copy)
//@item broker/src/broker/channel.rs struct Channel
//@item broker/src/broker/channel.rs enum ChannelEndState
//@include _shared/channel_specs.rs
//@item core/src/bus_listener.rs enum BusListenerScope attr=derive(Clone,Copy)
//@item broker/src/bus_listener.rs struct BusListener
//@item core/src/message/shutdown.rs struct Shutdown
//@item core/src/message/channel_end_closed.rs struct ChannelEndClosed

impl IntoMessage for Shutdown { open spec fn min_minor() -> u32 { 0 } open spec fn allowed_for(&self, receiver: &ConnectionState) -> bool { true } }
impl IntoMessage for ChannelEndClosed { open spec fn min_minor() -> u32 { 0 } open spec fn allowed_for(&self, receiver: &ConnectionState) -> bool { true } }

//@include _shared/registry_preamble_b.rs

// futures_channel::mpsc::channel and BrokerHandle::new as far as Broker::new uses them (opaque)
#[verifier::external_body]
#[verifier::reject_recursive_types(T)]
pub struct Sender<T> { _p: core::marker::PhantomData<T> }
#[verifier::external_body]
pub fn channel<T>(buffer: usize) -> (r: (Sender<T>, Receiver<T>)) { unimplemented!() }
impl BrokerHandle {
    #[verifier::external_body]
    pub(crate) fn new(send: Sender<ConnectionEvent>) -> (r: Self) { unimplemented!() }
}
impl BrokerStatistics {
    // the real constructor reads the clock (Instant::now()); ASSUMED: all counters start at zero
    //@fn broker/src/broker/statistics.rs BrokerStatistics::new nobody vis=crate
        ensures r.num_connections == 0, r.num_objects == 0, r.num_services == 0, r.num_channels == 0, r.num_bus_listeners == 0,
    //@end
}
//@item broker/src/broker.rs const FIFO_SIZE

pub open spec fn call_listed_from(q: Seq<(u32, &ConnectionId)>, from: int, callee_serial: u32, callee: ConnectionId) -> bool {
    exists|i: int| from <= i < q.len() && q[i].0 == callee_serial && *q[i].1 == callee
}
pub open spec fn call_listed(q: Seq<(u32, &ConnectionId)>, callee_serial: u32, callee: ConnectionId) -> bool {
    call_listed_from(q, 0, callee_serial, callee)
}
// an abort for (callee serial, callee) is queued at a position >= n
pub open spec fn abort_queued(q: Seq<(u32, ConnectionId)>, n: int, callee_serial: u32, callee: ConnectionId) -> bool {
    exists|j: int| n <= j < q.len() && q[j].0 == callee_serial && q[j].1 == callee
}

impl ConnectionState {
    // The enumeration accessors of ConnectionState (`self.<set>.iter().copied()`, flat_map / map over hash maps: iterator
    // adapters are outside Verus). ASSUMED: each enumerates its collection, every element once.
    //@fn broker/src/broker/conn_state.rs ConnectionState::bus_listeners nobody iter
        ensures r.elems().no_duplicates(), r.elems().to_set() == self.bus_listeners@,
    //@end
    //@fn broker/src/broker/conn_state.rs ConnectionState::objects nobody iter
        ensures r.elems().no_duplicates(), r.elems().to_set() == self.objects@,
    //@end
    //@fn broker/src/broker/conn_state.rs ConnectionState::event_subscriptions nobody iter
        ensures r.elems().no_duplicates(),
            forall|c: ServiceCookie, e: u32| #![trigger self.ev(c).contains(e)] self.ev(c).contains(e) <==> r.elems().contains((c, e)),
    //@end
    //@fn broker/src/broker/conn_state.rs ConnectionState::all_event_subscriptions nobody iter
        ensures r.elems().no_duplicates(), r.elems().to_set() == self.all_events@,
    //@end
    //@fn broker/src/broker/conn_state.rs ConnectionState::subscriptions nobody iter
        ensures r.elems().no_duplicates(), r.elems().to_set() == self.subscriptions@,
    //@end
    //@fn broker/src/broker/conn_state.rs ConnectionState::senders nobody iter
        ensures r.elems().no_duplicates(), r.elems().to_set() == self.senders@,
    //@end
    //@fn broker/src/broker/conn_state.rs ConnectionState::receivers nobody iter
        ensures r.elems().no_duplicates(), r.elems().to_set() == self.receivers@,
    //@end
    // a pending call of this connection: (callee serial, callee connection)
    spec fn has_call(&self, callee_serial: u32, callee: ConnectionId) -> bool {
        exists|cs: u32| #![trigger self.calls@[cs]] self.calls@.contains_key(cs) && self.calls@[cs].0 == callee_serial && self.calls@[cs].1 == callee
    }
    //@fn broker/src/broker/conn_state.rs ConnectionState::calls nobody iter
        ensures
            r.elems().len() == self.calls@.len(),
            forall|i: int| #![trigger r.elems()[i]] 0 <= i < r.elems().len() ==> self.has_call(r.elems()[i].0, *r.elems()[i].1),
            forall|cs: u32| #![trigger self.calls@[cs]] self.calls@.contains_key(cs) ==> call_listed(r.elems(), self.calls@[cs].0, self.calls@[cs].1),
    //@end
}

impl BusListener {
    // the cached-flag invariant of the leaf unit (part of bl_inv); uninterpreted here: teardown only removes listeners
    pub uninterp spec fn flags_ok(&self) -> bool;
    //@fn-from broker_bus_listener broker/src/bus_listener.rs BusListener::conn_id
}

impl Broker {
    //@include _shared/registry_inv.rs
    //@include _shared/statistics_specs.rs
    //@include _shared/chan_inv.rs
    //@include _shared/bl_inv.rs
    //@fn-from broker_handlers_channel broker/src/broker.rs Broker::remove_channel_end

    // ---- the initial state satisfies every invariant (base case of the induction over histories) ------------------------
    //@fn broker/src/broker.rs Broker::new vis=crate
        ensures
            r.reg_inv(), r.chan_inv(), r.bl_inv(), r.chan_owners_connected(), r.bl_owners_connected(), r.stat_ok(),
            forall|k: ConnectionId| !r.conns@.contains_key(k),
    //@end

    //@fn-from broker_handlers_bus_listener broker/src/broker.rs Broker::remove_bus_listener
    //@fn-from broker_handlers_registry broker/src/broker.rs Broker::remove_object
    //@fn-from broker_handlers_subs broker/src/broker.rs Broker::remove_event_subscription
    //@fn-from broker_handlers_subs broker/src/broker.rs Broker::remove_all_events_subscription
    //@fn-from broker_handlers_subs broker/src/broker.rs Broker::remove_subscription

    // ---- bookkeeping predicates for the teardown of connection `id`, whose (removed) record is `conn` ---------------------
    // COVERAGE: whatever still refers to `id` is on one of the lists of `conn` (so the loops over those lists reach it)
    spec fn cov_bl(&self, id: ConnectionId, conn: &ConnectionState) -> bool {
        forall|c: BusListenerCookie| #![trigger self.bus_listeners@[c]] self.bus_listeners@.contains_key(c)
            && self.bus_listeners@[c].conn_id == id ==> conn.bus_listeners@.contains(c)
    }
    spec fn cov_obj(&self, id: ConnectionId, conn: &ConnectionState) -> bool {
        forall|u: ObjectUuid| #![trigger self.objs@[u]] self.objs@.contains_key(u) && self.objs@[u].conn_id == id ==>
            conn.objects@.contains(self.objs@[u].cookie)
    }
    spec fn cov_ev(&self, id: ConnectionId, conn: &ConnectionState) -> bool {
        forall|k: (ObjectUuid, ServiceUuid), e: u32| #![trigger self.svcs@[k].subs(e)] self.svcs@.contains_key(k)
            && self.svcs@[k].subs(e).contains(id) ==> conn.ev(self.svcs@[k].cookie).contains(e)
    }
    spec fn cov_all(&self, id: ConnectionId, conn: &ConnectionState) -> bool {
        forall|k: (ObjectUuid, ServiceUuid)| #![trigger self.svcs@[k]] self.svcs@.contains_key(k)
            && self.svcs@[k].all_events@.contains(id) ==> conn.all_events@.contains(self.svcs@[k].cookie)
    }
    spec fn cov_sub(&self, id: ConnectionId, conn: &ConnectionState) -> bool {
        forall|k: (ObjectUuid, ServiceUuid)| #![trigger self.svcs@[k]] self.svcs@.contains_key(k)
            && self.svcs@[k].subscriptions@.contains(id) ==> conn.subscriptions@.contains(self.svcs@[k].cookie)
    }
    spec fn cov_chan(&self, id: ConnectionId, conn: &ConnectionState) -> bool {
        forall|c: ChannelCookie| #![trigger self.channels@[c]] self.channels@.contains_key(c) ==> {
            &&& (self.channels@[c].sender.claimed_by(id.id()) ==> conn.senders@.contains(c))
            &&& (self.channels@[c].receiver.claimed_by(id.id()) ==> conn.receivers@.contains(c))
        }
    }
    // OWNERSHIP: what `conn` lists as its channel ends is (if the channel still exists) an end claimed by `id`
    spec fn own_chan(&self, id: ConnectionId, conn: &ConnectionState, done_s: Seq<ChannelCookie>, done_r: Seq<ChannelCookie>) -> bool {
        forall|c: ChannelCookie| #![trigger self.channels@[c]] self.channels@.contains_key(c) ==> {
            &&& (conn.senders@.contains(c) && !done_s.contains(c) ==> self.channels@[c].sender.claimed_by(id.id()))
            &&& (conn.receivers@.contains(c) && !done_r.contains(c) ==> self.channels@[c].receiver.claimed_by(id.id()))
        }
    }
    // everybody except `id` who owns or subscribes to something is connected
    spec fn others_connected(&self, id: ConnectionId) -> bool {
        &&& forall|u: ObjectUuid| #![trigger self.objs@[u]] self.objs@.contains_key(u) ==>
                self.objs@[u].conn_id == id || self.conns@.contains_key(self.objs@[u].conn_id)
        &&& forall|k: (ObjectUuid, ServiceUuid), e: u32, c: ConnectionId| #![trigger self.svcs@[k].subs(e).contains(c)]
                self.svcs@.contains_key(k) && self.svcs@[k].subs(e).contains(c) ==> c == id || self.conns@.contains_key(c)
        &&& forall|k: (ObjectUuid, ServiceUuid), c: ConnectionId| #![trigger self.svcs@[k].all_events@.contains(c)]
                self.svcs@.contains_key(k) && self.svcs@[k].all_events@.contains(c) ==> c == id || self.conns@.contains_key(c)
        &&& forall|k: (ObjectUuid, ServiceUuid), c: ConnectionId| #![trigger self.svcs@[k].subscriptions@.contains(c)]
                self.svcs@.contains_key(k) && self.svcs@[k].subscriptions@.contains(c) ==> c == id || self.conns@.contains_key(c)
        &&& forall|c: ChannelCookie| #![trigger self.channels@[c]] self.channels@.contains_key(c) ==> {
                &&& (self.channels@[c].sender is Claimed ==> self.channels@[c].sender.owner_id() == id.id() || self.connected_id(self.channels@[c].sender.owner_id()))
                &&& (self.channels@[c].receiver is Claimed ==> self.channels@[c].receiver.owner_id() == id.id() || self.connected_id(self.channels@[c].receiver.owner_id()))
            }
        &&& forall|c: BusListenerCookie| #![trigger self.bus_listeners@[c]] self.bus_listeners@.contains_key(c) ==>
                self.bus_listeners@[c].conn_id == id || self.conns@.contains_key(self.bus_listeners@[c].conn_id)
    }

    // GONE: nothing of that kind refers to `id` any more
    spec fn gone_bl(&self, id: ConnectionId) -> bool {
        forall|c: BusListenerCookie| #![trigger self.bus_listeners@[c]] self.bus_listeners@.contains_key(c) ==> self.bus_listeners@[c].conn_id != id
    }
    spec fn gone_obj(&self, id: ConnectionId) -> bool {
        forall|u: ObjectUuid| #![trigger self.objs@[u]] self.objs@.contains_key(u) ==> self.objs@[u].conn_id != id
    }
    spec fn gone_ev(&self, id: ConnectionId) -> bool {
        forall|k: (ObjectUuid, ServiceUuid), e: u32| #![trigger self.svcs@[k].subs(e)] self.svcs@.contains_key(k) ==> !self.svcs@[k].subs(e).contains(id)
    }
    spec fn gone_all(&self, id: ConnectionId) -> bool {
        forall|k: (ObjectUuid, ServiceUuid)| #![trigger self.svcs@[k]] self.svcs@.contains_key(k) ==> !self.svcs@[k].all_events@.contains(id)
    }
    spec fn gone_sub(&self, id: ConnectionId) -> bool {
        forall|k: (ObjectUuid, ServiceUuid)| #![trigger self.svcs@[k]] self.svcs@.contains_key(k) ==> !self.svcs@[k].subscriptions@.contains(id)
    }
    spec fn gone_snd(&self, id: ConnectionId) -> bool {
        forall|c: ChannelCookie| #![trigger self.channels@[c]] self.channels@.contains_key(c) ==> !self.channels@[c].sender.claimed_by(id.id())
    }
    spec fn gone_rcv(&self, id: ConnectionId) -> bool {
        forall|c: ChannelCookie| #![trigger self.channels@[c]] self.channels@.contains_key(c) ==> !self.channels@[c].receiver.claimed_by(id.id())
    }

    // the state in the middle of the teardown
    spec fn sd_inv(&self, id: ConnectionId, conn: &ConnectionState) -> bool {
        &&& !self.conns@.contains_key(id)
        &&& self.reg_winv() &&& self.no_orphans() &&& self.chan_inv() &&& self.bl_inv()
        &&& self.cov_bl(id, conn) &&& self.cov_obj(id, conn) &&& self.cov_ev(id, conn) &&& self.cov_all(id, conn)
        &&& self.cov_sub(id, conn) &&& self.cov_chan(id, conn)
        &&& self.others_connected(id)
    }

    //@fn broker/src/broker.rs Broker::shutdown_connection
        requires
            old(self).reg_inv(), old(self).chan_inv(), old(self).bl_inv(),
            old(self).chan_owners_connected(), old(self).bl_owners_connected(),
        ensures
            // an unknown connection (already removed): nothing happens
            !old(self).conns@.contains_key(*id) ==> {
                &&& final(self).conns@ =~= old(self).conns@ &&& final(self).same_registry(old(self)) &&& final(self).same_rest(old(self))
                &&& final(self).calls() =~= old(self).calls() &&& *final(state) == *old(state)
            },
            old(self).conns@.contains_key(*id) ==> {
                // the connection is gone ...
                &&& final(self).conns@.dom() =~= old(self).conns@.dom().remove(*id)
                // ... and NOTHING refers to it any more: no bus listener, object (hence no service of such an object), event /
                // all-events / service subscription and no channel end is held by it
                &&& final(self).gone_bl(*id) &&& final(self).gone_obj(*id) &&& final(self).gone_ev(*id) &&& final(self).gone_all(*id)
                &&& final(self).gone_sub(*id) &&& final(self).gone_snd(*id) &&& final(self).gone_rcv(*id)
                // for every call the connection had pending, exactly one abort is queued (the callee is told, the call is marked)
                &&& final(state).abort_function_calls@.len() == old(state).abort_function_calls@.len() + old(self).conns@[*id].calls@.len()
                &&& forall|cs: u32| #![trigger old(self).conns@[*id].calls@[cs]] old(self).conns@[*id].calls@.contains_key(cs) ==>
                        abort_queued(final(state).abort_function_calls@, old(state).abort_function_calls@.len() as int,
                            old(self).conns@[*id].calls@[cs].0, old(self).conns@[*id].calls@[cs].1)
            },
            // the tables are consistent again in the strong sense (every owner and subscriber is a connected client), so the
            // next request finds the invariant it relies on
            // statistics: all five counters equal the sizes of their tables again
            old(self).stat_ok() ==> final(self).stat_ok(),
            final(self).chan_inv(), final(self).bl_inv(), final(self).chan_owners_connected(), final(self).bl_owners_connected(),
            final(self).inv_objects(), final(self).inv_services(), final(self).inv_object_services(), final(self).inv_ownership(),
            final(self).inv_calls(), final(self).inv_callers(), final(self).inv_conns(), final(self).inv_subs(),
            final(self).reg_winv(), final(self).reg_inv(),
    //@ghost before `for bus_listener_cookie in conn.bus_listeners()`
        let ghost idv = *id;
        let ghost ok0 = old(self).stat_ok();
        let ghost s0 = *self;
        proof {
            assert(s0.conns@ =~= old(self).conns@.remove(idv));
            assert(conn == old(self).conns@[idv]);
            assert(s0.reg_winv());
            assert(s0.no_orphans());
            assert(s0.chan_inv());
            assert(s0.bl_inv());
            assert(s0.cov_bl(idv, &conn));
            assert(s0.cov_obj(idv, &conn));
            assert(s0.cov_ev(idv, &conn));
            assert(s0.cov_all(idv, &conn));
            assert(s0.cov_sub(idv, &conn));
            assert(s0.cov_chan(idv, &conn));
            assert(s0.own_chan(idv, &conn, Seq::empty(), Seq::empty()));
            assert(s0.others_connected(idv));
        }
    //@ghost before `for bus_listener_cookie in conn.bus_listeners()`
        let ghost mut ord0: Seq<BusListenerCookie> = Seq::empty();
        let ghost mut ord1: Seq<ObjectCookie> = Seq::empty();
        let ghost mut ord2: Seq<(ServiceCookie, u32)> = Seq::empty();
        let ghost mut ord3: Seq<ServiceCookie> = Seq::empty();
        let ghost mut ord4: Seq<ServiceCookie> = Seq::empty();
        let ghost mut ord5: Seq<ChannelCookie> = Seq::empty();
        let ghost mut ord6: Seq<ChannelCookie> = Seq::empty();
    //@loop 0 it0
        invariant
            it0.seq().no_duplicates(), it0.seq().to_set() == conn.bus_listeners@,
            ord0 == it0.history(),
            forall|x: BusListenerCookie| #![trigger conn.bus_listeners@.contains(x)] conn.bus_listeners@.contains(x) <==> (ord0.contains(x) || in_rest(it0.seq(), it0.index(), x)),
            idv == *id, !self.conns@.contains_key(idv), self.conns@.dom() =~= s0.conns@.dom(), state.abort_function_calls@ == old(state).abort_function_calls@, ok0 ==> self.stat_objects_ok(), ok0 ==> self.stat_services_ok(), ok0 ==> self.stat_channels_ok(), ok0 ==> self.stat_listeners_ok(), ok0 ==> self.statistics.num_connections == self.conns@.len() + 1, self.reg_winv(), self.no_orphans(), self.chan_inv(), self.bl_inv(), self.cov_bl(idv, &conn), self.cov_obj(idv, &conn), self.cov_ev(idv, &conn), self.cov_all(idv, &conn), self.cov_sub(idv, &conn), self.cov_chan(idv, &conn), self.others_connected(idv), self.own_chan(idv, &conn, Seq::empty(), Seq::empty()),
            forall|c: BusListenerCookie| #![trigger self.bus_listeners@.contains_key(c)] self.bus_listeners@.contains_key(c) ==> !ord0.contains(c),
    //@ghost loop-start 0
        proof {
            assert(it0.history() == it0.seq().take(it0.index()));
            assert(bus_listener_cookie == it0.seq()[it0.index()]);
            lemma_iter_step(it0.seq(), it0.index());
            assert(it0.seq().to_set().contains(bus_listener_cookie));
        }
    //@ghost loop-end 0
        proof {
            let h2 = it0.history().push(bus_listener_cookie);
            assert(it0.seq().take(it0.index() + 1) == h2);
            ord0 = h2;
        }
    //@ghost before `for obj_cookie in conn.objects()`
        proof { assert(self.gone_bl(idv)); }
    //@loop 1 it1
        invariant
            it1.seq().no_duplicates(), it1.seq().to_set() == conn.objects@,
            ord1 == it1.history(),
            forall|x: ObjectCookie| #![trigger conn.objects@.contains(x)] conn.objects@.contains(x) <==> (ord1.contains(x) || in_rest(it1.seq(), it1.index(), x)),
            idv == *id, !self.conns@.contains_key(idv), self.conns@.dom() =~= s0.conns@.dom(), state.abort_function_calls@ == old(state).abort_function_calls@, ok0 ==> self.stat_objects_ok(), ok0 ==> self.stat_services_ok(), ok0 ==> self.stat_channels_ok(), ok0 ==> self.stat_listeners_ok(), ok0 ==> self.statistics.num_connections == self.conns@.len() + 1, self.reg_winv(), self.no_orphans(), self.chan_inv(), self.bl_inv(), self.cov_bl(idv, &conn), self.cov_obj(idv, &conn), self.cov_ev(idv, &conn), self.cov_all(idv, &conn), self.cov_sub(idv, &conn), self.cov_chan(idv, &conn), self.others_connected(idv), self.own_chan(idv, &conn, Seq::empty(), Seq::empty()), self.gone_bl(idv),
            forall|c: ObjectCookie| #![trigger self.obj_uuids@.contains_key(c)] self.obj_uuids@.contains_key(c) ==> !ord1.contains(c),
    //@ghost loop-start 1
        proof {
            assert(it1.history() == it1.seq().take(it1.index()));
            assert(obj_cookie == it1.seq()[it1.index()]);
            lemma_iter_step(it1.seq(), it1.index());
            assert(it1.seq().to_set().contains(obj_cookie));
        }
    //@ghost loop-end 1
        proof {
            let h2 = it1.history().push(obj_cookie);
            assert(it1.seq().take(it1.index() + 1) == h2);
            ord1 = h2;
        }
    //@ghost before `for (svc_cookie, event) in conn.event_subscriptions()`
        proof { assert(self.gone_obj(idv)); }
    //@loop 2 it2
        invariant
            it2.seq().no_duplicates(),
            forall|c: ServiceCookie, e: u32| #![trigger conn.ev(c).contains(e)] conn.ev(c).contains(e) <==> it2.seq().contains((c, e)),
            ord2 == it2.history(),
            forall|c: ServiceCookie, e: u32| #![trigger conn.ev(c).contains(e)] conn.ev(c).contains(e) <==> (ord2.contains((c, e)) || in_rest(it2.seq(), it2.index(), (c, e))),
            idv == *id, !self.conns@.contains_key(idv), self.conns@.dom() =~= s0.conns@.dom(), state.abort_function_calls@ == old(state).abort_function_calls@, ok0 ==> self.stat_objects_ok(), ok0 ==> self.stat_services_ok(), ok0 ==> self.stat_channels_ok(), ok0 ==> self.stat_listeners_ok(), ok0 ==> self.statistics.num_connections == self.conns@.len() + 1, self.reg_winv(), self.no_orphans(), self.chan_inv(), self.bl_inv(), self.cov_bl(idv, &conn), self.cov_obj(idv, &conn), self.cov_ev(idv, &conn), self.cov_all(idv, &conn), self.cov_sub(idv, &conn), self.cov_chan(idv, &conn), self.others_connected(idv), self.own_chan(idv, &conn, Seq::empty(), Seq::empty()), self.gone_bl(idv), self.gone_obj(idv),
            forall|k: (ObjectUuid, ServiceUuid), e: u32| #![trigger self.svcs@[k].subs(e)] self.svcs@.contains_key(k)
                && ord2.contains((self.svcs@[k].cookie, e)) ==> !self.svcs@[k].subs(e).contains(idv),
    //@ghost loop-start 2
        let ghost prev2 = *self;
        proof {
            assert(it2.history() == it2.seq().take(it2.index()));
            assert((svc_cookie, event) == it2.seq()[it2.index()]);
            lemma_iter_step(it2.seq(), it2.index());
        }
    //@ghost loop-end 2
        proof {
            assert(it2.seq().take(it2.index() + 1) == it2.history().push((svc_cookie, event)));
            ord2 = it2.history().push((svc_cookie, event));
        }
    //@ghost before `for svc_cookie in conn.all_event_subscriptions()`
        proof { assert(self.gone_ev(idv)); }
    //@loop 3 it3
        invariant
            it3.seq().no_duplicates(), it3.seq().to_set() == conn.all_events@,
            ord3 == it3.history(),
            forall|x: ServiceCookie| #![trigger conn.all_events@.contains(x)] conn.all_events@.contains(x) <==> (ord3.contains(x) || in_rest(it3.seq(), it3.index(), x)),
            idv == *id, !self.conns@.contains_key(idv), self.conns@.dom() =~= s0.conns@.dom(), state.abort_function_calls@ == old(state).abort_function_calls@, ok0 ==> self.stat_objects_ok(), ok0 ==> self.stat_services_ok(), ok0 ==> self.stat_channels_ok(), ok0 ==> self.stat_listeners_ok(), ok0 ==> self.statistics.num_connections == self.conns@.len() + 1, self.reg_winv(), self.no_orphans(), self.chan_inv(), self.bl_inv(), self.cov_bl(idv, &conn), self.cov_obj(idv, &conn), self.cov_ev(idv, &conn), self.cov_all(idv, &conn), self.cov_sub(idv, &conn), self.cov_chan(idv, &conn), self.others_connected(idv), self.own_chan(idv, &conn, Seq::empty(), Seq::empty()), self.gone_bl(idv), self.gone_obj(idv), self.gone_ev(idv),
            forall|k: (ObjectUuid, ServiceUuid)| #![trigger self.svcs@[k]] self.svcs@.contains_key(k)
                && ord3.contains(self.svcs@[k].cookie) ==> !self.svcs@[k].all_events@.contains(idv),
    //@ghost loop-start 3
        proof {
            assert(it3.history() == it3.seq().take(it3.index()));
            assert(svc_cookie == it3.seq()[it3.index()]);
            lemma_iter_step(it3.seq(), it3.index());
            assert(it3.seq().to_set().contains(svc_cookie));
        }
    //@ghost loop-end 3
        proof {
            let h2 = it3.history().push(svc_cookie);
            assert(it3.seq().take(it3.index() + 1) == h2);
            ord3 = h2;
        }
    //@ghost before `for svc_cookie in conn.subscriptions()`
        proof { assert(self.gone_all(idv)); }
    //@loop 4 it4
        invariant
            it4.seq().no_duplicates(), it4.seq().to_set() == conn.subscriptions@,
            ord4 == it4.history(),
            forall|x: ServiceCookie| #![trigger conn.subscriptions@.contains(x)] conn.subscriptions@.contains(x) <==> (ord4.contains(x) || in_rest(it4.seq(), it4.index(), x)),
            idv == *id, !self.conns@.contains_key(idv), self.conns@.dom() =~= s0.conns@.dom(), state.abort_function_calls@ == old(state).abort_function_calls@, ok0 ==> self.stat_objects_ok(), ok0 ==> self.stat_services_ok(), ok0 ==> self.stat_channels_ok(), ok0 ==> self.stat_listeners_ok(), ok0 ==> self.statistics.num_connections == self.conns@.len() + 1, self.reg_winv(), self.no_orphans(), self.chan_inv(), self.bl_inv(), self.cov_bl(idv, &conn), self.cov_obj(idv, &conn), self.cov_ev(idv, &conn), self.cov_all(idv, &conn), self.cov_sub(idv, &conn), self.cov_chan(idv, &conn), self.others_connected(idv), self.own_chan(idv, &conn, Seq::empty(), Seq::empty()), self.gone_bl(idv), self.gone_obj(idv), self.gone_ev(idv), self.gone_all(idv),
            forall|k: (ObjectUuid, ServiceUuid)| #![trigger self.svcs@[k]] self.svcs@.contains_key(k)
                && ord4.contains(self.svcs@[k].cookie) ==> !self.svcs@[k].subscriptions@.contains(idv),
    //@ghost loop-start 4
        proof {
            assert(it4.history() == it4.seq().take(it4.index()));
            assert(svc_cookie == it4.seq()[it4.index()]);
            lemma_iter_step(it4.seq(), it4.index());
            assert(it4.seq().to_set().contains(svc_cookie));
        }
    //@ghost loop-end 4
        proof {
            let h2 = it4.history().push(svc_cookie);
            assert(it4.seq().take(it4.index() + 1) == h2);
            ord4 = h2;
        }
    //@ghost before `for chann_cookie in conn.senders()`
        proof { assert(self.gone_sub(idv)); }
    //@loop 5 it5
        invariant
            it5.seq().no_duplicates(), it5.seq().to_set() == conn.senders@,
            ord5 == it5.history(),
            forall|x: ChannelCookie| #![trigger conn.senders@.contains(x)] conn.senders@.contains(x) <==> (ord5.contains(x) || in_rest(it5.seq(), it5.index(), x)),
            idv == *id, !self.conns@.contains_key(idv), self.conns@.dom() =~= s0.conns@.dom(), state.abort_function_calls@ == old(state).abort_function_calls@, ok0 ==> self.stat_objects_ok(), ok0 ==> self.stat_services_ok(), ok0 ==> self.stat_channels_ok(), ok0 ==> self.stat_listeners_ok(), ok0 ==> self.statistics.num_connections == self.conns@.len() + 1, self.reg_winv(), self.no_orphans(), self.chan_inv(), self.bl_inv(), self.cov_bl(idv, &conn), self.cov_obj(idv, &conn), self.cov_ev(idv, &conn), self.cov_all(idv, &conn), self.cov_sub(idv, &conn), self.cov_chan(idv, &conn), self.others_connected(idv), self.own_chan(idv, &conn, ord5, Seq::empty()),
            self.gone_bl(idv), self.gone_obj(idv), self.gone_ev(idv), self.gone_all(idv), self.gone_sub(idv),
            forall|c: ChannelCookie| #![trigger self.channels@[c]] self.channels@.contains_key(c) && ord5.contains(c) ==> !self.channels@[c].sender.claimed_by(idv.id()),
    //@ghost loop-start 5
        proof {
            assert(it5.history() == it5.seq().take(it5.index()));
            assert(chann_cookie == it5.seq()[it5.index()]);
            lemma_iter_step(it5.seq(), it5.index());
            assert(it5.seq().to_set().contains(chann_cookie));
        }
    //@ghost loop-end 5
        proof {
            let h2 = it5.history().push(chann_cookie);
            assert(it5.seq().take(it5.index() + 1) == h2);
            ord5 = h2;
        }
    //@ghost before `for chann_cookie in conn.receivers()`
        proof { assert(self.gone_snd(idv)); }
    //@loop 6 it6
        invariant
            it6.seq().no_duplicates(), it6.seq().to_set() == conn.receivers@,
            ord6 == it6.history(),
            forall|x: ChannelCookie| #![trigger conn.receivers@.contains(x)] conn.receivers@.contains(x) <==> (ord6.contains(x) || in_rest(it6.seq(), it6.index(), x)),
            idv == *id, !self.conns@.contains_key(idv), self.conns@.dom() =~= s0.conns@.dom(), state.abort_function_calls@ == old(state).abort_function_calls@, ok0 ==> self.stat_objects_ok(), ok0 ==> self.stat_services_ok(), ok0 ==> self.stat_channels_ok(), ok0 ==> self.stat_listeners_ok(), ok0 ==> self.statistics.num_connections == self.conns@.len() + 1, self.reg_winv(), self.no_orphans(), self.chan_inv(), self.bl_inv(), self.cov_bl(idv, &conn), self.cov_obj(idv, &conn), self.cov_ev(idv, &conn), self.cov_all(idv, &conn), self.cov_sub(idv, &conn), self.cov_chan(idv, &conn), self.others_connected(idv), self.own_chan(idv, &conn, ord5, ord6),
            self.gone_bl(idv), self.gone_obj(idv), self.gone_ev(idv), self.gone_all(idv), self.gone_sub(idv), self.gone_snd(idv),
            forall|c: ChannelCookie| #![trigger self.channels@[c]] self.channels@.contains_key(c) && ord6.contains(c) ==> !self.channels@[c].receiver.claimed_by(idv.id()),
    //@ghost loop-start 6
        proof {
            assert(it6.history() == it6.seq().take(it6.index()));
            assert(chann_cookie == it6.seq()[it6.index()]);
            lemma_iter_step(it6.seq(), it6.index());
            assert(it6.seq().to_set().contains(chann_cookie));
        }
    //@ghost loop-end 6
        proof {
            let h2 = it6.history().push(chann_cookie);
            assert(it6.seq().take(it6.index() + 1) == h2);
            ord6 = h2;
        }
    //@ghost before `for (callee_serial, callee_id) in conn.calls()`
        proof { assert(self.gone_rcv(idv)); }
        let ghost s7 = *self;
        let ghost n7 = state.abort_function_calls@.len();
    //@loop 7 it7
        invariant
            *self == s7,
            state.abort_function_calls@.len() == n7 + it7.index(),
            state.abort_function_calls@.take(n7 as int) == old(state).abort_function_calls@,
            forall|i: int| #![trigger it7.seq()[i]] 0 <= i < it7.index() ==> state.abort_function_calls@[n7 + i].0 == it7.seq()[i].0
                && state.abort_function_calls@[n7 + i].1 == *it7.seq()[i].1,
            it7.seq().len() == conn.calls@.len(),
            forall|cs: u32| #![trigger conn.calls@[cs]] conn.calls@.contains_key(cs) ==>
                abort_queued(state.abort_function_calls@, n7 as int, conn.calls@[cs].0, conn.calls@[cs].1)
                || call_listed_from(it7.seq(), it7.index(), conn.calls@[cs].0, conn.calls@[cs].1),
    //@ghost loop-start 7
        let ghost q_before = state.abort_function_calls@;
        proof {
            assert(it7.history() == it7.seq().take(it7.index()));
            assert((callee_serial, callee_id) == it7.seq()[it7.index()]);
        }
    //@ghost loop-end 7
        proof {
            let q = state.abort_function_calls@;
            assert(q == q_before.push((callee_serial, *callee_id)));
            assert forall|cs: u32| #![trigger conn.calls@[cs]] conn.calls@.contains_key(cs) implies
                abort_queued(q, n7 as int, conn.calls@[cs].0, conn.calls@[cs].1)
                || call_listed_from(it7.seq(), it7.index() + 1, conn.calls@[cs].0, conn.calls@[cs].1) by {
                let (s, c) = conn.calls@[cs];
                if abort_queued(q_before, n7 as int, s, c) {
                    let j = choose|j: int| n7 <= j < q_before.len() && q_before[j].0 == s && q_before[j].1 == c;
                    assert(q[j] == q_before[j]);
                } else {
                    let i = choose|i: int| it7.index() <= i < it7.seq().len() && it7.seq()[i].0 == s && *it7.seq()[i].1 == c;
                    if i == it7.index() {
                        assert(q[q_before.len() as int].0 == s && q[q_before.len() as int].1 == c);
                    } else {
                        assert(it7.index() + 1 <= i < it7.seq().len());
                    }
                }
            }
        }
    //@end

    // ---- composition across handler families (frame lemmas) -----------------------------------------------------------------
    // A handler of one family (registry / subscriptions / calls) leaves the channel and bus-listener tables and every
    // connection's lists of channel ends and listeners alone (that is what its contract's frame clauses say: `same_rest`,
    // `rest_eq(..)`); then the channel and bus-listener invariants, strong forms included, carry over.
    proof fn lemma_channel_listener_invariants_frame(&self, o: &Self)
        requires
            o.chan_inv(), o.bl_inv(), o.chan_owners_connected(), o.bl_owners_connected(),
            self.channels@ =~= o.channels@, self.bus_listeners@ =~= o.bus_listeners@, self.conns@.dom() =~= o.conns@.dom(),
            forall|c: ConnectionId| #![trigger self.conns@.contains_key(c)] o.conns@.contains_key(c) ==>
                self.conns@[c].senders == o.conns@[c].senders && self.conns@[c].receivers == o.conns@[c].receivers
                && self.conns@[c].bus_listeners == o.conns@[c].bus_listeners,
        ensures
            self.chan_inv(), self.bl_inv(), self.chan_owners_connected(), self.bl_owners_connected(),
    {
        assert(self.channels@ == o.channels@ && self.bus_listeners@ == o.bus_listeners@);
        assert(self.chan_inv()) by {
            assert forall|k: ConnectionId, c: ChannelCookie| self.conns@.contains_key(k) && #[trigger] self.conns@[k].senders@.contains(c)
                implies self.channels@.contains_key(c) && self.channels@[c].sender.claimed_by(k.id()) by {
                assert(o.conns@.contains_key(k)); assert(o.conns@[k].senders@.contains(c));
            }
            assert forall|k: ConnectionId, c: ChannelCookie| self.conns@.contains_key(k) && #[trigger] self.conns@[k].receivers@.contains(c)
                implies self.channels@.contains_key(c) && self.channels@[c].receiver.claimed_by(k.id()) by {
                assert(o.conns@.contains_key(k)); assert(o.conns@[k].receivers@.contains(c));
            }
            assert forall|k: ConnectionId, c: ChannelCookie| #![trigger self.conns@[k], self.channels@[c]] self.conns@.contains_key(k) && self.channels@.contains_key(c)
                && self.channels@[c].sender.claimed_by(k.id()) implies self.conns@[k].senders@.contains(c) by {
                assert(o.conns@.contains_key(k)); let _ = o.conns@[k]; let _ = o.channels@[c];
            }
            assert forall|k: ConnectionId, c: ChannelCookie| #![trigger self.conns@[k], self.channels@[c]] self.conns@.contains_key(k) && self.channels@.contains_key(c)
                && self.channels@[c].receiver.claimed_by(k.id()) implies self.conns@[k].receivers@.contains(c) by {
                assert(o.conns@.contains_key(k)); let _ = o.conns@[k]; let _ = o.channels@[c];
            }
        }
        assert(self.bl_inv()) by {
            assert forall|k: ConnectionId, c: BusListenerCookie| self.conns@.contains_key(k) && #[trigger] self.conns@[k].bus_listeners@.contains(c)
                implies self.bus_listeners@.contains_key(c) && self.bus_listeners@[c].conn_id.id() == k.id() by {
                assert(o.conns@.contains_key(k)); assert(o.conns@[k].bus_listeners@.contains(c));
            }
            assert forall|k: ConnectionId, c: BusListenerCookie| #![trigger self.conns@[k], self.bus_listeners@[c]] self.conns@.contains_key(k)
                && self.bus_listeners@.contains_key(c) && self.bus_listeners@[c].conn_id.id() == k.id() implies self.conns@[k].bus_listeners@.contains(c) by {
                assert(o.conns@.contains_key(k)); let _ = o.conns@[k]; let _ = o.bus_listeners@[c];
            }
        }
        assert(self.chan_owners_connected()) by {
            assert forall|c: ChannelCookie| self.channels@.contains_key(c) implies
                (self.channels@[c].sender is Claimed ==> self.connected_id(self.channels@[c].sender.owner_id()))
                && (self.channels@[c].receiver is Claimed ==> self.connected_id(self.channels@[c].receiver.owner_id())) by {
                assert(o.channels@.contains_key(c));
                if o.channels@[c].sender is Claimed {
                    let k = choose|k: ConnectionId| o.conns@.contains_key(k) && k.id() == o.channels@[c].sender.owner_id();
                    assert(self.conns@.contains_key(k));
                }
                if o.channels@[c].receiver is Claimed {
                    let k = choose|k: ConnectionId| o.conns@.contains_key(k) && k.id() == o.channels@[c].receiver.owner_id();
                    assert(self.conns@.contains_key(k));
                }
            }
        }
        assert(self.bl_owners_connected()) by {
            assert forall|c: BusListenerCookie| self.bus_listeners@.contains_key(c) implies self.conns@.contains_key(self.bus_listeners@[c].conn_id) by {
                assert(o.bus_listeners@.contains_key(c));
            }
        }
    }

    // Conversely, a channel or bus-listener handler leaves the registry, the call table and every connection's objects,
    // subscriptions and calls alone; then the registry invariant carries over.
    proof fn lemma_registry_invariant_frame(&self, o: &Self)
        requires
            o.reg_inv(),
            self.obj_uuids@ =~= o.obj_uuids@, self.objs@ =~= o.objs@, self.svc_uuids@ =~= o.svc_uuids@, self.svcs@ =~= o.svcs@,
            self.calls() =~= o.calls(), self.conns@.dom() =~= o.conns@.dom(),
            forall|c: ConnectionId| #![trigger self.conns@.contains_key(c)] o.conns@.contains_key(c) ==>
                self.conns@[c].objects == o.conns@[c].objects && self.conns@[c].events == o.conns@[c].events
                && self.conns@[c].all_events == o.conns@[c].all_events && self.conns@[c].subscriptions == o.conns@[c].subscriptions
                && self.conns@[c].calls == o.conns@[c].calls,
        ensures
            self.reg_inv(),
    {
        assert(self.obj_uuids@ == o.obj_uuids@ && self.objs@ == o.objs@ && self.svc_uuids@ == o.svc_uuids@ && self.svcs@ == o.svcs@
            && self.calls() == o.calls());
        assert forall|c: ConnectionId, x: ServiceCookie| o.conns@.contains_key(c) implies #[trigger] self.conns@[c].ev(x) == o.conns@[c].ev(x) by {}
        assert(self.inv_ownership()) by {
            assert forall|k: ConnectionId, c: ObjectCookie| self.conns@.contains_key(k) && #[trigger] self.conns@[k].objects@.contains(c)
                implies self.obj_uuids@.contains_key(c) && self.objs@[self.obj_uuids@[c]].conn_id == k by {
                assert(o.conns@.contains_key(k)); assert(o.conns@[k].objects@.contains(c));
            }
            assert forall|u: ObjectUuid| self.objs@.contains_key(u) && self.conns@.contains_key(self.objs@[u].conn_id) implies
                self.conns@[self.objs@[u].conn_id].objects@.contains(self.objs@[u].cookie) by {
                assert(o.objs@.contains_key(u)); assert(o.conns@.contains_key(o.objs@[u].conn_id));
            }
        }
        assert(self.inv_callers()) by {
            assert forall|x: u32| self.calls().contains_key(x) && !self.calls()[x].aborted && self.conns@.contains_key(self.calls()[x].caller_conn_id)
                implies self.conns@[self.calls()[x].caller_conn_id].calls@.contains_key(self.calls()[x].caller_serial)
                && self.conns@[self.calls()[x].caller_conn_id].calls@[self.calls()[x].caller_serial].0 == x by {
                assert(o.calls().contains_key(x)); assert(o.conns@.contains_key(o.calls()[x].caller_conn_id));
            }
        }
        assert(self.inv_conns()) by {
            assert forall|c: ConnectionId| self.conns@.contains_key(c) implies self.conns@[c].inv() by { assert(o.conns@.contains_key(c)); assert(o.conns@[c].inv()); }
        }
        assert(self.inv_subs() && self.subscribers_connected()) by {
            assert forall|k: (ObjectUuid, ServiceUuid), e: u32, c: ConnectionId| self.svcs@.contains_key(k) && #[trigger] self.svcs@[k].subs(e).contains(c)
                implies self.conns@.contains_key(c) && self.conns@[c].ev(self.svcs@[k].cookie).contains(e) by {
                assert(o.svcs@.contains_key(k)); assert(o.svcs@[k].subs(e).contains(c)); assert(o.conns@.contains_key(c));
            }
            assert forall|k: (ObjectUuid, ServiceUuid), c: ConnectionId| self.svcs@.contains_key(k) && #[trigger] self.svcs@[k].all_events@.contains(c)
                implies self.conns@.contains_key(c) && self.conns@[c].all_events@.contains(self.svcs@[k].cookie) by {
                assert(o.svcs@.contains_key(k)); assert(o.svcs@[k].all_events@.contains(c)); assert(o.conns@.contains_key(c));
            }
            assert forall|k: (ObjectUuid, ServiceUuid), c: ConnectionId| self.svcs@.contains_key(k) && #[trigger] self.svcs@[k].subscriptions@.contains(c)
                implies self.conns@.contains_key(c) && self.conns@[c].subscriptions@.contains(self.svcs@[k].cookie) by {
                assert(o.svcs@.contains_key(k)); assert(o.svcs@[k].subscriptions@.contains(c)); assert(o.conns@.contains_key(c));
            }
        }
        assert forall|u: ObjectUuid| self.objs@.contains_key(u) implies self.conns@.contains_key(self.objs@[u].conn_id) by { assert(o.objs@.contains_key(u)); }
    }

    // C09: "once all connections are gone the broker holds no objects, services, calls, channels, listeners or subscriptions".
    // A corollary of the strong invariants that shutdown_connection re-establishes (these are the debug_assert!s at the end
    // of Broker::run).
    proof fn lemma_nothing_left_without_connections(&self)
        requires
            self.reg_inv(), self.chan_inv(), self.bl_inv(), self.chan_owners_connected(), self.bl_owners_connected(),
            forall|k: ConnectionId| !self.conns@.contains_key(k),
        ensures
            forall|u: ObjectUuid| !self.objs@.contains_key(u),
            forall|c: ObjectCookie| !self.obj_uuids@.contains_key(c),
            forall|sc: ServiceCookie| !self.svc_uuids@.contains_key(sc),
            forall|k: (ObjectUuid, ServiceUuid)| !self.svcs@.contains_key(k),
            forall|s: u32| !self.calls().contains_key(s),
            forall|c: ChannelCookie| !self.channels@.contains_key(c),
            forall|c: BusListenerCookie| !self.bus_listeners@.contains_key(c),
    {
        assert forall|u: ObjectUuid| !self.objs@.contains_key(u) by {
            if self.objs@.contains_key(u) { assert(self.conns@.contains_key(self.objs@[u].conn_id)); }
        }
        assert forall|c: ObjectCookie| !self.obj_uuids@.contains_key(c) by {
            if self.obj_uuids@.contains_key(c) { assert(self.objs@.contains_key(self.obj_uuids@[c])); }
        }
        assert forall|sc: ServiceCookie| !self.svc_uuids@.contains_key(sc) by {
            if self.svc_uuids@.contains_key(sc) { assert(self.objs@.contains_key(self.svc_uuids@[sc].0.uuid)); }
        }
        assert forall|k: (ObjectUuid, ServiceUuid)| !self.svcs@.contains_key(k) by {
            if self.svcs@.contains_key(k) { assert(self.svc_uuids@.contains_key(self.svcs@[k].cookie)); }
        }
        assert forall|s: u32| !self.calls().contains_key(s) by {
            if self.calls().contains_key(s) {
                assert(self.svcs@.contains_key((self.calls()[s].callee_obj, self.calls()[s].callee_svc)));
            }
        }
        assert forall|c: ChannelCookie| !self.channels@.contains_key(c) by {
            if self.channels@.contains_key(c) {
                assert(self.channels@[c].live());
                if self.channels@[c].sender is Claimed {
                    assert(self.connected_id(self.channels@[c].sender.owner_id()));
                } else {
                    assert(self.connected_id(self.channels@[c].receiver.owner_id()));
                }
            }
        }
        assert forall|c: BusListenerCookie| !self.bus_listeners@.contains_key(c) by {
            if self.bus_listeners@.contains_key(c) { assert(self.conns@.contains_key(self.bus_listeners@[c].conn_id)); }
        }
    }
}

} // verus!

fn main() {}
