// CopyIter: the type that stands in for `impl Iterator<Item = T> + '_` returned by the crate's set accessors
// (`self.<set>.iter().copied()`; Verus has neither `impl Trait` returns nor iterator adapters). An accessor declared with
// option `iter` is ASSUMED to return an iterator that yields the elements of a duplicate-free sequence `elems()` in order.
// The iterator protocol below follows vstd::std_specs::iter (IteratorSpecImpl); `next` is external.
#[verifier::external_body]
#[verifier::reject_recursive_types(T)]
pub struct CopyIter<'a, T> { _p: core::marker::PhantomData<&'a T> }
impl<'a, T> CopyIter<'a, T> {
    pub uninterp spec fn elems(&self) -> Seq<T>;
}
impl<'a, T> Iterator for CopyIter<'a, T> {
    type Item = T;
    #[verifier::external_body]
    fn next(&mut self) -> (r: Option<T>) { unimplemented!() }
}
impl<'a, T> vstd::std_specs::iter::IteratorSpecImpl for CopyIter<'a, T> {
    open spec fn obeys_prophetic_iter_laws(&self) -> bool { true }
    #[verifier::prophetic]
    open spec fn remaining(&self) -> Seq<T> { self.elems() }
    #[verifier::prophetic]
    open spec fn will_return_none(&self) -> bool { true }
    open spec fn decrease(&self) -> Option<nat> { Some(self.elems().len()) }
    open spec fn peek(&self, i: int) -> Option<T> { if 0 <= i < self.elems().len() { Some(self.elems()[i]) } else { None } }
}
