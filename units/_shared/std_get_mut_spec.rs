// std HashMap::get_mut has no vstd specification; ASSUMED contract (std semantics): returns the slot of the key, the
// map is otherwise unchanged, and what is written through the reference is what the map holds afterwards.
pub assume_specification<'a, K: Eq + Hash + std::borrow::Borrow<Q>, V, S: std::hash::BuildHasher, A: std::alloc::Allocator, Q: Hash + Eq + ?Sized>[ HashMap::<K, V, S, A>::get_mut::<Q> ](m: &'a mut HashMap<K, V, S, A>, k: &Q) -> (r: Option<&'a mut V>)
    ensures
        obeys_key_model::<K>() && builds_valid_hashers::<S>() ==> {
            match r {
                Some(v) => {
                    &&& contains_borrowed_key(old(m)@, k)
                    &&& maps_borrowed_key_to_value(old(m)@, k, *v)
                    &&& final(m)@.dom() == old(m)@.dom()
                    &&& maps_borrowed_key_to_value(final(m)@, k, *final(v))
                    &&& forall|key: K| #![auto] old(m)@.contains_key(key)
                            && !contains_borrowed_key(Map::<K, ()>::empty().insert(key, ()), k)
                            ==> final(m)@[key] == old(m)@[key]
                }
                None => {
                    &&& !contains_borrowed_key(old(m)@, k)
                    &&& final(m)@ == old(m)@
                }
            }
        },
;
