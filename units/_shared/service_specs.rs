    // ---- shared spec functions of Service (included in the leaf unit and in every unit importing its contracts)
    // subscribers of one event id
    spec fn subs(&self, event: u32) -> Set<ConnectionId> {
        if self.events@.contains_key(event) { self.events@[event]@ } else { Set::empty() }
    }

    // Representation invariant: no event id is mapped to an empty subscriber set. This is what makes
    // "last subscriber gone" detectable and "first subscriber" == "key absent" correct.
    spec fn inv(&self) -> bool {
        forall|e: u32| #![auto] self.events@.contains_key(e) ==> self.events@[e]@.len() > 0
    }
