//@include _shared/handler_prelude_core.rs
//@include _shared/copy_iter.rs

// ServiceInfo: opaque Copy value (core/src/service_info.rs); the registry only stores it and hands it out
#[verifier::external_body]
#[derive(Clone, Copy)]
pub struct ServiceInfo { _p: () }
impl ServiceInfo {
    #[verifier::external_body]
    pub fn new(version: u32) -> (r: Self) { unimplemented!() }
    // whether the service supports all-events subscriptions (an Option<bool> field of the opaque ServiceInfo); the setter and
    // getter of the core crate are one-liners on that field. ASSUMED.
    pub uninterp spec fn spec_subscribe_all(self) -> Option<bool>;
    #[verifier::external_body]
    pub fn set_subscribe_all(self, subscribe_all: bool) -> (r: Self)
        ensures r.spec_subscribe_all() == Some(subscribe_all)
    { unimplemented!() }
    #[verifier::external_body]
    pub fn subscribe_all(self) -> (r: Option<bool>)
        ensures r == self.spec_subscribe_all()
    { unimplemented!() }
}
opaque!(DeserializeError);
impl SerializedValue {
    // decoding of the payload is the codec's business (C01/C07); here only success/failure matters
    #[verifier::external_body]
    pub fn deserialize<T>(&self) -> (r: Result<T, DeserializeError>) { unimplemented!() }
}

// Cookies are random version-4 UUIDs (core/src/ids/*_cookie.rs: Uuid::new_v4). No specification: that a new cookie differs
// from every live one is an ASSUMPTION stated at the creation sites below (see `assume(...)` in create_object/create_service).
impl ObjectCookie {
    #[verifier::external_body]
    pub fn new_v4() -> (r: Self) { unimplemented!() }
}
impl ServiceCookie {
    #[verifier::external_body]
    pub fn new_v4() -> (r: Self) { unimplemented!() }
}

// ---- ids and messages (real items) ------------------------------------------------------------------------
//@item core/src/ids/object_id.rs struct ObjectId attr=derive(Clone,Copy)
//@item core/src/ids/service_id.rs struct ServiceId attr=derive(Clone,Copy)
impl ObjectId {
    //@fn core/src/ids/object_id.rs ObjectId::new
        ensures r.uuid == uuid, r.cookie == cookie,
    //@end
}
impl ServiceId {
    //@fn core/src/ids/service_id.rs ServiceId::new
        ensures r.object_id == object_id, r.uuid == uuid, r.cookie == cookie,
    //@end
}

//@item core/src/message/call_function_reply.rs enum CallFunctionResult
