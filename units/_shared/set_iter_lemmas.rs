// what vstd's specification of `HashSet::iter` gives is: the sequence the iterator will yield has no duplicates, is as long as the
// set is large and contains (a reference to) every element of the set. The converse -- it yields nothing that is not in the set --
// follows by counting; proved here (uses vstd::set_lib).
pub proof fn lemma_iter_covers<T>(q: Seq<&T>, s: Set<T>)
    requires q.no_duplicates(), q.len() == s.len(),
        forall|x: T| s.contains(x) ==> #[trigger] q.contains(&x),
    ensures forall|i: int| 0 <= i < q.len() ==> s.contains(*#[trigger] q[i]),
{
    let t = q.to_set();
    q.unique_seq_to_set();
    let f = |x: T| -> &T { &x };
    let s2 = s.map(f);
    assert(vstd::relations::injective(f)) by {
        assert forall|a: T, b: T| #[trigger] f(a) == #[trigger] f(b) implies a == b by {
            assert(*f(a) == a); assert(*f(b) == b);
        }
    }
    lemma_map_size(s, s2, f);
    assert(s2.subset_of(t)) by {
        assert forall|y: &T| s2.contains(y) implies t.contains(y) by {
            let x = choose|x: T| s.contains(x) && f(x) == y;
            assert(q.contains(&x));
        }
    }
    lemma_subset_equality(s2, t);
    assert forall|i: int| 0 <= i < q.len() implies s.contains(*#[trigger] q[i]) by {
        assert(t.contains(q[i]));
        assert(s2.contains(q[i]));
        let x = choose|x: T| s.contains(x) && f(x) == q[i];
        assert(*q[i] == x);
    }
}
