// `for x in SET_REF` with `SET_REF: &HashSet<T>` calls `<&HashSet<T> as IntoIterator>::into_iter`, which std defines as
// `self.iter()`; vstd specifies `HashSet::iter` but not this impl. ASSUMED: the same facts vstd states for `iter()` (the iterator
// follows the iterator laws, terminates, and will yield a duplicate-free sequence as long as the set is large that contains every
// element of the set).
pub assume_specification<'a, T, S, A: std::alloc::Allocator>[ <&'a HashSet<T, S, A> as IntoIterator>::into_iter ](s: &'a HashSet<T, S, A>) -> (r: std::collections::hash_set::Iter<'a, T>)
    ensures
        obeys_key_model::<T>() && builds_valid_hashers::<S>() ==> {
            &&& r.obeys_prophetic_iter_laws()
            &&& r.will_return_none()
            &&& r.decrease() is Some
            &&& r.remaining().no_duplicates()
            &&& r.remaining().len() == s@.len()
            &&& forall|x: T| s@.contains(x) ==> #[trigger] r.remaining().contains(&x)
        };
