// one step of a loop over a duplicate-free sequence `q` that enumerates the set-like predicate `p`: bookkeeping facts about
// the visited prefix
pub open spec fn in_rest<T>(q: Seq<T>, from: int, x: T) -> bool {
    exists|i: int| from <= i < q.len() && q[i] == x
}

pub proof fn lemma_iter_step<T>(q: Seq<T>, idx: int)
    requires q.no_duplicates(), 0 <= idx < q.len(),
    ensures
        q.take(idx + 1) == q.take(idx).push(q[idx]),
        q.take(idx + 1).no_duplicates(),
        !q.take(idx).contains(q[idx]),
        forall|x: T| q.take(idx + 1).contains(x) <==> (q.take(idx).contains(x) || x == q[idx]),
        forall|x: T| #![trigger in_rest(q, idx, x)] #![trigger in_rest(q, idx + 1, x)] in_rest(q, idx, x) <==> (x == q[idx] || in_rest(q, idx + 1, x)),
        forall|x: T| #![trigger in_rest(q, idx, x)] in_rest(q, idx, x) ==> q.contains(x),
{
    let h = q.take(idx);
    let h2 = q.take(idx + 1);
    assert(h2 == h.push(q[idx]));
    assert(h2.no_duplicates()) by {
        assert forall|a: int, b: int| 0 <= a < h2.len() && 0 <= b < h2.len() && a != b implies h2[a] != h2[b] by {
            assert(h2[a] == q[a] && h2[b] == q[b]);
        }
    }
    if h.contains(q[idx]) {
        let j = choose|j: int| 0 <= j < h.len() && h[j] == q[idx];
        assert(q[j] == q[idx]);
    }
    assert forall|x: T| h2.contains(x) <==> (h.contains(x) || x == q[idx]) by {
        if h2.contains(x) {
            let j = choose|j: int| 0 <= j < h2.len() && h2[j] == x;
            if j < h.len() { assert(h[j] == x); }
        }
        if h.contains(x) {
            let j = choose|j: int| 0 <= j < h.len() && h[j] == x;
            assert(h2[j] == x);
        }
        if x == q[idx] { assert(h2[idx] == x); }
    }
    assert forall|x: T| in_rest(q, idx, x) implies q.contains(x) by {
        let i = choose|i: int| idx <= i < q.len() && q[i] == x;
        assert(q[i] == x);
    }
    assert forall|x: T| #![trigger in_rest(q, idx, x)] #![trigger in_rest(q, idx + 1, x)] in_rest(q, idx, x) <==> (x == q[idx] || in_rest(q, idx + 1, x)) by {
        if exists|i: int| idx <= i < q.len() && q[i] == x {
            let i = choose|i: int| idx <= i < q.len() && q[i] == x;
            if i != idx { assert(idx + 1 <= i < q.len() && q[i] == x); }
        }
        if x == q[idx] { assert(idx <= idx < q.len() && q[idx] == x); }
        if exists|i: int| idx + 1 <= i < q.len() && q[i] == x {
            let i = choose|i: int| idx + 1 <= i < q.len() && q[i] == x;
            assert(idx <= i < q.len() && q[i] == x);
        }
    }
}

// the same bookkeeping step for a sequence that may repeat elements (e.g. the values of a map)
pub proof fn lemma_in_rest_step<T>(q: Seq<T>, idx: int)
    requires 0 <= idx < q.len(),
    ensures
        forall|x: T| #![trigger in_rest(q, idx, x)] #![trigger in_rest(q, idx + 1, x)] in_rest(q, idx, x) <==> (x == q[idx] || in_rest(q, idx + 1, x)),
{
    assert forall|x: T| #![trigger in_rest(q, idx, x)] #![trigger in_rest(q, idx + 1, x)] in_rest(q, idx, x) <==> (x == q[idx] || in_rest(q, idx + 1, x)) by {
        if exists|i: int| idx <= i < q.len() && q[i] == x {
            let i = choose|i: int| idx <= i < q.len() && q[i] == x;
            if i != idx { assert(idx + 1 <= i < q.len() && q[i] == x); }
        }
        if x == q[idx] { assert(idx <= idx < q.len() && q[idx] == x); }
        if exists|i: int| idx + 1 <= i < q.len() && q[i] == x {
            let i = choose|i: int| idx + 1 <= i < q.len() && q[i] == x;
            assert(idx <= i < q.len() && q[i] == x);
        }
    }
}
