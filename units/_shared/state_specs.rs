    // ---- shared spec functions of State: all fields except the numbered ones are equal
    //   0 shutdown_now 1 shutdown_idle 2 remove_conns 3 remove_function_calls 4 services_destroyed 5 unsubscribe_event
    //   6 unsubscribe_all_events 7 create_object 8 destroy_object 9 create_service 10 destroy_service 11 abort_function_calls
    spec fn rest_eq3(&self, o: &Self, a: int, b: int, c: int) -> bool {
        &&& (a == 0 || b == 0 || c == 0 || self.shutdown_now == o.shutdown_now)
        &&& (a == 1 || b == 1 || c == 1 || self.shutdown_idle == o.shutdown_idle)
        &&& (a == 2 || b == 2 || c == 2 || self.remove_conns == o.remove_conns)
        &&& (a == 3 || b == 3 || c == 3 || self.remove_function_calls == o.remove_function_calls)
        &&& (a == 4 || b == 4 || c == 4 || self.services_destroyed == o.services_destroyed)
        &&& (a == 5 || b == 5 || c == 5 || self.unsubscribe_event == o.unsubscribe_event)
        &&& (a == 6 || b == 6 || c == 6 || self.unsubscribe_all_events == o.unsubscribe_all_events)
        &&& (a == 7 || b == 7 || c == 7 || self.create_object == o.create_object)
        &&& (a == 8 || b == 8 || c == 8 || self.destroy_object == o.destroy_object)
        &&& (a == 9 || b == 9 || c == 9 || self.create_service == o.create_service)
        &&& (a == 10 || b == 10 || c == 10 || self.destroy_service == o.destroy_service)
        &&& (a == 11 || b == 11 || c == 11 || self.abort_function_calls == o.abort_function_calls)
    }
    spec fn rest_eq(&self, o: &Self, skip: int) -> bool { self.rest_eq3(o, skip, -1, -1) }
    spec fn only_remove_conns_changed(&self, o: &Self) -> bool { self.rest_eq(o, 2) }
    // registry teardown touches four queues: destroy_object (8), destroy_service (10), remove_function_calls (3), services_destroyed (4)
    spec fn rest_eq_teardown(&self, o: &Self) -> bool {
        &&& self.shutdown_now == o.shutdown_now &&& self.shutdown_idle == o.shutdown_idle &&& self.remove_conns == o.remove_conns
        &&& self.unsubscribe_event == o.unsubscribe_event &&& self.unsubscribe_all_events == o.unsubscribe_all_events
        &&& self.create_object == o.create_object &&& self.create_service == o.create_service
        &&& self.abort_function_calls == o.abort_function_calls
    }
