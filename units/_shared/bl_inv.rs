    // a connection lists a listener cookie exactly when the listener table holds that cookie for that connection
    spec fn bl_inv(&self) -> bool {
        &&& forall|k: ConnectionId, c: BusListenerCookie| #![trigger self.conns@[k].bus_listeners@.contains(c)]
                self.conns@.contains_key(k) && self.conns@[k].bus_listeners@.contains(c)
                    ==> self.bus_listeners@.contains_key(c) && self.bus_listeners@[c].conn_id.id() == k.id()
        &&& forall|k: ConnectionId, c: BusListenerCookie| #![trigger self.conns@[k], self.bus_listeners@[c]]
                self.conns@.contains_key(k) && self.bus_listeners@.contains_key(c)
                    && self.bus_listeners@[c].conn_id.id() == k.id() ==> self.conns@[k].bus_listeners@.contains(c)
        // every listener's cached flags say what they are meant to say about its filter set (BusListener::flags_ok, defined and
        // established in the leaf unit; the precondition of BusListener::add_filter)
        &&& forall|c: BusListenerCookie| #![trigger self.bus_listeners@[c]] self.bus_listeners@.contains_key(c) ==>
                self.bus_listeners@[c].flags_ok()
    }

    spec fn bl_same_rest(&self, o: &Self) -> bool {
        &&& self.recv == o.recv &&& self.handle == o.handle &&& self.obj_uuids == o.obj_uuids
        &&& self.objs == o.objs &&& self.svc_uuids == o.svc_uuids &&& self.svcs == o.svcs
        &&& self.function_calls == o.function_calls &&& self.channels == o.channels
    }

    // (strong form, between two requests) every bus listener belongs to a connected client
    spec fn bl_owners_connected(&self) -> bool {
        forall|c: BusListenerCookie| #![trigger self.bus_listeners@[c]] self.bus_listeners@.contains_key(c) ==>
            self.conns@.contains_key(self.bus_listeners@[c].conn_id)
    }

