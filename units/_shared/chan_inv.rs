    // Cross-structure invariant of the channel part of the broker state:
    //  (1) every channel in the table satisfies its representation invariant and has at least one claimed end;
    //  (2) a connection lists a cookie among its senders/receivers exactly when it owns that end of that channel.
    spec fn chan_inv(&self) -> bool {
        &&& forall|c: ChannelCookie| #![trigger self.channels@[c]]
                self.channels@.contains_key(c) ==> self.channels@[c].inv() && self.channels@[c].live()
        &&& forall|k: ConnectionId, c: ChannelCookie| #![trigger self.conns@[k].senders@.contains(c)]
                self.conns@.contains_key(k) && self.conns@[k].senders@.contains(c)
                    ==> self.channels@.contains_key(c) && self.channels@[c].sender.claimed_by(k.id())
        &&& forall|k: ConnectionId, c: ChannelCookie| #![trigger self.conns@[k].receivers@.contains(c)]
                self.conns@.contains_key(k) && self.conns@[k].receivers@.contains(c)
                    ==> self.channels@.contains_key(c) && self.channels@[c].receiver.claimed_by(k.id())
        &&& forall|k: ConnectionId, c: ChannelCookie| #![trigger self.conns@[k], self.channels@[c]]
                self.conns@.contains_key(k) && self.channels@.contains_key(c)
                    && self.channels@[c].sender.claimed_by(k.id()) ==> self.conns@[k].senders@.contains(c)
        &&& forall|k: ConnectionId, c: ChannelCookie| #![trigger self.conns@[k], self.channels@[c]]
                self.conns@.contains_key(k) && self.channels@.contains_key(c)
                    && self.channels@[c].receiver.claimed_by(k.id()) ==> self.conns@[k].receivers@.contains(c)
    }

    // everything that is not channel state
    spec fn chan_same_rest(&self, o: &Self) -> bool {
        &&& self.recv == o.recv &&& self.handle == o.handle &&& self.obj_uuids == o.obj_uuids
        &&& self.objs == o.objs &&& self.svc_uuids == o.svc_uuids &&& self.svcs == o.svcs
        &&& self.function_calls == o.function_calls &&& self.bus_listeners == o.bus_listeners
    }

    // some connected client has the numeric id `i`
    spec fn connected_id(&self, i: int) -> bool {
        exists|k: ConnectionId| #![trigger k.id()] self.conns@.contains_key(k) && k.id() == i
    }

    // (strong form of the channel / listener invariants, between two requests) claimed channel ends and bus listeners belong
    // to connected clients
    spec fn chan_owners_connected(&self) -> bool {
        forall|c: ChannelCookie| #![trigger self.channels@[c]] self.channels@.contains_key(c) ==> {
            &&& (self.channels@[c].sender is Claimed ==> self.connected_id(self.channels@[c].sender.owner_id()))
            &&& (self.channels@[c].receiver is Claimed ==> self.connected_id(self.channels@[c].receiver.owner_id()))
        }
    }
