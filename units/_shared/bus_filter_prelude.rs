// ---- prelude (trusted base) -------------------------------------------------------------------
#[verifier::external_body]
pub struct ConnectionId { _p: () }

// UUID newtypes: opaque Copy keys with structural equality
macro_rules! opaque_copy_key {
    ($t:ident) => {
        verus! {
        #[verifier::external_body]
        #[derive(Clone, Copy)]
        pub struct $t { _p: () }
        impl PartialEqSpecImpl for $t {
            open spec fn obeys_eq_spec() -> bool { true }
            open spec fn eq_spec(&self, other: &Self) -> bool { *self == *other }
        }
        impl PartialEq for $t {
            #[verifier::external_body]
            fn eq(&self, other: &Self) -> (r: bool) { unimplemented!() }
        }
        impl Eq for $t {}
        impl Hash for $t {
            #[verifier::external_body]
            fn hash<H: Hasher>(&self, state: &mut H) { unimplemented!() }
        }
        }
    };
}
opaque_copy_key!(ObjectUuid);
opaque_copy_key!(ServiceUuid);
opaque_copy_key!(ObjectCookie);
opaque_copy_key!(ServiceCookie);

// the real id structs and bus events (core/src/ids/*.rs, core/src/bus_listener.rs)
//@item core/src/ids/object_id.rs struct ObjectId attr=derive(Clone,Copy)
//@item core/src/ids/service_id.rs struct ServiceId attr=derive(Clone,Copy)
//@item core/src/bus_listener.rs enum BusEvent attr=derive(Clone,Copy)

// the real filter types (core/src/bus_listener.rs). #[derive(PartialEq, Eq, Hash)] = structural equality with a consistent
// hash: ASSUMED (eq_spec below, key-model axiom)
//@item core/src/bus_listener.rs enum BusListenerFilter attr=derive(Clone,Copy)
//@item core/src/bus_listener.rs struct BusListenerServiceFilter attr=derive(Clone,Copy)
impl PartialEqSpecImpl for BusListenerFilter {
    open spec fn obeys_eq_spec() -> bool { true }
    open spec fn eq_spec(&self, other: &Self) -> bool { *self == *other }
}
impl PartialEq for BusListenerFilter {
    #[verifier::external_body]
    fn eq(&self, other: &Self) -> (r: bool) { unimplemented!() }
}
impl Eq for BusListenerFilter {}
impl Hash for BusListenerFilter {
    #[verifier::external_body]
    fn hash<H: Hasher>(&self, state: &mut H) { unimplemented!() }
}

pub mod trusted {
    use super::*;
    pub broadcast axiom fn axiom_filter_key_model()
        ensures #[trigger] obeys_key_model::<BusListenerFilter>();
}

// (the including unit states its one module-level `broadcast use`, which must contain trusted::axiom_filter_key_model and
// vstd::std_specs::hash::group_hash_axioms)

//@include _shared/std_option_specs.rs

//@include _shared/iter_step.rs
//@include _shared/set_iter_lemmas.rs

// ---- extracted ---------------------------------------------------------------------------------
//@item core/src/bus_listener.rs enum BusListenerScope attr=derive(Clone,Copy)
// #[derive(PartialEq)] on BusListenerScope is structural equality. ASSUMED.
impl PartialEqSpecImpl for BusListenerScope {
    open spec fn obeys_eq_spec() -> bool { true }
    open spec fn eq_spec(&self, other: &Self) -> bool { *self == *other }
}
impl PartialEq for BusListenerScope {
    #[verifier::external_body]
    fn eq(&self, other: &Self) -> (r: bool) { unimplemented!() }
}

// ---- the filter predicate, written from the property statement (the same specification the Kani harnesses
// C10.filter_matches_* check against the compiled code for all inputs) -------------------------------------------
pub open spec fn spec_service_filter_matches(f: BusListenerServiceFilter, id: ServiceId) -> bool {
    &&& (f.object matches Some(o) ==> id.object_id.uuid == o)
    &&& (f.service matches Some(s) ==> id.uuid == s)
}
pub open spec fn spec_matches_object(f: BusListenerFilter, object: ObjectId) -> bool {
    f matches BusListenerFilter::Object(o) && (o matches Some(u) ==> object.uuid == u)
}
pub open spec fn spec_matches_service(f: BusListenerFilter, service: ServiceId) -> bool {
    f matches BusListenerFilter::Service(sf) && spec_service_filter_matches(sf, service)
}
pub open spec fn spec_matches_event(f: BusListenerFilter, event: BusEvent) -> bool {
    match event {
        BusEvent::ObjectCreated(o) => spec_matches_object(f, o),
        BusEvent::ObjectDestroyed(o) => spec_matches_object(f, o),
        BusEvent::ServiceCreated(s) => spec_matches_service(f, s),
        BusEvent::ServiceDestroyed(s) => spec_matches_service(f, s),
    }
}

impl BusListenerScope {
    //@fn core/src/bus_listener.rs BusListenerScope::includes_current
        ensures r == (self == BusListenerScope::Current || self == BusListenerScope::All),
    //@end
    //@fn core/src/bus_listener.rs BusListenerScope::includes_new
        ensures r == (self == BusListenerScope::New || self == BusListenerScope::All),
    //@end
}

impl BusListenerServiceFilter {
    //@fn core/src/bus_listener.rs BusListenerServiceFilter::matches
        ensures r == spec_service_filter_matches(self, id),
    //@end
}

impl BusListenerFilter {
    //@fn core/src/bus_listener.rs BusListenerFilter::matches_object
        ensures r == spec_matches_object(self, object),
    //@end
    //@fn core/src/bus_listener.rs BusListenerFilter::matches_service
        ensures r == spec_matches_service(self, service),
    //@end
    //@fn core/src/bus_listener.rs BusListenerFilter::matches_event
        ensures r == spec_matches_event(self, event),
    //@end
}

