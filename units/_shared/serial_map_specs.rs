    // serials between `from` (inclusive) and `to` (exclusive) in the cyclic order of u32
    spec fn between(from: u32, to: u32, s: u32) -> bool {
        if from <= to { from <= s < to } else { s >= from || s < to }
    }

