    // ---- shared spec functions of ConnectionState (included in the leaf unit and in every unit importing its contracts)
    spec fn ev(&self, c: ServiceCookie) -> Set<u32> {
        if self.events@.contains_key(c) { self.events@[c]@ } else { Set::empty() }
    }

    // no service cookie is mapped to an empty event set (so event_subscriptions() enumerates exactly the live ones)
    spec fn inv(&self) -> bool {
        forall|c: ServiceCookie| #![auto] self.events@.contains_key(c) ==> self.events@[c]@.len() > 0
    }

    // everything except the named field is unchanged
    spec fn same_but_events(&self, o: &Self) -> bool {
        &&& self.version == o.version &&& self.send == o.send &&& self.objects == o.objects
        &&& self.all_events == o.all_events &&& self.subscriptions == o.subscriptions
        &&& self.senders == o.senders &&& self.receivers == o.receivers
        &&& self.bus_listeners == o.bus_listeners &&& self.calls == o.calls
    }

    spec fn same_but_objects(&self, o: &Self) -> bool {
        &&& self.version == o.version &&& self.send == o.send
        &&& self.all_events == o.all_events &&& self.subscriptions == o.subscriptions
        &&& self.senders == o.senders &&& self.receivers == o.receivers
        &&& self.bus_listeners == o.bus_listeners &&& self.calls == o.calls
    }

    // whole-state frame: every field except number `skip` (and `skip2`) is unchanged
    //   0 version  1 send  2 objects  3 events  4 all_events  5 subscriptions  6 senders  7 receivers  8 bus_listeners  9 calls
    spec fn rest_eq3(&self, o: &Self, skip: int, skip2: int, skip3: int) -> bool {
        &&& (skip == 0 || skip2 == 0 || skip3 == 0 || self.version == o.version)
        &&& (skip == 1 || skip2 == 1 || skip3 == 1 || self.send == o.send)
        &&& (skip == 2 || skip2 == 2 || skip3 == 2 || self.objects == o.objects)
        &&& (skip == 3 || skip2 == 3 || skip3 == 3 || self.events == o.events)
        &&& (skip == 4 || skip2 == 4 || skip3 == 4 || self.all_events == o.all_events)
        &&& (skip == 5 || skip2 == 5 || skip3 == 5 || self.subscriptions == o.subscriptions)
        &&& (skip == 6 || skip2 == 6 || skip3 == 6 || self.senders == o.senders)
        &&& (skip == 7 || skip2 == 7 || skip3 == 7 || self.receivers == o.receivers)
        &&& (skip == 8 || skip2 == 8 || skip3 == 8 || self.bus_listeners == o.bus_listeners)
        &&& (skip == 9 || skip2 == 9 || skip3 == 9 || self.calls == o.calls)
    }
    spec fn rest_eq2(&self, o: &Self, skip: int, skip2: int) -> bool { self.rest_eq3(o, skip, skip2, -1) }
    spec fn rest_eq(&self, o: &Self, skip: int) -> bool { self.rest_eq3(o, skip, -1, -1) }
