// ---- statistics (the units are verified with feature "statistics" ON: //@keep-cfg statistics) -----------------------------
opaque!(Instant);
//@item broker/src/broker/statistics.rs struct BrokerStatistics
