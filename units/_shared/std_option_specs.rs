// std Option methods without a vstd specification; ASSUMED contracts (std semantics).
pub assume_specification<T>[ Option::<T>::replace ](o: &mut Option<T>, value: T) -> (r: Option<T>)
    ensures *final(o) == Some(value), r == *old(o);
