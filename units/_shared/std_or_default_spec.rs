// std hash_map::Entry::or_default has no vstd specification; ASSUMED contract (std semantics), phrased with vstd's
// prophecy model of entries: an occupied entry yields its value, a vacant one a freshly inserted `Default::default()`;
// what is written through the returned reference is what the map holds afterwards. `is_default` is an uninterpreted
// predicate ("this value is what Default::default() returns"); per-type axioms about it live in `trusted_default`.
pub assume_specification<'a, K, V: Default>[ Entry::<'a, K, V>::or_default ](e: Entry<'a, K, V>) -> (r: &'a mut V)
    ensures
        match e {
            Entry::Occupied(o) => *r == o.value() && o.final_value() == Some(*final(r)),
            Entry::Vacant(v) => trusted_default::is_default(*r) && v.final_value() == Some(*final(r)),
        },
;

pub mod trusted_default {
    use super::*;
    pub uninterp spec fn is_default<V>(v: V) -> bool;
    // std: HashSet::default() is the empty set. ASSUMED.
    pub broadcast axiom fn axiom_default_hashset_u32(s: HashSet<u32>)
        ensures #[trigger] is_default(s) ==> s@ == Set::<u32>::empty();
}
