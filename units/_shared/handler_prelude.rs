// shared trusted prelude of the handler-layer units (opaque foreign types, key-model axioms, std specs)
// ---- prelude (trusted base) -------------------------------------------------------------------
pub mod connid {
    use super::*;
    #[verifier::external_body]
    pub struct ConnectionId { _p: () }

    impl ConnectionId {
        pub uninterp spec fn id(&self) -> int;
    }

    impl PartialEqSpecImpl for ConnectionId {
        open spec fn obeys_eq_spec() -> bool { true }
        open spec fn eq_spec(&self, other: &Self) -> bool { self.id() == other.id() }
    }
    impl PartialEq for ConnectionId {
        #[verifier::external_body]
        fn eq(&self, other: &Self) -> (r: bool) { unimplemented!() }
    }
    impl Eq for ConnectionId {}
    impl Hash for ConnectionId {
        #[verifier::external_body]
        fn hash<H: Hasher>(&self, state: &mut H) { unimplemented!() }
    }
    impl Clone for ConnectionId {
        #[verifier::external_body]
        fn clone(&self) -> (r: Self)
            ensures r.id() == self.id()
        { unimplemented!() }
    }
}
pub use connid::ConnectionId;

macro_rules! opaque_copy_key {
    ($t:ident) => {
        verus! {
        #[verifier::external_body]
        #[derive(Clone, Copy)]
        pub struct $t { _p: () }
        impl PartialEq for $t {
            #[verifier::external_body]
            fn eq(&self, other: &Self) -> (r: bool) { unimplemented!() }
        }
        impl Eq for $t {}
        impl Hash for $t {
            #[verifier::external_body]
            fn hash<H: Hasher>(&self, state: &mut H) { unimplemented!() }
        }
        }
    };
}
opaque_copy_key!(ChannelCookie);
opaque_copy_key!(ObjectCookie);
opaque_copy_key!(ServiceCookie);
opaque_copy_key!(BusListenerCookie);
opaque_copy_key!(ObjectUuid);
opaque_copy_key!(ServiceUuid);
// BusListenerFilter is opaque in the handler units: handlers only pass filters on.
opaque_copy_key!(BusListenerFilter);

macro_rules! opaque {
    ($t:ident) => {
        verus! {
        #[verifier::external_body]
        pub struct $t { _p: () }
        }
    };
}
opaque!(SerializedValue);
opaque!(VersionedMessage);
opaque!(ConnectionEvent);
opaque!(BrokerHandle);
opaque!(ServiceInfo);
opaque!(ObjectId);
opaque!(State);

// ProtocolVersion: (major, minor); the ordering used by the version gates is left OPAQUE here (gates are C12's
// subject), so every handler contract in these units holds for either outcome of a version comparison.
#[derive(Clone, Copy)]
pub struct ProtocolVersion { pub major: u32, pub minor: u32 }
impl ProtocolVersion {
    pub const V1_16: Self = Self { major: 1, minor: 16 };
    pub const V1_19: Self = Self { major: 1, minor: 19 };
}
impl PartialEq for ProtocolVersion {
    #[verifier::external_body]
    fn eq(&self, other: &Self) -> (r: bool) { unimplemented!() }
}
impl PartialOrd for ProtocolVersion {
    #[verifier::external_body]
    fn partial_cmp(&self, other: &Self) -> (r: Option<core::cmp::Ordering>) { unimplemented!() }
}
#[verifier::external_body]
#[verifier::reject_recursive_types(T)]
pub struct UnboundedSender<T> { _p: core::marker::PhantomData<T> }
#[verifier::external_body]
#[verifier::reject_recursive_types(T)]
pub struct Receiver<T> { _p: core::marker::PhantomData<T> }

impl State {
    #[verifier::external_body]
    pub fn push_remove_conn(&mut self, id: ConnectionId, now: bool) { unimplemented!() }
    #[verifier::external_body]
    pub fn push_abort_function_call(&mut self, callee_serial: u32, callee_id: ConnectionId) { unimplemented!() }
}

pub mod trusted {
    use super::*;
    pub broadcast axiom fn axiom_conn_id_key_model() ensures #[trigger] obeys_key_model::<ConnectionId>();
    pub broadcast axiom fn axiom_channel_cookie_key_model() ensures #[trigger] obeys_key_model::<ChannelCookie>();
    pub broadcast axiom fn axiom_object_uuid_key_model() ensures #[trigger] obeys_key_model::<ObjectUuid>();
    pub broadcast axiom fn axiom_svc_key_model() ensures #[trigger] obeys_key_model::<(ObjectUuid, ServiceUuid)>();
    pub broadcast axiom fn axiom_bl_cookie_key_model() ensures #[trigger] obeys_key_model::<BusListenerCookie>();
    pub broadcast axiom fn axiom_filter_key_model() ensures #[trigger] obeys_key_model::<BusListenerFilter>();
    // ConnectionId: two handles denote the same connection iff their numeric ids are equal (conn_id.rs: Eq, Hash and
    // the id all derive from the same counter value). ASSUMED.
    pub broadcast axiom fn axiom_conn_id_injective(a: ConnectionId, b: ConnectionId)
        ensures #[trigger] a.id() == #[trigger] b.id() <==> a == b;
}
broadcast use {
    trusted::axiom_conn_id_key_model, trusted::axiom_channel_cookie_key_model, trusted::axiom_conn_id_injective,
    trusted::axiom_bl_cookie_key_model, trusted::axiom_filter_key_model, trusted::axiom_object_uuid_key_model,
    trusted::axiom_svc_key_model,
    vstd::std_specs::hash::group_hash_axioms,
};

pub assume_specification<T>[ std::mem::replace::<T> ](dest: &mut T, src: T) -> (r: T)
    ensures *final(dest) == src, r == *old(dest);

//@include _shared/std_get_mut_spec.rs

