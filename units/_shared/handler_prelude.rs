// shared trusted prelude of the handler-layer units: core part + opaque State / ObjectId / ServiceInfo
//@include _shared/handler_prelude_core.rs
opaque!(ServiceInfo);
opaque_copy_key!(ObjectId);
opaque!(State);

impl State {
    // (State is opaque in the units that use this prelude: the frame on the loop state is vacuous here)
    pub open spec fn only_remove_conns_changed(&self, o: &Self) -> bool { true }
    #[verifier::external_body]
    pub fn push_remove_conn(&mut self, id: ConnectionId, now: bool) { unimplemented!() }
    #[verifier::external_body]
    pub fn push_abort_function_call(&mut self, callee_serial: u32, callee_id: ConnectionId) { unimplemented!() }
}
