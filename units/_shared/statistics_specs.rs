    // ---- statistics counters (C09: "the published counters always equal the true number of live connections, objects,
    //      services, channels and bus listeners"). The counters use saturating arithmetic; they are exact as long as the tables
    //      hold fewer than usize::MAX entries, which is the side condition of the increments below.
    spec fn stat_same(&self, o: &Self) -> bool {
        &&& self.statistics.num_connections == o.statistics.num_connections
        &&& self.statistics.num_objects == o.statistics.num_objects
        &&& self.statistics.num_services == o.statistics.num_services
        &&& self.statistics.num_channels == o.statistics.num_channels
        &&& self.statistics.num_bus_listeners == o.statistics.num_bus_listeners
    }
    spec fn stat_conns_ok(&self) -> bool { self.statistics.num_connections == self.conns@.len() }
    spec fn stat_objects_ok(&self) -> bool { self.statistics.num_objects == self.objs@.len() }
    spec fn stat_services_ok(&self) -> bool { self.statistics.num_services == self.svcs@.len() }
    spec fn stat_channels_ok(&self) -> bool { self.statistics.num_channels == self.channels@.len() }
    spec fn stat_listeners_ok(&self) -> bool { self.statistics.num_bus_listeners == self.bus_listeners@.len() }
    spec fn stat_ok(&self) -> bool {
        &&& self.stat_conns_ok() &&& self.stat_objects_ok() &&& self.stat_services_ok() &&& self.stat_channels_ok()
        &&& self.stat_listeners_ok()
    }
