// ---- field-sequence model of the message primitives (trusted base of unit core_messages) ------------------------
#[verifier::external_body]
pub struct BytesMut { _p: () }
#[verifier::external_body]
pub struct SerializedValue { _p: () }
#[verifier::external_body]
pub struct SerializedValueSlice { _p: () }

// uuid: opaque 128-bit id
#[verifier::external_body]
pub struct Uuid { _p: () }
impl Clone for Uuid {
    #[verifier::external_body]
    fn clone(&self) -> (r: Self) ensures r == *self { unimplemented!() }
}
impl Copy for Uuid {}

pub enum Field { U32(u32), Disc(u8), Id(Uuid) }

//@item core/src/message/kind.rs enum MessageKind attr=derive(Clone,Copy)
//@item core/src/message/error.rs enum MessageSerializeError
//@item core/src/message/error.rs enum MessageDeserializeError

// a frame: well-formedness of the header (length prefix equals the buffer length, at least 5 bytes), its kind byte, the
// fields behind the header (and behind the value, if any), and the value
pub uninterp spec fn frame_wf(b: BytesMut) -> bool;
pub uninterp spec fn frame_kind(b: BytesMut) -> MessageKind;
pub uninterp spec fn frame_fields(b: BytesMut) -> Seq<Field>;
pub uninterp spec fn frame_has_value(b: BytesMut) -> bool;
pub uninterp spec fn frame_value(b: BytesMut) -> SerializedValue;

// one-byte discriminants: num_enum's IntoPrimitive / TryFromPrimitive derives are inverse to each other. ASSUMED.
pub mod disc {
    use super::*;
    pub trait Disc: Sized {
        spec fn to_u8(self) -> u8;
        spec fn from_u8(b: u8) -> Option<Self>;
    }
}
pub use disc::Disc;
pub mod trusted {
    use super::*;
    pub broadcast axiom fn axiom_disc_roundtrip<T: Disc>(t: T)
        ensures #[trigger] T::from_u8(t.to_u8()) == Some(t);
    pub broadcast axiom fn axiom_disc_strict<T: Disc>(b: u8)
        ensures (#[trigger] T::from_u8(b)) is Some ==> T::from_u8(b)->Some_0.to_u8() == b;
}
broadcast use {trusted::axiom_disc_roundtrip, trusted::axiom_disc_strict};

#[verifier::external_body]
pub struct MessageSerializer { _p: () }
impl MessageSerializer {
    pub uninterp spec fn kind(&self) -> MessageKind;
    pub uninterp spec fn fields(&self) -> Seq<Field>;
    pub uninterp spec fn has_value(&self) -> bool;
    pub uninterp spec fn value(&self) -> SerializedValue;

    #[verifier::external_body]
    pub fn without_value(kind: MessageKind) -> (r: Self)
        ensures r.kind() == kind, r.fields() == Seq::<Field>::empty(), !r.has_value()
    { unimplemented!() }

    // fails only for an invalid (empty) or oversized value
    #[verifier::external_body]
    pub fn with_value(value: SerializedValue, kind: MessageKind) -> (r: Result<Self, MessageSerializeError>)
        ensures r is Ok ==> r->Ok_0.kind() == kind && r->Ok_0.fields() == Seq::<Field>::empty()
            && r->Ok_0.has_value() && r->Ok_0.value() == value
    { unimplemented!() }

    #[verifier::external_body]
    pub fn with_none_value(kind: MessageKind) -> (r: Self)
        ensures r.kind() == kind, r.fields() == Seq::<Field>::empty(), r.has_value()
    { unimplemented!() }

    #[verifier::external_body]
    pub fn put_varint_u32_le(&mut self, n: u32)
        ensures final(self).fields() == old(self).fields().push(Field::U32(n)), final(self).kind() == old(self).kind(),
            final(self).has_value() == old(self).has_value(), final(self).value() == old(self).value()
    { unimplemented!() }

    #[verifier::external_body]
    pub fn put_uuid(&mut self, uuid: Uuid)
        ensures final(self).fields() == old(self).fields().push(Field::Id(uuid)), final(self).kind() == old(self).kind(),
            final(self).has_value() == old(self).has_value(), final(self).value() == old(self).value()
    { unimplemented!() }

    #[verifier::external_body]
    pub fn put_discriminant_u8<T: Disc>(&mut self, discriminant: T)
        ensures final(self).fields() == old(self).fields().push(Field::Disc(discriminant.to_u8())),
            final(self).kind() == old(self).kind(),
            final(self).has_value() == old(self).has_value(), final(self).value() == old(self).value()
    { unimplemented!() }

    #[verifier::external_body]
    pub fn finish(self) -> (r: Result<BytesMut, MessageSerializeError>)
        ensures r is Ok, frame_wf(r->Ok_0), frame_kind(r->Ok_0) == self.kind(), frame_fields(r->Ok_0) == self.fields(),
            frame_has_value(r->Ok_0) == self.has_value(), frame_value(r->Ok_0) == self.value()
    { unimplemented!() }
}

#[verifier::external_body]
pub struct MessageWithoutValueDeserializer { _p: () }
impl MessageWithoutValueDeserializer {
    pub uninterp spec fn rest(&self) -> Seq<Field>;

    #[verifier::external_body]
    pub fn new(buf: BytesMut, kind: MessageKind) -> (r: Result<Self, MessageDeserializeError>)
        ensures (r is Ok) == (frame_wf(buf) && frame_kind(buf) == kind), r is Ok ==> r->Ok_0.rest() == frame_fields(buf)
    { unimplemented!() }

    #[verifier::external_body]
    pub fn try_get_varint_u32_le(&mut self) -> (r: Result<u32, MessageDeserializeError>)
        ensures
            (r is Ok) == (old(self).rest().len() > 0 && old(self).rest()[0] is U32),
            r is Ok ==> old(self).rest()[0] == Field::U32(r->Ok_0)
                && final(self).rest() == old(self).rest().subrange(1, old(self).rest().len() as int),
    { unimplemented!() }

    #[verifier::external_body]
    pub fn try_get_uuid(&mut self) -> (r: Result<Uuid, MessageDeserializeError>)
        ensures
            (r is Ok) == (old(self).rest().len() > 0 && old(self).rest()[0] is Id),
            r is Ok ==> old(self).rest()[0] == Field::Id(r->Ok_0)
                && final(self).rest() == old(self).rest().subrange(1, old(self).rest().len() as int),
    { unimplemented!() }

    #[verifier::external_body]
    pub fn try_get_discriminant_u8<T: Disc>(&mut self) -> (r: Result<T, MessageDeserializeError>)
        ensures
            (r is Ok) == (old(self).rest().len() > 0 && old(self).rest()[0] is Disc
                && T::from_u8(old(self).rest()[0]->Disc_0) is Some),
            r is Ok ==> T::from_u8(old(self).rest()[0]->Disc_0) == Some(r->Ok_0)
                && final(self).rest() == old(self).rest().subrange(1, old(self).rest().len() as int),
    { unimplemented!() }

    #[verifier::external_body]
    pub fn finish(self) -> (r: Result<(), MessageDeserializeError>)
        ensures (r is Ok) == (self.rest().len() == 0)
    { unimplemented!() }
}

#[verifier::external_body]
pub struct MessageWithValueDeserializer { _p: () }
impl MessageWithValueDeserializer {
    pub uninterp spec fn rest(&self) -> Seq<Field>;
    pub uninterp spec fn value(&self) -> SerializedValue;

    #[verifier::external_body]
    pub fn new(buf: BytesMut, kind: MessageKind) -> (r: Result<Self, MessageDeserializeError>)
        ensures (r is Ok) == (frame_wf(buf) && frame_kind(buf) == kind && frame_has_value(buf)),
            r is Ok ==> r->Ok_0.rest() == frame_fields(buf) && r->Ok_0.value() == frame_value(buf)
    { unimplemented!() }

    #[verifier::external_body]
    pub fn try_get_varint_u32_le(&mut self) -> (r: Result<u32, MessageDeserializeError>)
        ensures
            (r is Ok) == (old(self).rest().len() > 0 && old(self).rest()[0] is U32),
            r is Ok ==> old(self).rest()[0] == Field::U32(r->Ok_0)
                && final(self).rest() == old(self).rest().subrange(1, old(self).rest().len() as int),
            final(self).value() == old(self).value(),
    { unimplemented!() }

    #[verifier::external_body]
    pub fn try_get_uuid(&mut self) -> (r: Result<Uuid, MessageDeserializeError>)
        ensures
            (r is Ok) == (old(self).rest().len() > 0 && old(self).rest()[0] is Id),
            r is Ok ==> old(self).rest()[0] == Field::Id(r->Ok_0)
                && final(self).rest() == old(self).rest().subrange(1, old(self).rest().len() as int),
            final(self).value() == old(self).value(),
    { unimplemented!() }

    #[verifier::external_body]
    pub fn try_get_discriminant_u8<T: Disc>(&mut self) -> (r: Result<T, MessageDeserializeError>)
        ensures
            (r is Ok) == (old(self).rest().len() > 0 && old(self).rest()[0] is Disc
                && T::from_u8(old(self).rest()[0]->Disc_0) is Some),
            r is Ok ==> T::from_u8(old(self).rest()[0]->Disc_0) == Some(r->Ok_0)
                && final(self).rest() == old(self).rest().subrange(1, old(self).rest().len() as int),
            final(self).value() == old(self).value(),
    { unimplemented!() }

    #[verifier::external_body]
    pub fn finish(self) -> (r: Result<SerializedValue, MessageDeserializeError>)
        ensures (r is Ok) == (self.rest().len() == 0), r is Ok ==> r->Ok_0 == self.value()
    { unimplemented!() }

    #[verifier::external_body]
    pub fn finish_discard_value(self) -> (r: Result<(), MessageDeserializeError>)
        ensures (r is Ok) == (self.rest().len() == 0)
    { unimplemented!() }
}
