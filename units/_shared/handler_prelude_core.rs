// shared trusted prelude of the handler-layer units (opaque foreign types, key-model axioms, std specs)
// ---- prelude (trusted base) -------------------------------------------------------------------
pub mod connid {
    use super::*;
    #[verifier::external_body]
    pub struct ConnectionId { _p: () }

    impl ConnectionId {
        pub uninterp spec fn id(&self) -> int;
    }

    impl PartialEqSpecImpl for ConnectionId {
        open spec fn obeys_eq_spec() -> bool { true }
        open spec fn eq_spec(&self, other: &Self) -> bool { self.id() == other.id() }
    }
    impl PartialEq for ConnectionId {
        #[verifier::external_body]
        fn eq(&self, other: &Self) -> (r: bool) { unimplemented!() }
    }
    impl Eq for ConnectionId {}
    impl Hash for ConnectionId {
        #[verifier::external_body]
        fn hash<H: Hasher>(&self, state: &mut H) { unimplemented!() }
    }
    impl Clone for ConnectionId {
        #[verifier::external_body]
        fn clone(&self) -> (r: Self)
            ensures r.id() == self.id()
        { unimplemented!() }
    }
}
pub use connid::ConnectionId;

macro_rules! opaque_copy_key {
    ($t:ident) => {
        verus! {
        #[verifier::external_body]
        #[derive(Clone, Copy)]
        pub struct $t { _p: () }
        impl PartialEq for $t {
            #[verifier::external_body]
            fn eq(&self, other: &Self) -> (r: bool) { unimplemented!() }
        }
        impl Eq for $t {}
        impl Hash for $t {
            #[verifier::external_body]
            fn hash<H: Hasher>(&self, state: &mut H) { unimplemented!() }
        }
        }
    };
}
opaque_copy_key!(ChannelCookie);
opaque_copy_key!(ObjectCookie);
opaque_copy_key!(ServiceCookie);
opaque_copy_key!(BusListenerCookie);
opaque_copy_key!(ObjectUuid);
opaque_copy_key!(ServiceUuid);
// BusListenerFilter is opaque in the handler units: handlers only pass filters on.
opaque_copy_key!(BusListenerFilter);

macro_rules! opaque {
    ($t:ident) => {
        verus! {
        #[verifier::external_body]
        pub struct $t { _p: () }
        }
    };
}
opaque!(SerializedValue);
opaque!(VersionedMessage);
opaque!(ConnectionEvent);
opaque!(BrokerHandle);

// ProtocolVersion: (major, minor) with the lexicographic order that #[derive(PartialOrd)] gives the real struct
// (core/src/protocol_version.rs; the Kani obligation C12.epoch_mapping exercises the real derived comparisons for all
// values). ASSUMED: derived PartialEq/PartialOrd = field-wise equality / lexicographic order.
#[derive(Clone, Copy)]
pub struct ProtocolVersion { pub major: u32, pub minor: u32 }
impl ProtocolVersion {
    pub const V1_16: Self = Self { major: 1, minor: 16 };
    pub const V1_17: Self = Self { major: 1, minor: 17 };
    pub const V1_18: Self = Self { major: 1, minor: 18 };
    pub const V1_19: Self = Self { major: 1, minor: 19 };

    pub open spec fn lex_cmp(a: Self, b: Self) -> core::cmp::Ordering {
        if a.major < b.major { core::cmp::Ordering::Less } else if a.major > b.major { core::cmp::Ordering::Greater }
        else if a.minor < b.minor { core::cmp::Ordering::Less } else if a.minor > b.minor { core::cmp::Ordering::Greater }
        else { core::cmp::Ordering::Equal }
    }

    // a message kind introduced in protocol 1.<min_minor> may be sent to a connection of this version
    // (min_minor == 0: part of the base protocol, always allowed)
    pub open spec fn allows(&self, min_minor: u32) -> bool {
        min_minor == 0 || Self::lex_cmp(*self, ProtocolVersion { major: 1, minor: min_minor }) != core::cmp::Ordering::Less
    }
}
impl PartialEqSpecImpl for ProtocolVersion {
    open spec fn obeys_eq_spec() -> bool { true }
    open spec fn eq_spec(&self, other: &Self) -> bool { self.major == other.major && self.minor == other.minor }
}
impl PartialEq for ProtocolVersion {
    #[verifier::external_body]
    fn eq(&self, other: &Self) -> (r: bool) { unimplemented!() }
}
impl PartialOrdSpecImpl for ProtocolVersion {
    open spec fn obeys_partial_cmp_spec() -> bool { true }
    open spec fn partial_cmp_spec(&self, other: &Self) -> Option<core::cmp::Ordering> { Some(Self::lex_cmp(*self, *other)) }
}
impl PartialOrd for ProtocolVersion {
    #[verifier::external_body]
    fn partial_cmp(&self, other: &Self) -> (r: Option<core::cmp::Ordering>) { unimplemented!() }
}

// Messages: every message type names the protocol minor version that introduced its kind (0 = base protocol).
// VersionedMessage carries that number as ghost information; ConnectionState::send REQUIRES that the connection's
// negotiated version allows it. This encodes "the broker never sends a connection a message kind newer than its
// negotiated version" as a precondition of the (assumed) send primitive, checked at every call site of a verified handler.
pub trait IntoMessage {
    spec fn min_minor() -> u32;
    // ROUTING: the connection `receiver` is one this message may be sent to, judged by what the receiver's own record says
    // (e.g. an ItemReceived for channel c only goes to the connection that lists c among its receiver ends). `true` for the
    // message kinds whose addressee is not constrained here. ConnectionState::send REQUIRES it, so every `send!` in a verified
    // handler is checked against it: "delivered to no other connection" becomes a proof obligation at the send site.
    spec fn allowed_for(&self, receiver: &ConnectionState) -> bool;
}
impl VersionedMessage {
    pub uninterp spec fn min_minor(&self) -> u32;
    pub uninterp spec fn allowed_for(&self, receiver: &ConnectionState) -> bool;

    #[verifier::external_body]
    pub fn new<T: IntoMessage>(msg: T, version: Option<ProtocolVersion>) -> (r: Self)
        ensures r.min_minor() == T::min_minor(), forall|c: &ConnectionState| #[trigger] r.allowed_for(c) == msg.allowed_for(c)
    { unimplemented!() }

    #[verifier::external_body]
    pub fn with_version<T: IntoMessage>(msg: T, version: ProtocolVersion) -> (r: Self)
        ensures r.min_minor() == T::min_minor(), forall|c: &ConnectionState| #[trigger] r.allowed_for(c) == msg.allowed_for(c)
    { unimplemented!() }
}

#[verifier::external_body]
#[verifier::reject_recursive_types(T)]
pub struct UnboundedSender<T> { _p: core::marker::PhantomData<T> }
#[verifier::external_body]
#[verifier::reject_recursive_types(T)]
pub struct Receiver<T> { _p: core::marker::PhantomData<T> }


pub mod trusted {
    use super::*;
    pub broadcast axiom fn axiom_conn_id_key_model() ensures #[trigger] obeys_key_model::<ConnectionId>();
    pub broadcast axiom fn axiom_channel_cookie_key_model() ensures #[trigger] obeys_key_model::<ChannelCookie>();
    pub broadcast axiom fn axiom_object_uuid_key_model() ensures #[trigger] obeys_key_model::<ObjectUuid>();
    pub broadcast axiom fn axiom_svc_key_model() ensures #[trigger] obeys_key_model::<(ObjectUuid, ServiceUuid)>();
    pub broadcast axiom fn axiom_bl_cookie_key_model() ensures #[trigger] obeys_key_model::<BusListenerCookie>();
    pub broadcast axiom fn axiom_object_cookie_key_model() ensures #[trigger] obeys_key_model::<ObjectCookie>();
    pub broadcast axiom fn axiom_service_cookie_key_model() ensures #[trigger] obeys_key_model::<ServiceCookie>();
    pub broadcast axiom fn axiom_filter_key_model() ensures #[trigger] obeys_key_model::<BusListenerFilter>();
    // ConnectionId: two handles denote the same connection iff their numeric ids are equal (conn_id.rs: Eq, Hash and
    // the id all derive from the same counter value). ASSUMED.
    pub broadcast axiom fn axiom_conn_id_injective(a: ConnectionId, b: ConnectionId)
        ensures #[trigger] a.id() == #[trigger] b.id() <==> a == b;
}

// PROVED helper lemmas (not assumptions): a map/set mutation that does not change the content leaves the map/set equal.
// They give the solver the extensional equality that a released, unused hash-map entry or a no-op removal calls for.
pub mod noop_lemmas {
    use super::*;
    pub broadcast proof fn lemma_map_insert_same<K, V>(m: Map<K, V>, k: K, v: V)
        requires m.contains_key(k), m[k] == v
        ensures #[trigger] m.insert(k, v) == m
    { assert(m.insert(k, v) =~= m); }
    pub broadcast proof fn lemma_map_remove_absent<K, V>(m: Map<K, V>, k: K)
        requires !m.contains_key(k)
        ensures #[trigger] m.remove(k) == m
    { assert(m.remove(k) =~= m); }
    pub broadcast proof fn lemma_map_insert_remove<K, V>(m: Map<K, V>, k: K, v: V)
        requires !m.contains_key(k)
        ensures #[trigger] m.insert(k, v).remove(k) == m
    { assert(m.insert(k, v).remove(k) =~= m); }
    pub broadcast proof fn lemma_set_insert_same<A>(s: Set<A>, a: A)
        requires s.contains(a)
        ensures #[trigger] s.insert(a) == s
    { assert(s.insert(a) =~= s); }
    pub broadcast proof fn lemma_set_remove_absent<A>(s: Set<A>, a: A)
        requires !s.contains(a)
        ensures #[trigger] s.remove(a) == s
    { assert(s.remove(a) =~= s); }
}
broadcast use {
    noop_lemmas::lemma_map_insert_same, noop_lemmas::lemma_map_remove_absent, noop_lemmas::lemma_map_insert_remove, noop_lemmas::lemma_set_insert_same, noop_lemmas::lemma_set_remove_absent,
    trusted::axiom_conn_id_key_model, trusted::axiom_channel_cookie_key_model, trusted::axiom_conn_id_injective,
    trusted::axiom_bl_cookie_key_model, trusted::axiom_filter_key_model, trusted::axiom_object_uuid_key_model,
    trusted::axiom_svc_key_model, trusted::axiom_object_cookie_key_model, trusted::axiom_service_cookie_key_model,
    vstd::std_specs::hash::group_hash_axioms,
};

pub assume_specification<T>[ std::mem::replace::<T> ](dest: &mut T, src: T) -> (r: T)
    ensures *final(dest) == src, r == *old(dest);

//@include _shared/std_get_mut_spec.rs

