    #[verifier::inline]
    spec fn calls(&self) -> Map<u32, PendingFunctionCall> {
        self.function_calls.elems@
    }

    // table key of the service with cookie `sc`
    spec fn skey(&self, sc: ServiceCookie) -> (ObjectUuid, ServiceUuid) {
        (self.svc_uuids@[sc].0.uuid, self.svc_uuids@[sc].1)
    }

    // ---- registry invariant ------------------------------------------------------------------------------
    // (O) the object tables obj_uuids (cookie -> uuid) and objs (uuid -> Object) are inverse to each other: at most one live
    //     object per UUID (objs is a map) and per cookie
    spec fn inv_objects(&self) -> bool {
        &&& forall|c: ObjectCookie| #![trigger self.obj_uuids@[c]] self.obj_uuids@.contains_key(c) ==>
                self.objs@.contains_key(self.obj_uuids@[c]) && self.objs@[self.obj_uuids@[c]].cookie == c
        &&& forall|u: ObjectUuid| #![trigger self.objs@[u]] self.objs@.contains_key(u) ==>
                self.obj_uuids@.contains_key(self.objs@[u].cookie) && self.obj_uuids@[self.objs@[u].cookie] == u
    }

    // (S) the service tables svc_uuids (cookie -> ids) and svcs ((object uuid, service uuid) -> Service) are inverse to each
    //     other: at most one live service per (object, service UUID) and per cookie
    spec fn inv_services(&self) -> bool {
        &&& forall|sc: ServiceCookie| #![trigger self.svc_uuids@[sc]] self.svc_uuids@.contains_key(sc) ==> {
                &&& self.svcs@.contains_key(self.skey(sc))
                &&& self.svcs@[self.skey(sc)].cookie == sc
                &&& self.svcs@[self.skey(sc)].object_cookie == self.svc_uuids@[sc].0.cookie
            }
        &&& forall|k: (ObjectUuid, ServiceUuid)| #![trigger self.svcs@[k]] self.svcs@.contains_key(k) ==>
                self.svc_uuids@.contains_key(self.svcs@[k].cookie) && self.skey(self.svcs@[k].cookie) == k
    }

    // (OS) an object lists exactly the live services registered under it (while the object exists)
    spec fn inv_object_services(&self) -> bool {
        &&& forall|u: ObjectUuid, sc: ServiceCookie| #![trigger self.objs@[u].svcs@.contains(sc)]
                self.objs@.contains_key(u) && self.objs@[u].svcs@.contains(sc) ==>
                    self.svc_uuids@.contains_key(sc) && self.svc_uuids@[sc].0.uuid == u
        &&& forall|sc: ServiceCookie| #![trigger self.svc_uuids@[sc]]
                self.svc_uuids@.contains_key(sc) && self.objs@.contains_key(self.svc_uuids@[sc].0.uuid) ==> {
                    &&& self.objs@[self.svc_uuids@[sc].0.uuid].svcs@.contains(sc)
                    &&& self.objs@[self.svc_uuids@[sc].0.uuid].cookie == self.svc_uuids@[sc].0.cookie
                }
    }

    // (OWN) a connection lists exactly the objects it owns
    spec fn inv_ownership(&self) -> bool {
        &&& forall|k: ConnectionId, c: ObjectCookie| #![trigger self.conns@[k].objects@.contains(c)]
                self.conns@.contains_key(k) && self.conns@[k].objects@.contains(c) ==>
                    self.obj_uuids@.contains_key(c) && self.objs@[self.obj_uuids@[c]].conn_id == k
        &&& forall|u: ObjectUuid| #![trigger self.objs@[u]]
                self.objs@.contains_key(u) && self.conns@.contains_key(self.objs@[u].conn_id) ==>
                    self.conns@[self.objs@[u].conn_id].objects@.contains(self.objs@[u].cookie)
    }

    // (CALLS) pending calls and the per-service sets of pending serials describe the same relation
    spec fn inv_calls(&self) -> bool {
        &&& forall|s: u32| #![trigger self.calls()[s]] self.calls().contains_key(s) ==> {
                &&& self.svcs@.contains_key((self.calls()[s].callee_obj, self.calls()[s].callee_svc))
                &&& self.svcs@[(self.calls()[s].callee_obj, self.calls()[s].callee_svc)].function_calls@.contains(s)
            }
        &&& forall|k: (ObjectUuid, ServiceUuid), s: u32| #![trigger self.svcs@[k].function_calls@.contains(s)]
                self.svcs@.contains_key(k) && self.svcs@[k].function_calls@.contains(s) ==>
                    self.calls().contains_key(s) && self.calls()[s].callee_obj == k.0 && self.calls()[s].callee_svc == k.1
    }

    // (SUBS) subscriptions are mirrored: what a live service records about a connected subscriber, that connection records
    //        about the service; and every service satisfies its own representation invariant
    spec fn inv_subs(&self) -> bool {
        &&& forall|k: (ObjectUuid, ServiceUuid)| #![trigger self.svcs@[k]] self.svcs@.contains_key(k) ==> self.svcs@[k].inv()
        &&& forall|k: (ObjectUuid, ServiceUuid), e: u32, c: ConnectionId| #![trigger self.svcs@[k].subs(e).contains(c)]
                self.svcs@.contains_key(k) && self.svcs@[k].subs(e).contains(c) && self.conns@.contains_key(c) ==>
                    self.conns@[c].ev(self.svcs@[k].cookie).contains(e)
        &&& forall|k: (ObjectUuid, ServiceUuid), c: ConnectionId| #![trigger self.svcs@[k].all_events@.contains(c)]
                self.svcs@.contains_key(k) && self.svcs@[k].all_events@.contains(c) && self.conns@.contains_key(c) ==>
                    self.conns@[c].all_events@.contains(self.svcs@[k].cookie)
        &&& forall|k: (ObjectUuid, ServiceUuid), c: ConnectionId| #![trigger self.svcs@[k].subscriptions@.contains(c)]
                self.svcs@.contains_key(k) && self.svcs@[k].subscriptions@.contains(c) && self.conns@.contains_key(c) ==>
                    self.conns@[c].subscriptions@.contains(self.svcs@[k].cookie)
    }

    // every subscriber recorded by a live service is a connected client (between two requests)
    spec fn subscribers_connected(&self) -> bool {
        &&& forall|k: (ObjectUuid, ServiceUuid), e: u32, c: ConnectionId| #![trigger self.svcs@[k].subs(e).contains(c)]
                self.svcs@.contains_key(k) && self.svcs@[k].subs(e).contains(c) ==> self.conns@.contains_key(c)
        &&& forall|k: (ObjectUuid, ServiceUuid), c: ConnectionId| #![trigger self.svcs@[k].all_events@.contains(c)]
                self.svcs@.contains_key(k) && self.svcs@[k].all_events@.contains(c) ==> self.conns@.contains_key(c)
        &&& forall|k: (ObjectUuid, ServiceUuid), c: ConnectionId| #![trigger self.svcs@[k].subscriptions@.contains(c)]
                self.svcs@.contains_key(k) && self.svcs@[k].subscriptions@.contains(c) ==> self.conns@.contains_key(c)
    }

    // (CALLERS) a pending call that has not been aborted is known to its caller (while connected) under the caller's own
    //           serial, and it refers to a live object
    spec fn inv_callers(&self) -> bool {
        forall|s: u32| #![trigger self.calls()[s]] self.calls().contains_key(s) && !self.calls()[s].aborted
            && self.conns@.contains_key(self.calls()[s].caller_conn_id) ==> {
                &&& self.conns@[self.calls()[s].caller_conn_id].calls@.contains_key(self.calls()[s].caller_serial)
                &&& self.conns@[self.calls()[s].caller_conn_id].calls@[self.calls()[s].caller_serial].0 == s
            }
    }

    // every connection's own representation invariant
    spec fn inv_conns(&self) -> bool {
        forall|k: ConnectionId| #![trigger self.conns@[k]] self.conns@.contains_key(k) ==> self.conns@[k].inv()
    }

    // The registry invariant in its WEAK form: services may be orphans (their object already gone) and objects may have a
    // disconnected owner. That is the state inside remove_object / shutdown_connection.
    spec fn reg_winv(&self) -> bool {
        &&& self.inv_objects() &&& self.inv_services() &&& self.inv_object_services() &&& self.inv_ownership()
        &&& self.inv_calls() &&& self.inv_callers() &&& self.inv_conns() &&& self.inv_subs()
    }

    // service cookies whose object does not exist (any more)
    spec fn is_orphan(&self, sc: ServiceCookie) -> bool {
        self.svc_uuids@.contains_key(sc) && !self.objs@.contains_key(self.svc_uuids@[sc].0.uuid)
    }

    // The registry invariant between two requests: additionally no service is an orphan and every object's owner is connected.
    spec fn reg_inv(&self) -> bool {
        &&& self.reg_winv()
        &&& forall|sc: ServiceCookie| #![trigger self.svc_uuids@[sc]] self.svc_uuids@.contains_key(sc) ==>
                self.objs@.contains_key(self.svc_uuids@[sc].0.uuid)
        &&& forall|u: ObjectUuid| #![trigger self.objs@[u]] self.objs@.contains_key(u) ==>
                self.conns@.contains_key(self.objs@[u].conn_id)
        &&& self.subscribers_connected()
    }

    spec fn same_rest(&self, o: &Self) -> bool {
        &&& self.recv == o.recv &&& self.handle == o.handle
        &&& self.channels == o.channels &&& self.bus_listeners == o.bus_listeners
    }

    // the registry tables proper
    spec fn same_registry(&self, o: &Self) -> bool {
        &&& self.obj_uuids@ =~= o.obj_uuids@ &&& self.objs@ =~= o.objs@
        &&& self.svc_uuids@ =~= o.svc_uuids@ &&& self.svcs@ =~= o.svcs@
    }

    // no service is an orphan
    spec fn no_orphans(&self) -> bool {
        forall|sc: ServiceCookie| #![trigger self.svc_uuids@[sc]] self.svc_uuids@.contains_key(sc) ==>
            self.objs@.contains_key(self.svc_uuids@[sc].0.uuid)
    }

    // the registry restricted to everything that does not belong to object `u`: what remove_object leaves behind
    spec fn registry_without_object(&self, o: &Self, u: ObjectUuid) -> bool {
        &&& forall|sc: ServiceCookie| #![trigger self.svc_uuids@.contains_key(sc)] #![trigger o.svc_uuids@.contains_key(sc)]
                (self.svc_uuids@.contains_key(sc) <==> o.svc_uuids@.contains_key(sc) && o.svc_uuids@[sc].0.uuid != u)
                && (self.svc_uuids@.contains_key(sc) ==> self.svc_uuids@[sc] == o.svc_uuids@[sc])
        &&& forall|k: (ObjectUuid, ServiceUuid)| #![trigger self.svcs@.contains_key(k)] #![trigger o.svcs@.contains_key(k)]
                (self.svcs@.contains_key(k) <==> o.svcs@.contains_key(k) && k.0 != u)
                && (self.svcs@.contains_key(k) ==> self.svcs@[k] == o.svcs@[k])
        &&& forall|s: u32| #![trigger self.calls().contains_key(s)] #![trigger o.calls().contains_key(s)]
                (self.calls().contains_key(s) <==> o.calls().contains_key(s) && o.calls()[s].callee_obj != u)
                && (self.calls().contains_key(s) ==> self.calls()[s] == o.calls()[s])
    }

    // Only the subscription records of service `k` and of connection `id` may differ between the two states
    spec fn only_subs_changed(&self, o: &Self, k: (ObjectUuid, ServiceUuid), id: ConnectionId) -> bool {
        &&& self.same_rest(o)
        &&& self.obj_uuids@ =~= o.obj_uuids@ &&& self.objs@ =~= o.objs@ &&& self.svc_uuids@ =~= o.svc_uuids@
        &&& self.calls() =~= o.calls()
        &&& self.svcs@.dom() =~= o.svcs@.dom() &&& self.conns@.dom() =~= o.conns@.dom()
        &&& forall|k2: (ObjectUuid, ServiceUuid)| #![trigger self.svcs@[k2]] o.svcs@.contains_key(k2) && k2 != k ==> self.svcs@[k2] == o.svcs@[k2]
        &&& forall|c: ConnectionId| #![trigger self.conns@[c]] o.conns@.contains_key(c) && c != id ==> self.conns@[c] == o.conns@[c]
        &&& o.svcs@.contains_key(k) ==> {
                &&& self.svcs@[k].cookie == o.svcs@[k].cookie &&& self.svcs@[k].object_cookie == o.svcs@[k].object_cookie
                &&& self.svcs@[k].function_calls == o.svcs@[k].function_calls
            }
    }

    spec fn unchanged(&self, o: &Self) -> bool {
        &&& self.same_rest(o) &&& self.same_registry(o) &&& self.calls() =~= o.calls() &&& self.conns@ =~= o.conns@
    }

    // derived views that do not change when the `events` maps are untouched (stated so that the solver sees both sides)
    spec fn svc_events_same(&self, o: &Self, k: (ObjectUuid, ServiceUuid)) -> bool {
        forall|e: u32| #![trigger self.svcs@[k].subs(e)] self.svcs@[k].subs(e) == o.svcs@[k].subs(e)
    }
    spec fn conn_events_same(&self, o: &Self, c: ConnectionId) -> bool {
        forall|x: ServiceCookie| #![trigger self.conns@[c].ev(x)] self.conns@[c].ev(x) == o.conns@[c].ev(x)
    }

    // ---- from the weak to the strong invariant -------------------------------------------------------------------------------
    // If `self` satisfies the weak invariant, has no orphan services, and everything that is left in it was already in `o`
    // (same owners, same subscriber sets, same connections) where the strong invariant held, then the strong invariant holds in
    // `self`. Used after the cleanup helpers (remove_service / remove_object), proved on its own.
    proof fn lemma_strong_preserved(&self, o: &Self)
        requires
            o.reg_inv(), self.reg_winv(), self.no_orphans(),
            self.conns@.dom() =~= o.conns@.dom(),
            forall|u: ObjectUuid| #![trigger self.objs@.contains_key(u)] self.objs@.contains_key(u) ==> o.objs@.contains_key(u)
                && self.objs@[u].conn_id == o.objs@[u].conn_id,
            forall|k: (ObjectUuid, ServiceUuid)| #![trigger self.svcs@.contains_key(k)] self.svcs@.contains_key(k) ==> o.svcs@.contains_key(k)
                && self.svcs@[k] == o.svcs@[k],
        ensures
            self.reg_inv(),
    {
        assert forall|u: ObjectUuid| self.objs@.contains_key(u) implies self.conns@.contains_key(self.objs@[u].conn_id) by {
            assert(o.objs@.contains_key(u));
        }
        assert(self.subscribers_connected()) by {
            assert forall|k: (ObjectUuid, ServiceUuid), e: u32, c: ConnectionId| self.svcs@.contains_key(k) && #[trigger] self.svcs@[k].subs(e).contains(c)
                implies self.conns@.contains_key(c) by {
                assert(o.svcs@.contains_key(k)); assert(o.svcs@[k].subs(e).contains(c));
            }
            assert forall|k: (ObjectUuid, ServiceUuid), c: ConnectionId| self.svcs@.contains_key(k) && #[trigger] self.svcs@[k].all_events@.contains(c)
                implies self.conns@.contains_key(c) by {
                assert(o.svcs@.contains_key(k)); assert(o.svcs@[k].all_events@.contains(c));
            }
            assert forall|k: (ObjectUuid, ServiceUuid), c: ConnectionId| self.svcs@.contains_key(k) && #[trigger] self.svcs@[k].subscriptions@.contains(c)
                implies self.conns@.contains_key(c) by {
                assert(o.svcs@.contains_key(k)); assert(o.svcs@[k].subscriptions@.contains(c));
            }
        }
    }

    // removing a service cannot create an orphan
    proof fn lemma_no_orphans_after_remove_service(&self, o: &Self, sc: ServiceCookie)
        requires
            o.no_orphans(), self.svc_uuids@ =~= o.svc_uuids@.remove(sc), self.objs@.dom() =~= o.objs@.dom(),
        ensures
            self.no_orphans(),
    {
        assert forall|x: ServiceCookie| self.svc_uuids@.contains_key(x) implies self.objs@.contains_key(self.svc_uuids@[x].0.uuid) by {
            assert(o.svc_uuids@.contains_key(x));
        }
    }
