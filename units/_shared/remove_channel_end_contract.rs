    // remove_channel_end contains a closure capturing `&mut self` (Verus: unsupported), so its contract is ASSUMED.
    // Preconditions are what every call site establishes; postconditions are what its body does to the tables.
    //@fn broker/src/broker.rs Broker::remove_channel_end nobody
        requires
            old(self).chan_inv(),
            old(self).channels@.contains_key(cookie) ==> {
                let st = old(self).channels@[cookie].end_state(end);
                &&& !(st is Closed)
                // `owner` names the connection holding the end, or None when nobody holds it
                &&& (owner is Some ==> st.claimed_by(owner->Some_0.id()))
                &&& (owner is None ==> st is Unclaimed)
            },
        ensures
            final(self).chan_inv(),
            final(self).chan_same_rest(old(self)),
            final(self).conns@.dom() == old(self).conns@.dom(),
            // only the owner's own list of ends is touched, and only the deferred-removal queue of the loop state
            forall|k: ConnectionId| #![trigger final(self).conns@[k]] old(self).conns@.contains_key(k) ==> {
                if owner is Some && k == *owner->Some_0 && old(self).channels@.contains_key(cookie) {
                    match end {
                        ChannelEnd::Sender => final(self).conns@[k].senders@ == old(self).conns@[k].senders@.remove(cookie)
                            && final(self).conns@[k].rest_eq(&old(self).conns@[k], 6),
                        ChannelEnd::Receiver => final(self).conns@[k].receivers@ == old(self).conns@[k].receivers@.remove(cookie)
                            && final(self).conns@[k].rest_eq(&old(self).conns@[k], 7),
                    }
                } else {
                    final(self).conns@[k] == old(self).conns@[k]
                }
            },
            final(state).only_remove_conns_changed(old(state)),
            // ends are only closed and channels only dropped: claimed ends keep belonging to connected clients
            old(self).chan_owners_connected() ==> final(self).chan_owners_connected(),
            // statistics: the channel counter is decremented exactly when the channel is dropped from the table
            old(self).stat_channels_ok() ==> final(self).stat_channels_ok(),
            final(self).statistics.num_connections == old(self).statistics.num_connections,
            final(self).statistics.num_objects == old(self).statistics.num_objects,
            final(self).statistics.num_services == old(self).statistics.num_services,
            final(self).statistics.num_bus_listeners == old(self).statistics.num_bus_listeners,
            !old(self).channels@.contains_key(cookie) ==> final(self).channels@ == old(self).channels@
                && final(self).conns@ == old(self).conns@,
            old(self).channels@.contains_key(cookie) ==> {
                let other = old(self).channels@[cookie].other_state(end);
                let keep = other is Claimed && exists|k: ConnectionId| old(self).conns@.contains_key(k) && k.id() == other.owner_id();
                &&& forall|c: ChannelCookie| c != cookie ==> final(self).channels@.contains_key(c) == old(self).channels@.contains_key(c)
                &&& forall|c: ChannelCookie| c != cookie && old(self).channels@.contains_key(c) ==> final(self).channels@[c] == old(self).channels@[c]
                &&& final(self).channels@.contains_key(cookie) == keep
                &&& keep ==> {
                        &&& final(self).channels@[cookie].end_state(end) is Closed
                        &&& final(self).channels@[cookie].other_state(end) == other
                    }
            },
    //@end
