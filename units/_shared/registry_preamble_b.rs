// connection `c` is among the references `h`
pub open spec fn visited(h: Seq<&ConnectionId>, c: ConnectionId) -> bool {
    exists|j: int| 0 <= j < h.len() && *h[j] == c
}

// ---- callee structures: real structs, methods ASSUMED with the contracts verified in their leaf units ---------
//@item broker/src/broker/state.rs struct State
impl State {
    //@include _shared/state_specs.rs
    //@fn-from broker_state broker/src/broker/state.rs State::push_remove_conn
    //@fn-from broker_state broker/src/broker/state.rs State::push_remove_function_call
    //@fn-from broker_state broker/src/broker/state.rs State::push_services_destroyed
    //@fn-from broker_state broker/src/broker/state.rs State::push_create_object
    //@fn-from broker_state broker/src/broker/state.rs State::push_destroy_object
    //@fn-from broker_state broker/src/broker/state.rs State::push_create_service
    //@fn-from broker_state broker/src/broker/state.rs State::push_destroy_service
    //@fn-from broker_state broker/src/broker/state.rs State::push_unsubscribe_event
    //@fn-from broker_state broker/src/broker/state.rs State::push_unsubscribe_all_events
    //@fn-from broker_state broker/src/broker/state.rs State::push_abort_function_call
}

//@item broker/src/serial_map.rs struct SerialMap
impl<T> SerialMap<T> {
    //@include _shared/serial_map_specs.rs
    //@fn-from broker_serial_map broker/src/serial_map.rs SerialMap::new
    //@fn-from broker_serial_map broker/src/serial_map.rs SerialMap::remove
    //@fn-from broker_serial_map broker/src/serial_map.rs SerialMap::get_mut
    //@fn-from broker_serial_map broker/src/serial_map.rs SerialMap::entry

    //@fn-from broker_serial_map broker/src/serial_map.rs SerialMap::insert
}

//@item broker/src/broker/object.rs struct Object
impl Object {
    //@fn-from broker_object broker/src/broker/object.rs Object::new
    //@fn-from broker_object broker/src/broker/object.rs Object::conn_id
    //@fn-from broker_object broker/src/broker/object.rs Object::cookie
    //@fn-from broker_object broker/src/broker/object.rs Object::add_service
    //@fn-from broker_object broker/src/broker/object.rs Object::remove_service

    // `self.svcs.iter().copied()`: ASSUMED to enumerate the service set, each cookie once
    //@fn broker/src/broker/object.rs Object::services nobody iter
        ensures r.elems().no_duplicates(), r.elems().to_set() == self.svcs@,
    //@end
}

//@item broker/src/broker/service.rs struct Service
impl Service {
    //@include _shared/service_specs.rs
    //@fn-from broker_service broker/src/broker/service.rs Service::new
    //@fn-from broker_service broker/src/broker/service.rs Service::cookie
    //@fn-from broker_service broker/src/broker/service.rs Service::object_cookie
    //@fn-from broker_service broker/src/broker/service.rs Service::add_function_call
    //@fn-from broker_service broker/src/broker/service.rs Service::remove_function_call
    //@fn-from broker_service broker/src/broker/service.rs Service::subscribe_event
    //@fn-from broker_service broker/src/broker/service.rs Service::unsubscribe_event
    //@fn-from broker_service broker/src/broker/service.rs Service::subscribe_all_events
    //@fn-from broker_service broker/src/broker/service.rs Service::unsubscribe_all_events
    //@fn-from broker_service broker/src/broker/service.rs Service::subscribe
    //@fn-from broker_service broker/src/broker/service.rs Service::unsubscribe

    // set of connections subscribed to one of the service's events or to the service itself
    spec fn is_subscriber(&self, k: ConnectionId) -> bool {
        self.subscriptions@.contains(k) || exists|e: u32| self.subs(e).contains(k)
    }

    // `self.function_calls.iter().copied()`: ASSUMED to enumerate the set of pending serials, each once
    //@fn broker/src/broker/service.rs Service::function_calls nobody iter
        ensures r.elems().no_duplicates(), r.elems().to_set() == self.function_calls@,
    //@end

    // collects the per-event subscribers and the service subscribers into a HashSet and iterates it (iterator adapters:
    // outside Verus). ASSUMED: enumerates that set of connections, each once.
    //@fn broker/src/broker/service.rs Service::subscribed_conn_ids nobody iter
        ensures r.elems().no_duplicates(),
            forall|k: ConnectionId| self.is_subscriber(k) <==> visited(r.elems(), k),
    //@end
}

//@item broker/src/broker/conn_state.rs struct ConnectionState
impl ConnectionState {
    //@include _shared/conn_state_specs.rs
    //@fn-from broker_conn_state broker/src/broker/conn_state.rs ConnectionState::version
    //@fn-from broker_conn_state broker/src/broker/conn_state.rs ConnectionState::add_object
    //@fn-from broker_conn_state broker/src/broker/conn_state.rs ConnectionState::remove_object
    //@fn-from broker_conn_state broker/src/broker/conn_state.rs ConnectionState::unsubscribe_all
    //@fn-from broker_conn_state broker/src/broker/conn_state.rs ConnectionState::subscribe_event
    //@fn-from broker_conn_state broker/src/broker/conn_state.rs ConnectionState::unsubscribe_event
    //@fn-from broker_conn_state broker/src/broker/conn_state.rs ConnectionState::subscribe_all_events
    //@fn-from broker_conn_state broker/src/broker/conn_state.rs ConnectionState::unsubscribe_all_events
    //@fn-from broker_conn_state broker/src/broker/conn_state.rs ConnectionState::subscribe
    //@fn-from broker_conn_state broker/src/broker/conn_state.rs ConnectionState::unsubscribe
    //@fn-from broker_conn_state broker/src/broker/conn_state.rs ConnectionState::add_call
    //@fn-from broker_conn_state broker/src/broker/conn_state.rs ConnectionState::remove_call

    //@fn-from broker_conn_state broker/src/broker/conn_state.rs ConnectionState::call_data
    //@fn-from broker_conn_state broker/src/broker/conn_state.rs ConnectionState::is_subscribed_to_event

    // sending only pushes into the connection's outgoing queue (interior mutability); no broker state changes.
    #[verifier::external_body]
    pub(crate) fn send(&self, msg: VersionedMessage) -> (r: Result<(), ()>)
        requires self.version.allows(msg.min_minor()), msg.allowed_for(self)
    { unimplemented!() }
}

// ---- Broker -------------------------------------------------------------------------------------------
//@item broker/src/broker.rs macro send
//@item broker/src/broker.rs struct PendingFunctionCall
//@item broker/src/broker.rs struct Broker

// the InvalidService replies queued for the pending calls `order` (in that order) of a destroyed service: one per call that
// has not been aborted (an aborted call was already answered with Aborted), addressed to the caller under its own serial
pub closed spec fn invalid_service_replies(order: Seq<u32>, calls: Map<u32, PendingFunctionCall>)
    -> Seq<(u32, ConnectionId, CallFunctionResult)>
    decreases order.len()
{
    if order.len() == 0 {
        Seq::empty()
    } else {
        let c = calls[order.last()];
        let rest = invalid_service_replies(order.drop_last(), calls);
        if c.aborted { rest } else { rest.push((c.caller_serial, c.caller_conn_id, CallFunctionResult::InvalidService)) }
    }
}

// the ServiceDestroyed notifications queued for the subscribed connections `order` that are (still) connected
pub closed spec fn service_destroyed_notes(order: Seq<&ConnectionId>, conns: Set<ConnectionId>, sc: ServiceCookie)
    -> Seq<(ConnectionId, ServiceCookie)>
    decreases order.len()
{
    if order.len() == 0 {
        Seq::empty()
    } else {
        let rest = service_destroyed_notes(order.drop_last(), conns, sc);
        if conns.contains(*order.last()) { rest.push((*order.last(), sc)) } else { rest }
    }
}

//@include _shared/iter_step.rs

