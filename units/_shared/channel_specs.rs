// shared hand-written spec functions for broker/src/broker/channel.rs (included by broker_channel and by the handler units)
impl ChannelEndState {
    spec fn cap(&self) -> int {
        match *self {
            ChannelEndState::Claimed { owner, capacity } => capacity as int,
            _ => 0,
        }
    }

    spec fn owner_id(&self) -> int {
        match *self {
            ChannelEndState::Claimed { owner, capacity } => owner.id(),
            _ => -1,
        }
    }

    spec fn claimed_by(&self, c: int) -> bool {
        (*self is Claimed) && self.owner_id() == c
    }
}

impl Channel {
    // Representation invariant, property level: the sender's credit never exceeds what the receiver has granted and not
    // yet consumed (so nothing is forwarded beyond the grants, and a sender within its announced credit is never cut
    // off), and the sender is never left at zero credit while the receiver has credit outstanding (no stuck sender).
    // Deliberately NOT part of the invariant: the value of the low-water mark and when exactly replenishment happens
    // above zero (implementation policy; changing it does not break the property).
    spec fn inv(&self) -> bool {
        &&& (self.sender is Claimed && self.receiver is Claimed) ==> {
                &&& self.sender.cap() <= self.receiver.cap()
                &&& (self.sender.cap() == 0 ==> self.receiver.cap() == 0)
            }
        &&& (self.sender is Claimed && self.receiver is Unclaimed) ==> self.sender.cap() == 0
    }

    // the broker drops a channel from its table as soon as neither end is claimed
    spec fn live(&self) -> bool {
        (self.sender is Claimed) || (self.receiver is Claimed)
    }

    spec fn end_state(&self, end: ChannelEnd) -> ChannelEndState {
        match end {
            ChannelEnd::Sender => self.sender,
            ChannelEnd::Receiver => self.receiver,
        }
    }

    spec fn other_state(&self, end: ChannelEnd) -> ChannelEndState {
        match end {
            ChannelEnd::Sender => self.receiver,
            ChannelEnd::Receiver => self.sender,
        }
    }
}
