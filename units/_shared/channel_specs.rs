// shared hand-written spec functions for broker/src/broker/channel.rs (included by broker_channel and by the handler units)
impl ChannelEndState {
    spec fn cap(&self) -> int {
        match *self {
            ChannelEndState::Claimed { owner, capacity } => capacity as int,
            _ => 0,
        }
    }

    spec fn owner_id(&self) -> int {
        match *self {
            ChannelEndState::Claimed { owner, capacity } => owner.id(),
            _ => -1,
        }
    }

    spec fn claimed_by(&self, c: int) -> bool {
        (*self is Claimed) && self.owner_id() == c
    }
}

impl Channel {
    // Representation invariant: sender credit never exceeds what the receiver has granted and not yet
    // consumed; at or below the low-water mark the sender knows everything the receiver granted.
    spec fn inv(&self) -> bool {
        &&& (self.sender is Claimed && self.receiver is Claimed) ==> {
                &&& self.sender.cap() <= self.receiver.cap()
                &&& (self.sender.cap() <= LOW_CAPACITY ==> self.sender.cap() == self.receiver.cap())
            }
        &&& (self.sender is Claimed && self.receiver is Unclaimed) ==> self.sender.cap() == 0
    }

    // the broker drops a channel from its table as soon as neither end is claimed
    spec fn live(&self) -> bool {
        (self.sender is Claimed) || (self.receiver is Claimed)
    }

    spec fn end_state(&self, end: ChannelEnd) -> ChannelEndState {
        match end {
            ChannelEnd::Sender => self.sender,
            ChannelEnd::Receiver => self.receiver,
        }
    }

    spec fn other_state(&self, end: ChannelEnd) -> ChannelEndState {
        match end {
            ChannelEnd::Sender => self.receiver,
            ChannelEnd::Receiver => self.sender,
        }
    }
}
