// unit: broker_handlers_bus_listener   property: C10 (handler layer: ownership, destroy/stop/filter handlers)
// Handlers of broker/src/broker.rs verified against the contracts of BusListener (unit broker_bus_listener) and
// ConnectionState (unit broker_conn_state).
#![feature(allocator_api)]
use vstd::prelude::*;
use vstd::std_specs::hash::*;
use vstd::std_specs::cmp::*;
use std::collections::hash_map::{Entry, HashMap};
use std::collections::HashSet;
use std::hash::{Hash, Hasher};
use std::mem;

verus! {

//@keep-cfg statistics
//@include _shared/handler_prelude.rs
//@include _shared/copy_iter.rs
//@include _shared/statistics_items.rs
opaque!(Object);
opaque!(Service);
opaque!(PendingFunctionCall);
#[verifier::external_body]
#[verifier::reject_recursive_types(T)]
pub struct SerialMap<T> { _p: core::marker::PhantomData<T> }

// ---- messages -------------------------------------------------------------------------------------------
//@item core/src/message/create_bus_listener.rs struct CreateBusListener
//@item core/src/message/create_bus_listener_reply.rs struct CreateBusListenerReply
//@item core/src/message/destroy_bus_listener.rs struct DestroyBusListener
//@item core/src/message/destroy_bus_listener_reply.rs enum DestroyBusListenerResult
//@item core/src/message/destroy_bus_listener_reply.rs struct DestroyBusListenerReply
//@item core/src/message/start_bus_listener.rs struct StartBusListener
//@item core/src/message/start_bus_listener_reply.rs enum StartBusListenerResult
//@item core/src/message/start_bus_listener_reply.rs struct StartBusListenerReply
//@item core/src/message/emit_bus_event.rs struct EmitBusEvent
//@item core/src/message/bus_listener_current_finished.rs struct BusListenerCurrentFinished
//@item core/src/message/stop_bus_listener.rs struct StopBusListener
//@item core/src/message/stop_bus_listener_reply.rs enum StopBusListenerResult
//@item core/src/message/stop_bus_listener_reply.rs struct StopBusListenerReply
//@item core/src/message/add_bus_listener_filter.rs struct AddBusListenerFilter
//@item core/src/message/remove_bus_listener_filter.rs struct RemoveBusListenerFilter
//@item core/src/message/clear_bus_listener_filters.rs struct ClearBusListenerFilters

// protocol minor version that introduced each message kind sent by these handlers (0 = base protocol 1.14)
impl IntoMessage for DestroyBusListenerReply { open spec fn min_minor() -> u32 { 0 } open spec fn allowed_for(&self, receiver: &ConnectionState) -> bool { true } }
impl IntoMessage for CreateBusListenerReply { open spec fn min_minor() -> u32 { 0 } open spec fn allowed_for(&self, receiver: &ConnectionState) -> bool { true } }

// random UUIDv4 cookie: freshness w.r.t. live listeners is ASSUMED at the creation site (see create_bus_listener)
impl BusListenerCookie {
    #[verifier::external_body]
    pub fn new_v4() -> (r: Self) { unimplemented!() }
}
impl IntoMessage for StartBusListenerReply { open spec fn min_minor() -> u32 { 0 } open spec fn allowed_for(&self, receiver: &ConnectionState) -> bool { true } }
// ROUTING (C10): a bus event tagged with a listener cookie, and the end-of-current marker of a listener, go only to the
// connection that owns that listener ("nothing else carries the tag")
impl IntoMessage for EmitBusEvent {
    open spec fn min_minor() -> u32 { 0 }
    closed spec fn allowed_for(&self, receiver: &ConnectionState) -> bool {
        self.cookie is Some ==> receiver.bus_listeners@.contains(self.cookie->Some_0)
    }
}
impl IntoMessage for BusListenerCurrentFinished {
    open spec fn min_minor() -> u32 { 0 }
    closed spec fn allowed_for(&self, receiver: &ConnectionState) -> bool { receiver.bus_listeners@.contains(self.cookie) }
}

// the registry types are opaque in this unit; start_bus_listener only reads ids out of them
opaque_copy_key!(ServiceId);
//@item core/src/bus_listener.rs enum BusEvent
impl ObjectId {
    #[verifier::external_body]
    pub fn new(uuid: ObjectUuid, cookie: ObjectCookie) -> (r: Self) { unimplemented!() }
}
impl ServiceId {
    #[verifier::external_body]
    pub fn new(object_id: ObjectId, uuid: ServiceUuid, cookie: ServiceCookie) -> (r: Self) { unimplemented!() }
}
impl Object {
    #[verifier::external_body]
    pub(crate) fn cookie(&self) -> (r: ObjectCookie) { unimplemented!() }
}
impl Service {
    #[verifier::external_body]
    pub(crate) fn cookie(&self) -> (r: ServiceCookie) { unimplemented!() }
    #[verifier::external_body]
    pub(crate) fn object_cookie(&self) -> (r: ObjectCookie) { unimplemented!() }
}
// #[derive(PartialEq)] on BusListenerScope is structural equality. ASSUMED.
impl PartialEqSpecImpl for BusListenerScope {
    open spec fn obeys_eq_spec() -> bool { true }
    open spec fn eq_spec(&self, other: &Self) -> bool { *self == *other }
}
impl PartialEq for BusListenerScope {
    #[verifier::external_body]
    fn eq(&self, other: &Self) -> (r: bool) { unimplemented!() }
}
impl IntoMessage for StopBusListenerReply { open spec fn min_minor() -> u32 { 0 } open spec fn allowed_for(&self, receiver: &ConnectionState) -> bool { true } }

// ---- BusListener: real struct, methods ASSUMED with the contracts verified in unit broker_bus_listener -----------
//@item core/src/bus_listener.rs enum BusListenerScope attr=derive(Clone,Copy)
//@item broker/src/bus_listener.rs struct BusListener

impl BusListener {
    // the cached-flag invariant of the leaf unit; filters are opaque here, so it is an uninterpreted predicate in this unit
    pub uninterp spec fn flags_ok(&self) -> bool;
    //@fn-from broker_bus_listener broker/src/bus_listener.rs BusListener::new
    //@fn-from broker_bus_listener broker/src/bus_listener.rs BusListener::conn_id
    //@fn-from broker_bus_listener broker/src/bus_listener.rs BusListener::clear_filters
    //@fn-from broker_bus_listener broker/src/bus_listener.rs BusListener::stop
    //@fn-from broker_bus_listener broker/src/bus_listener.rs BusListener::start

    // The matching predicates and enumerations of a listener (`self.filters.iter().copied().any(..)`, `filter_map` with a
    // closure: iterator adapters, outside Verus). ASSUMED, no contract: start_bus_listener only uses them to decide which
    // events to SEND, and sends are not part of the state model.
    // verified in the leaf unit against the plain filter semantics (there the filters and ids are the real types; here they are
    // opaque, so the semantics is an uninterpreted predicate); matches_object needs flags_ok -- discharged from bl_inv
    pub uninterp spec fn some_filter_matches_object(&self, object: ObjectId) -> bool;
    pub uninterp spec fn has_any_object_filter(&self) -> bool;
    pub uninterp spec fn some_filter_matches_service(&self, service: ServiceId) -> bool;
    //@fn-from broker_bus_listener broker/src/bus_listener.rs BusListener::matches_object
    //@fn-from broker_bus_listener broker/src/bus_listener.rs BusListener::matches_service
    //@fn broker/src/bus_listener.rs BusListener::specific_objects nobody iter
    //@end
    //@fn broker/src/bus_listener.rs BusListener::specific_services nobody iter
    //@end

    // add_filter / remove_filter: verified in the leaf unit (`|=`/`&=` desugared by N10, `.iter().any/.all` by N12)
    //@fn-from broker_bus_listener broker/src/bus_listener.rs BusListener::add_filter
    //@fn-from broker_bus_listener broker/src/bus_listener.rs BusListener::remove_filter
}

// ---- ConnectionState ----------------------------------------------------------------------------------------
//@item broker/src/broker/conn_state.rs struct ConnectionState

impl ConnectionState {
    //@include _shared/conn_state_specs.rs
    //@fn-from broker_conn_state broker/src/broker/conn_state.rs ConnectionState::add_bus_listener
    //@fn-from broker_conn_state broker/src/broker/conn_state.rs ConnectionState::remove_bus_listener

    // sending only pushes into the connection's outgoing queue (interior mutability); no broker state changes.
    // Precondition: the message kind exists in the connection's negotiated protocol version (see handler_prelude.rs).
    #[verifier::external_body]
    pub(crate) fn send(&self, msg: VersionedMessage) -> (r: Result<(), ()>)
        requires self.version.allows(msg.min_minor()), msg.allowed_for(self)
    { unimplemented!() }
}

// ---- Broker -------------------------------------------------------------------------------------------
opaque!(Channel);
//@item broker/src/broker.rs macro send
//@item broker/src/broker.rs struct Broker

impl Broker {
    //@include _shared/bl_inv.rs
    //@include _shared/statistics_specs.rs
    // the listener `c` exists and belongs to connection `id`
    spec fn owns(&self, id: &ConnectionId, c: BusListenerCookie) -> bool {
        self.bus_listeners@.contains_key(c) && self.bus_listeners@[c].conn_id.id() == id.id()
    }

    //@fn broker/src/broker.rs Broker::remove_bus_listener
        requires
            old(self).bl_inv(),
        ensures
            final(self).bl_inv(),
            old(self).bl_owners_connected() ==> final(self).bl_owners_connected(),
            final(self).bl_same_rest(old(self)),
            final(self).bus_listeners@ == old(self).bus_listeners@.remove(cookie),
            final(self).conns@.dom() == old(self).conns@.dom(),
            // only the owner's own list of listeners is touched
            forall|k: ConnectionId| #![trigger final(self).conns@[k]] old(self).conns@.contains_key(k) ==> {
                if old(self).bus_listeners@.contains_key(cookie) && k == old(self).bus_listeners@[cookie].conn_id {
                    final(self).conns@[k].bus_listeners@ == old(self).conns@[k].bus_listeners@.remove(cookie)
                        && final(self).conns@[k].rest_eq(&old(self).conns@[k], 8)
                } else {
                    final(self).conns@[k] == old(self).conns@[k]
                }
            },
            // statistics: the listener counter follows the listener table, the other counters are untouched
            old(self).stat_listeners_ok() ==> final(self).stat_listeners_ok(),
            final(self).statistics.num_connections == old(self).statistics.num_connections,
            final(self).statistics.num_objects == old(self).statistics.num_objects,
            final(self).statistics.num_services == old(self).statistics.num_services,
            final(self).statistics.num_channels == old(self).statistics.num_channels,
    //@end

    //@fn broker/src/broker.rs Broker::destroy_bus_listener
        requires
            old(self).bl_inv(), old(self).bl_owners_connected(),
        ensures
            final(self).bl_inv(), final(self).bl_owners_connected(),
            final(self).bl_same_rest(old(self)),
            final(self).conns@.dom() == old(self).conns@.dom(),
            // only the owning connection can destroy a listener
            !(old(self).conns@.contains_key(*id) && old(self).owns(id, req.cookie))
                ==> final(self).bus_listeners@ == old(self).bus_listeners@ && final(self).conns@ == old(self).conns@,
            // a destroyed listener is gone from the table (and can therefore produce nothing any more)
            (old(self).conns@.contains_key(*id) && old(self).owns(id, req.cookie)) ==> {
                ||| final(self).bus_listeners@ == old(self).bus_listeners@.remove(req.cookie)
                ||| (r is Err && final(self).bus_listeners@ == old(self).bus_listeners@ && final(self).conns@ == old(self).conns@)
            },
            // statistics: the listener counter follows the listener table, the other counters are untouched
            old(self).stat_listeners_ok() ==> final(self).stat_listeners_ok(),
            final(self).statistics.num_connections == old(self).statistics.num_connections,
            final(self).statistics.num_objects == old(self).statistics.num_objects,
            final(self).statistics.num_services == old(self).statistics.num_services,
            final(self).statistics.num_channels == old(self).statistics.num_channels,
    //@end

    //@fn broker/src/broker.rs Broker::stop_bus_listener
        requires
            old(self).bl_inv(), old(self).bl_owners_connected(),
        ensures
            final(self).bl_inv(), final(self).bl_owners_connected(),
            final(self).bl_same_rest(old(self)),
            final(self).conns@ == old(self).conns@,
            final(self).bus_listeners@.dom() == old(self).bus_listeners@.dom(),
            forall|c: BusListenerCookie| c != req.cookie && old(self).bus_listeners@.contains_key(c)
                ==> final(self).bus_listeners@[c] == old(self).bus_listeners@[c],
            !(old(self).conns@.contains_key(*id) && old(self).owns(id, req.cookie))
                ==> final(self).bus_listeners@ == old(self).bus_listeners@,
            // after a stop request of its owner the listener is not started, whatever it was before
            (old(self).conns@.contains_key(*id) && old(self).owns(id, req.cookie)) ==> {
                &&& final(self).bus_listeners@[req.cookie].scope is None
                &&& final(self).bus_listeners@[req.cookie].filters == old(self).bus_listeners@[req.cookie].filters
                &&& final(self).bus_listeners@[req.cookie].conn_id == old(self).bus_listeners@[req.cookie].conn_id
            },
            final(self).stat_same(old(self)),   // no counter is touched
    //@end

    //@fn broker/src/broker.rs Broker::add_bus_listener_filter
        requires
            old(self).bl_inv(), old(self).bl_owners_connected(),
        ensures
            final(self).bl_inv(), final(self).bl_owners_connected(),
            final(self).bl_same_rest(old(self)),
            final(self).conns@ == old(self).conns@,
            final(self).bus_listeners@.dom() == old(self).bus_listeners@.dom(),
            forall|c: BusListenerCookie| c != req.cookie && old(self).bus_listeners@.contains_key(c)
                ==> final(self).bus_listeners@[c] == old(self).bus_listeners@[c],
            !old(self).owns(id, req.cookie) ==> final(self).bus_listeners@ == old(self).bus_listeners@,
            old(self).owns(id, req.cookie) ==> {
                &&& final(self).bus_listeners@[req.cookie].filters@ == old(self).bus_listeners@[req.cookie].filters@.insert(req.filter)
                &&& final(self).bus_listeners@[req.cookie].scope == old(self).bus_listeners@[req.cookie].scope
            },
            final(self).stat_same(old(self)),   // no counter is touched
    //@end

    //@fn broker/src/broker.rs Broker::remove_bus_listener_filter
        requires
            old(self).bl_inv(), old(self).bl_owners_connected(),
        ensures
            final(self).bl_inv(), final(self).bl_owners_connected(),
            final(self).bl_same_rest(old(self)),
            final(self).conns@ == old(self).conns@,
            final(self).bus_listeners@.dom() == old(self).bus_listeners@.dom(),
            forall|c: BusListenerCookie| c != req.cookie && old(self).bus_listeners@.contains_key(c)
                ==> final(self).bus_listeners@[c] == old(self).bus_listeners@[c],
            !old(self).owns(id, req.cookie) ==> final(self).bus_listeners@ == old(self).bus_listeners@,
            old(self).owns(id, req.cookie) ==> {
                &&& final(self).bus_listeners@[req.cookie].filters@ == old(self).bus_listeners@[req.cookie].filters@.remove(req.filter)
                &&& final(self).bus_listeners@[req.cookie].scope == old(self).bus_listeners@[req.cookie].scope
            },
            final(self).stat_same(old(self)),   // no counter is touched
    //@end

    //@fn broker/src/broker.rs Broker::clear_bus_listener_filters
        requires
            old(self).bl_inv(), old(self).bl_owners_connected(),
        ensures
            final(self).bl_inv(), final(self).bl_owners_connected(),
            final(self).bl_same_rest(old(self)),
            final(self).conns@ == old(self).conns@,
            final(self).bus_listeners@.dom() == old(self).bus_listeners@.dom(),
            forall|c: BusListenerCookie| c != req.cookie && old(self).bus_listeners@.contains_key(c)
                ==> final(self).bus_listeners@[c] == old(self).bus_listeners@[c],
            !old(self).owns(id, req.cookie) ==> final(self).bus_listeners@ == old(self).bus_listeners@,
            old(self).owns(id, req.cookie) ==> {
                &&& final(self).bus_listeners@[req.cookie].filters@ == Set::<BusListenerFilter>::empty()
                &&& final(self).bus_listeners@[req.cookie].scope == old(self).bus_listeners@[req.cookie].scope
            },
            final(self).stat_same(old(self)),   // no counter is touched
    //@end

    // ---- create_bus_listener ------------------------------------------------------------------------------------------
    //@fn broker/src/broker.rs Broker::create_bus_listener
        requires
            old(self).bl_inv(), old(self).bl_owners_connected(),
        ensures
            final(self).bl_inv(), final(self).bl_owners_connected(),
            final(self).bl_same_rest(old(self)),
            final(self).conns@.dom() == old(self).conns@.dom(),
            !old(self).conns@.contains_key(*id) ==> final(self).bus_listeners@ == old(self).bus_listeners@ && final(self).conns@ == old(self).conns@,
            old(self).conns@.contains_key(*id) ==> {
                // either the reply could not be sent and nothing is created ...
                ||| (r is Err && final(self).bus_listeners@ == old(self).bus_listeners@ && final(self).conns@ == old(self).conns@)
                // ... or exactly one listener is registered under a cookie no live listener uses: owned by the requester, without
                // filters and NOT started (it produces nothing until it is started)
                ||| (r is Ok && exists|cookie: BusListenerCookie| #![trigger final(self).bus_listeners@.contains_key(cookie)] {
                        &&& !old(self).bus_listeners@.contains_key(cookie)
                        &&& final(self).bus_listeners@.dom() =~= old(self).bus_listeners@.dom().insert(cookie)
                        &&& final(self).bus_listeners@[cookie].conn_id == *id
                        &&& final(self).bus_listeners@[cookie].scope is None
                        &&& final(self).bus_listeners@[cookie].filters@ == Set::<BusListenerFilter>::empty()
                        &&& forall|c: BusListenerCookie| #![trigger final(self).bus_listeners@[c]] old(self).bus_listeners@.contains_key(c) ==> final(self).bus_listeners@[c] == old(self).bus_listeners@[c]
                        &&& final(self).conns@[*id].bus_listeners@ == old(self).conns@[*id].bus_listeners@.insert(cookie)
                        &&& final(self).conns@[*id].rest_eq(&old(self).conns@[*id], 8)
                        &&& forall|k: ConnectionId| #![trigger final(self).conns@[k]] old(self).conns@.contains_key(k) && k != *id ==> final(self).conns@[k] == old(self).conns@[k]
                    })
            },
            // statistics (exact below usize::MAX entries)
            old(self).stat_listeners_ok() && old(self).bus_listeners@.len() < usize::MAX ==> final(self).stat_listeners_ok(),
            final(self).statistics.num_connections == old(self).statistics.num_connections,
            final(self).statistics.num_objects == old(self).statistics.num_objects,
            final(self).statistics.num_services == old(self).statistics.num_services,
            final(self).statistics.num_channels == old(self).statistics.num_channels,
    //@ghost after `let cookie = BusListenerCookie::new_v4();`
        // ASSUMPTION (random UUIDv4): the new cookie is not the cookie of a live listener
        proof { assume(!self.bus_listeners@.contains_key(cookie)); }
    //@ghost fn-tail
        proof {
            assert(!old(self).bus_listeners@.contains_key(cookie));
            assert(self.bus_listeners@.contains_key(cookie));
            assert(self.bus_listeners@.dom() =~= old(self).bus_listeners@.dom().insert(cookie));
        }
    //@end

    // ---- start_bus_listener -------------------------------------------------------------------------------------------
    // The only state change is BusListener::start on the requester's own listener; the four enumeration loops (specific /
    // matching objects, specific / matching services) only send. Every tagged event and the end-of-current marker go to the
    // connection that owns the listener (precondition of `send`).
    //@fn broker/src/broker.rs Broker::start_bus_listener attr=verifier::loop_isolation(false)
        requires
            old(self).bl_inv(), old(self).bl_owners_connected(),
        ensures
            final(self).bl_inv(), final(self).bl_owners_connected(),
            final(self).bl_same_rest(old(self)),
            final(self).conns@ == old(self).conns@,
            final(self).bus_listeners@.dom() == old(self).bus_listeners@.dom(),
            forall|c: BusListenerCookie| #![trigger final(self).bus_listeners@[c]] c != req.cookie && old(self).bus_listeners@.contains_key(c) ==> final(self).bus_listeners@[c] == old(self).bus_listeners@[c],
            // only the owning connection can start a listener, and only once
            !(old(self).conns@.contains_key(*id) && old(self).owns(id, req.cookie) && old(self).bus_listeners@[req.cookie].scope is None)
                ==> final(self).bus_listeners@ == old(self).bus_listeners@,
            (old(self).conns@.contains_key(*id) && old(self).owns(id, req.cookie) && old(self).bus_listeners@[req.cookie].scope is None) ==> {
                &&& final(self).bus_listeners@[req.cookie].scope == Some(req.scope)
                &&& final(self).bus_listeners@[req.cookie].filters == old(self).bus_listeners@[req.cookie].filters
                &&& final(self).bus_listeners@[req.cookie].conn_id == old(self).bus_listeners@[req.cookie].conn_id
            },
            final(self).stat_same(old(self)),
    //@loop 0 it0
        invariant self.conns@.contains_key(*id), conn == self.conns@[*id], self.conns@[*id].bus_listeners@.contains(req.cookie),
    //@loop 1 it1
        invariant self.conns@.contains_key(*id), conn == self.conns@[*id], self.conns@[*id].bus_listeners@.contains(req.cookie),
    //@loop 2 it2
        invariant self.conns@.contains_key(*id), conn == self.conns@[*id], self.conns@[*id].bus_listeners@.contains(req.cookie),
    //@loop 3 it3
        invariant self.conns@.contains_key(*id), conn == self.conns@[*id], self.conns@[*id].bus_listeners@.contains(req.cookie),
    //@end
}

} // verus!

fn main() {}
