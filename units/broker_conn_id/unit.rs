// unit: broker_conn_id   (supports the trusted base of every broker unit: live connection ids are pairwise distinct)
// verbatim `Inner::{new, acquire, release}` of broker/src/conn_id.rs (the id allocator behind ConnectionId).
use vstd::prelude::*;

verus! {

// slice::contains has no vstd specification; ASSUMED (std semantics). Only used inside a debug_assert!.
pub assume_specification<T: PartialEq>[ <[T]>::contains ](s: &[T], x: &T) -> (r: bool)
    ensures r == exists|i: int| 0 <= i < s@.len() && s@[i] == *x;

//@item broker/src/conn_id.rs struct Inner

impl Inner {
    // ids currently handed out
    spec fn is_free(&self, i: usize) -> bool {
        exists|j: int| 0 <= j < self.free@.len() && #[trigger] self.free@[j] == i
    }

    spec fn is_used(&self, i: usize) -> bool {
        i < self.next && !self.is_free(i)
    }

    // the free list holds distinct ids below `next`
    spec fn inv(&self) -> bool {
        &&& forall|i: int| 0 <= i < self.free@.len() ==> #[trigger] self.free@[i] < self.next
        &&& forall|i: int, j: int| 0 <= i < j < self.free@.len() ==> #[trigger] self.free@[i] != #[trigger] self.free@[j]
    }

    //@fn broker/src/conn_id.rs Inner::new
        ensures r.inv(), forall|i: usize| !r.is_used(i),
    //@end

    // exact state change of acquire / release (strongest postconditions); the abstract statements about the set of ids
    // in use follow by the lemmas below
    spec fn acquire_rel(old: &Inner, new: &Inner, r: usize) -> bool {
        if old.free@.len() > 0 {
            &&& new.free@ == old.free@.drop_last()
            &&& new.next == old.next
            &&& r == old.free@.last()
        } else {
            &&& new.free@ == old.free@
            &&& new.next == old.next + 1
            &&& r == old.next
        }
    }

    spec fn release_rel(old: &Inner, new: &Inner, id: usize) -> bool {
        if id + 1 == old.next {
            new.free@ == old.free@ && new.next == old.next - 1
        } else {
            new.free@ == old.free@.push(id) && new.next == old.next
        }
    }

    //@fn broker/src/conn_id.rs Inner::acquire
        requires
            old(self).inv(),
            old(self).next < usize::MAX,
        ensures
            final(self).inv(),
            Inner::acquire_rel(old(self), final(self), r),
    //@end

    //@fn broker/src/conn_id.rs Inner::release
        requires
            old(self).inv(),
            old(self).is_used(id),     // discharges both debug_assert!s
        ensures
            final(self).inv(),
            Inner::release_rel(old(self), final(self), id),
    //@end

    // acquire hands out an id that is not in use, and exactly that id becomes used
    proof fn lemma_acquire_fresh(old: &Inner, new: &Inner, r: usize)
        requires old.inv(), Inner::acquire_rel(old, new, r),
        ensures
            !old.is_used(r),
            forall|i: usize| new.is_used(i) == (old.is_used(i) || i == r),
    {
        if old.free@.len() > 0 {
            let n = old.free@.len() - 1;
            assert(old.free@[n] == r);
            assert(old.is_free(r));
            assert forall|i: usize| new.is_used(i) == (old.is_used(i) || i == r) by {
                if old.is_free(i) && i != r {
                    let j = choose|j: int| 0 <= j < old.free@.len() && old.free@[j] == i;
                    assert(j != n);
                    assert(new.free@[j] == i);
                    assert(new.is_free(i));
                }
                if new.is_free(i) {
                    let j = choose|j: int| 0 <= j < new.free@.len() && new.free@[j] == i;
                    assert(old.free@[j] == i);
                    assert(old.is_free(i));
                    assert(i != r);
                }
                if i == r {
                    assert(!new.is_free(r)) by {
                        if new.is_free(r) {
                            let j = choose|j: int| 0 <= j < new.free@.len() && new.free@[j] == r;
                            assert(old.free@[j] == r && old.free@[n] == r && j < n);
                        }
                    }
                    assert(r < old.next);
                }
            }
        } else {
            assert(!old.is_used(r));
            assert forall|i: usize| new.is_used(i) == (old.is_used(i) || i == r) by {
                if new.is_free(i) {
                    let j = choose|j: int| 0 <= j < new.free@.len() && new.free@[j] == i;
                    assert(false);
                }
            }
        }
    }

    // release returns exactly that id
    proof fn lemma_release_exact(old: &Inner, new: &Inner, id: usize)
        requires old.inv(), old.is_used(id), Inner::release_rel(old, new, id),
        ensures forall|i: usize| new.is_used(i) == (old.is_used(i) && i != id),
    {
        if id + 1 == old.next {
            assert forall|i: usize| new.is_used(i) == (old.is_used(i) && i != id) by {
                if old.is_free(i) {
                    let j = choose|j: int| 0 <= j < old.free@.len() && old.free@[j] == i;
                    assert(new.free@[j] == i);
                }
                if new.is_free(i) {
                    let j = choose|j: int| 0 <= j < new.free@.len() && new.free@[j] == i;
                    assert(old.free@[j] == i);
                }
            }
        } else {
            let n = old.free@.len() as int;
            assert(new.free@[n] == id);
            assert(new.is_free(id));
            assert forall|i: usize| new.is_used(i) == (old.is_used(i) && i != id) by {
                if old.is_free(i) {
                    let j = choose|j: int| 0 <= j < old.free@.len() && old.free@[j] == i;
                    assert(new.free@[j] == i);
                    assert(new.is_free(i));
                }
                if new.is_free(i) && i != id {
                    let j = choose|j: int| 0 <= j < new.free@.len() && new.free@[j] == i;
                    assert(j != n);
                    assert(old.free@[j] == i);
                    assert(old.is_free(i));
                }
            }
        }
    }
}

} // verus!

fn main() {}
